#!/bin/bash
# Runs the repository's own test suite (both modules of the go.work workspace) with the
# verif build tag OFF and prints the number of passing tests (BASELINE.json: 204).
# go.work.sum is restored afterwards (workspace-mode go commands rewrite it).
set -u
export GOPROXY=off GOSUMDB=off GOTOOLCHAIN=local GOFLAGS=
cd /repo || exit 2
cp go.work.sum /tmp/.go.work.sum.$$ 2>/dev/null
pass=0; fail=0
for m in . tests; do
  out=$(cd /repo/$m && go build ./... 2>&1 && go test -json -vet=off -count=1 -timeout 25m ./... 2>&1)
  p=$(printf '%s\n' "$out" | grep -c '"Action":"pass","Package":"[^"]*","Test"')
  f=$(printf '%s\n' "$out" | grep -c '"Action":"fail"')
  pass=$((pass+p)); fail=$((fail+f))
  if [ "$f" != "0" ]; then printf '%s\n' "$out" | grep '"Action":"fail"' | head -20; fi
  if ! printf '%s\n' "$out" | grep -q '"Action"'; then printf '%s\n' "$out" | tail -20; fail=$((fail+1)); fi
done
[ -f /tmp/.go.work.sum.$$ ] && cp /tmp/.go.work.sum.$$ go.work.sum && rm -f /tmp/.go.work.sum.$$
echo "baseline: pass=$pass fail=$fail (expected pass=204 fail=0)"
[ "$fail" = "0" ] && [ "$pass" -ge 204 ]

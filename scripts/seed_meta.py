#!/usr/bin/env python3
# seed_meta.py <id> <first-run: caught|missed|...> <widened: text> : write seeded/<id>/meta.json from the
# trial's replay directories (which unit / check caught the change) and the seed's README.
import json,sys,glob,os,re
sid,first,widened=sys.argv[1],sys.argv[2],sys.argv[3]
prop=sid[:3]
d=f'/verif/seeded/{sid}'
readme=open(d+'/README.md').read() if os.path.exists(d+'/README.md') else ''
title=next((l.strip('# ').strip() for l in readme.splitlines() if l.strip()), '')
caught=set()
for base in (f'/tmp/replays-{sid}', f'/tmp/replays-{sid}.keep'):
    for m in glob.glob(f'{base}/{prop}/*/meta.json'):
        try:
            j=json.load(open(m))
            if j.get('status')=='violated' or j.get('outcome') in ('panic','exit'):
                caught.add(f"{j.get('unit')} :: {j.get('check') or j.get('outcome')}")
        except Exception: pass
log=f'/root/trial/{sid}.log'
nviol=len(re.findall(r'^VIOLATION', open(log).read(), re.M)) if os.path.exists(log) else 0
needs=''
m=re.search(r'(?is)(what is needed to manifest|trigger|what it needs)[^\n]*\n(.*?)(\n#|\Z)', readme)
if m: needs=' '.join(m.group(2).split())[:600]
meta={"property":prop,"summary":title[:300],"needs":needs,
 "first_run":first,"widened":widened,
 "caught_by": sorted(caught) if caught else "see widened",
 "ran":"scripts/process_seed.sh / scripts/trial_seed.sh: scratch worktree of /repo at HEAD + patch.diff (git apply), existing suite passes with the change, demo/run.sh exits non-zero with it and 0 after git apply -R; the property's check run against the worktree with scripts/try_seed_wt.sh (engine pointed at the scratch checkout; /repo untouched); worktree removed afterwards",
 "verified":"yes (both directions)"}
json.dump(meta,open(d+'/meta.json','w'),indent=1)
print(sid, len(caught), 'catching checks', nviol,'violation lines')

#!/usr/bin/env python3
"""Prints the per-property figures of /verif/evidence/*.json as a markdown table (for DESIGN.md A.4)."""
import json,glob
print("| id | units | paths | solver queries (sat/unsat/unknown) | wall | natively replayed / twins |")
print("|----|-------|-------|------------------------------------|------|---------------------------|")
tot=0
for f in sorted(glob.glob('/verif/evidence/C*.json')):
    e=json.load(open(f))
    us=e.get('units',[])
    paths=sum(u.get('paths',0) for u in us)
    q=e.get('queries',{})
    if isinstance(q,dict):
        qs=f"{q.get('total',q.get('queries','?'))} ({q.get('sat','?')}/{q.get('unsat','?')}/{q.get('unknown','?')})"
    else: qs=str(q)
    tot+=e.get('wall_s',0)
    print(f"| {e['property_id']} | {len(us)} | {paths} | {qs} | {e.get('wall_s',0):.0f} s | {e.get('native_replays_reproduced','?')}/{e.get('native_replays','?')} replays, {e.get('native_twins_agree','?')}/{e.get('native_twins_run','?')} twins |")
print(f"\nTotal wall time of the quick tier: {tot/60:.0f} min.")

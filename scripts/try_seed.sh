#!/bin/bash
# try_seed.sh <seed-dir> <check args...> : apply a seeded change to /repo, run a check, undo.
# Evidence files are saved and restored (evidence must describe runs on the unchanged tree).
seed=$(realpath $1); shift
cd /repo || exit 2
if [ -n "$(git status --porcelain)" ]; then echo "repo not clean"; exit 2; fi
git apply $seed/patch.diff || { echo "patch does not apply"; exit 2; }
rm -rf /tmp/.evidence.bak && cp -r /verif/evidence /tmp/.evidence.bak
cd /verif && ./check "$@"; rc=$?
rm -rf /verif/evidence && mv /tmp/.evidence.bak /verif/evidence
git -C /repo checkout -- . ; git -C /repo status --porcelain
echo "check exit=$rc"
exit $rc

#!/bin/bash
# try_seed.sh <seed-dir> <check args...> : apply a seeded change to /repo, run a check, undo.
# Evidence goes to a scratch directory (the committed evidence describes the unchanged tree).
seed=$(realpath $1); shift
cd /repo || exit 2
if [ -n "$(git status --porcelain)" ]; then echo "repo not clean"; exit 2; fi
git apply $seed/patch.diff || { echo "patch does not apply"; exit 2; }
cd /verif && GOSYM_EVIDENCE_DIR=/tmp/.evidence.seed ./check "$@"; rc=$?
git -C /repo checkout -- . ; git -C /repo status --porcelain
echo "check exit=$rc"
exit $rc

#!/usr/bin/env python3
"""Regenerates /verif/MANIFEST.json from the table below (kept valid at all times)."""
import json
claimed = {
 "C01": ("Every emitted file of the bounded shape grammar is parsed, type-checked against the real dependency packages (go/types: undeclared/duplicate identifiers, unused or missing imports, ill-typed literals), checked for gofmt stability, and every symbolic literal is shown by the solver to fit the static type of its context and to be a non-zero divisor, on every path of the symbolically executed generator.",
         "Per-path oracles (parser, go/types, gofmt) act on the symbolic output; the solver decides the path partition and the literal obligations. Shapes: one property (plus one nested level), default option set plus --min-sized-ints in the dedicated units; descriptions/titles with special characters, --only-models/--tags/--capitalization and multi-file runs are covered by C14/C16/C20 as far as built."),
 "C02": ("For every shape of the grammar and every document valid under the reference model (outside the don't-care regions), the solver shows that the emitted UnmarshalJSON accepts it; value-kept checks on the kernels (L2).",
         "Decode stubs for encoding/json (contract in DESIGN §5.3) validated by native replay; marshal-back and additional-property collection are not yet covered."),
 "C03": ("For every typed position of the grammar the solver shows: a document value of another JSON kind is rejected, an integer position rejects non-integral numbers, null is accepted where the schema lists it.",
         "encoding/json decode stub; null at non-nullable positions and multi-type lists are outside the property (don't care)."),
 "C04": ("All presence flags of the document are symbolic at once: accepted iff every required key is present (null counts as present), for the requiredValidator kernel (JSON and YAML) and through the whole generator for scalar, map, enum, format and nested-object members, inline and via $ref.",
         "allOf/anyOf branches are covered by C11 as far as built; required keys that are not declared as properties are outside the claim."),
 "C05": ("NormalizeBounds (L1), numericValidator emission + emitted code (L2) and attachment through the whole generator (L3) are executed symbolically with symbolic bound values and symbolic document numbers: accepted iff the value satisfies every stated bound.",
         "Quick tier: exact-grid domain (bounds and numbers n/4, |.| <= 2^36); thorough tier adds IEEE float64 semantics. multipleOf is not yet covered. Recorded findings: bounds outside int64 on integer fields, nullable definitions."),
 "C06": ("stringValidator emission + emitted code (L2) and attachment (L3) with symbolic limits and a document string of arbitrary byte length, rune length and match outcome: accepted iff the rune length is within the limits and the pattern matches.",
         "Pattern matching is an uninterpreted predicate shared with the reference model. Recorded findings: length in bytes, nullable definitions."),
 "C07": ("arrayValidator emission with its index bookkeeping (L2, depth <= 3) and attachment through the generator (L3, nested arrays with their own limits): accepted iff every array is null/absent or within its own limits.",
         "Document arrays of length <= N per level (N=2 quick). Recorded findings: element constraints not enforced, nested arrays use the outer limits, $ref to array definitions."),
 "C08": ("String, integer and mixed enums, typed and untyped, inline, via $ref, as array items and object members: accepted iff the document value is JSON-equal to a listed value (reflect.DeepEqual modelled with dynamic types).",
         "Listed values are concrete representatives, the document value is symbolic; constants and marshal-back are not yet covered."),
 "C15": ("PrimitiveTypeFromJSONSchemaType/getMinIntType with symbolic bounds: representable, sound removal, remaining bounds unchanged, narrowest type.",
         "Quick: exact-grid domain (8/16/32-bit limits); thorough: IEEE float64 and int64/uint64 documents. The relational accept_on == accept_off check through emitted code is part of the L3 units with MINSIZED when built."),
 "C19": ("On every path of every shape the emitted UnmarshalJSON is executed symbolically on a symbolic document (every kind at every position): no panic path is feasible, and on every error path the receiver is syntactically untouched (its arbitrary prior value).",
         "Library calls do not panic (stub contract); malformed input and non-object roots are covered for the root decode."),
}

claimed.update({
 "C09": ("Properties with a default (string, number, integer, boolean, string enum, array of strings, untyped) through the whole generator; emitted code on a symbolic document: an absent or null member is accepted and the decoded field equals the default, a present value is kept, the default literal type-checks in its field.",
         "Default values are concrete representatives (they pass through litter.Sdump natively); constraints are symbolic and assumed to admit the default. Recorded finding: defaults into pointer (nullable) fields do not compile."),
 "C10": ("Relational: every shape generated inline and through $ref, both emitted programs on the same symbolic document (same verdict); a recursive definition used by several referrers yields one Go type and decodes documents nested 3 deep; two documents with same-named definitions behind the same reference string keep their own meaning (multi-file harness over a virtual file system).",
         "The real file system (extension probing, symlinks), HTTP refs and nested definitions are not covered; the CachedLoader kernel is not encoded (ids are concrete). Recorded findings: nullable, format-typed and array definitions lose validation through $ref."),
 "C11": ("allOf / anyOf of two object branches (inline and by $ref, overlapping or disjoint property sets, own required, symbolic string-length keywords): emitted code on a symbolic document accepts iff every (allOf) / some (anyOf) branch's reference model accepts.",
         "mergo.Merge is a hand model of deepMerge for the option set used (validated by native replay with the real mergo); B=2 branches, object branches only. Recorded findings: the same keyword in two branches (first wins), anyOf branches by $ref without unmarshaler."),
 "C12": ("Every range over a Go map executed in repository code is a schedule choice; all orders of maps with <= 5 entries are explored on three harness shapes and every schedule must emit byte-identical files under identical names; a difference is confirmed natively by repeated runs.",
         "Schedules are enumerated by forking; the solver contributes only hole identity (weakest fit of the family, stated). Key permutation of the JSON input is map order after parsing; directory independence and main.go's allKeys are not covered."),
 "C14": ("Identifierize on strings of up to R symbolic runes, each ranging over all realizable attribute vectors of Go's Unicode tables (the solver picks the class, a witness code point replays it): non-empty, exported, valid identifier; colliding sibling names get distinct fields whose tags carry the exact name.",
         "R=3 (quick) / 4 (thorough) runes; empty --capitalization list at L1. Recorded findings: non-decimal numerals kept, lower-case letters without upper-case mapping stay unexported; names with quote/comma/backtick in tags are not covered."),
 "C16": ("Relational: one symbolic schema generated under two configurations differing in exactly one option (--only-models, --tags, --extra-imports); the emitted files are compared at declaration level with hole identifiers compared by their terms.",
         "The comparison is a per-path oracle on the symbolic output; identifier-renaming options and main.go's flag wiring are not covered."),
 "C17": ("With --extra-imports both emitted methods of every type run symbolically on the same symbolic type-correct document (valid or violating required/bound/length/pattern/string-enum rules, with and without defaults): same verdict and equal decoded values.",
         "Assumes yaml.v3 and encoding/json fill Go values identically for type-correct documents (stub contract, validated on replay); default tag set only."),
 "C18": ("Generator level: one ungeneratable element (5 kinds) injected at 9 positions makes addFile fail on every path; on every valid shape of the grammar under all --min-sized-ints/--extra-imports/--only-models combinations generation succeeds and no panic path is feasible; three unusual legal inputs.",
         "main.go (exit status, stdout/stderr, file writes, cobra flag parsing), unparsable and unreadable input files and termination are NOT covered: the claim stops at generator.addFile/Sources. Recorded findings: unresolvable $ref branches are swallowed, {\"$ref\": \"#\"} and an empty default key panic."),
 "C20": ("Two schema files with different ids under three package/output layouts, both argument orders, with and without the second file on the command line: outputs carry the mapped names, the emitted packages type-check TOGETHER (qualified cross-package references and imports), every root type lands in the package of its id only, and all explored orders emit identical files.",
         "F=2 files with concrete ids; virtual file system stub for os.Stat. Recorded finding: same-named definitions of two schemas in one package clash."),
})
claimed["C13"] = ("A symbolic schema DOCUMENT and its re-spelling (any subset of id/$id, definitions/$defs, dependencies/dependentSchemas, at every object level, as a renamed view of the same symbolic document; type as string vs one-element list; true vs {}) are pushed through the REAL Schema/Type/TypeList.UnmarshalJSON with the encoding/json decode stub: same parse outcome and parsed values equal on every pkg/schemas field that code outside the parser touches (set computed from SSA each run).",
  "JSON half only: the YAML spelling goes through goccy/go-yaml's byte-level parser and is NOT covered. Schema documents are bounded (listed keys, E=1 entry per map, depth 2). Equal parsed values give equal output because generation is a deterministic function of the parsed value and the options (C12).")
not_applicable_wip = {}
m={
 "version":1,
 "setup_cmd":"cd /verif/engine && mkdir -p bin && GOFLAGS=-mod=mod GOPROXY=off GOSUMDB=off GOTOOLCHAIN=local GOWORK=off go build -o bin/gosym ./cmd/gosym",
 "hooks":{
  "guard":"verif",
  "enable":"no source hooks: harness files (//go:build verif) live in /verif/harness and are injected into the repository's packages through a go/packages overlay (engine) or `go test -overlay` (native replay); /repo is never written by the machinery",
  "baseline_off_cmd":"/verif/scripts/baseline.sh",
  "source_commits":[],
  "add_only":True
 },
 "engines":[{"name":"gosym","path":"/verif/engine","serves_properties":sorted(claimed.keys()),
   "kind_free_text":"symbolic executor for go/ssa (adapted x/tools ssa/interp + SMT terms, fork-by-replay, z3 4.8.12), two stages (generator, then the Go text it emits), harnesses as in-package Go functions, native replay of solver models against the real generator and the real generated code"}],
 "checks":[],
 "not_applicable":[{"property_id":k,"reason":v} for k,v in sorted(not_applicable_wip.items())],
 "notes":"See DESIGN.md. Repairs of genuine defects are unguarded `fix:` commits in /repo, recorded as fixed in known_findings.json; open findings are listed there with witnesses. Seeded changes used to test the checks are under /verif/seeded."
}
for pid,(text,note) in sorted(claimed.items()):
    m["checks"].append({"property_id":pid,"quick_cmd":f"./check {pid} --tier quick","thorough_cmd":f"./check {pid} --tier thorough",
      "evidence_file":f"/verif/evidence/{pid}.json","replay_cmd_template":"./check --replay {path}","engine":"gosym",
      "level_claimed":{"category":"model_checking","text":"Bounded symbolic model checking of the real code (SSA built from /repo's working tree on every run). "+text,"design_ref":"DESIGN.md §8 "+pid},
      "level_note":"Trusted: the SSA interpreter and its bridges/stubs (validated by native replay of every reported model), z3 4.8.12. "+note,
      "technique":"SMT-based symbolic execution of go/ssa (generator and emitted code), z3; native replay of counterexamples"})
json.dump(m,open('/verif/MANIFEST.json','w'),indent=1)
print("claimed",len(claimed),"n/a",len(not_applicable_wip))

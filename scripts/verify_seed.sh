#!/bin/bash
# verify_seed.sh <worktree> : confirm a seeded change (suite passes with it; demo fails with it, passes without).
# The worktree is first normalised to HEAD + _seed/patch.diff (sub-agents share refs/stash, so
# their trees cannot be trusted); the change is toggled with git apply / git apply -R.
wt=$1
export GOFLAGS= GOPROXY=off GOSUMDB=off GOTOOLCHAIN=local
cd $wt || exit 2
git checkout -q -- . ; git apply _seed/patch.diff || { echo "patch.diff does not apply to HEAD"; exit 2; }
echo "== diff stat"; git diff --stat -- . ':(exclude)_seed' | tail -3
echo "== suite with change"
(go build ./... && go test -count=1 ./pkg/... 2>&1 | grep -v "no test files" && cd tests && go test -vet=off -count=1 ./... 2>&1 | grep -v "no test files") ; cd $wt; git checkout -q go.work.sum
echo "== demo with change (expect FAIL / non-zero)"
bash _seed/demo/run.sh > /tmp/seed_with.txt 2>&1; echo "exit=$?"; tail -3 /tmp/seed_with.txt
git checkout -q go.work.sum 2>/dev/null
echo "== demo without change (expect PASS / zero)"
git apply -R _seed/patch.diff
bash _seed/demo/run.sh > /tmp/seed_without.txt 2>&1; echo "exit=$?"; tail -3 /tmp/seed_without.txt
git checkout -q go.work.sum 2>/dev/null
git apply _seed/patch.diff
git status --short | head -5

#!/bin/bash
# verify_seed.sh <worktree> : confirm a seeded change (suite passes with it; demo fails with it, passes without)
wt=$1
export GOFLAGS= GOPROXY=off GOSUMDB=off GOTOOLCHAIN=local
cd $wt || exit 2
echo "== diff stat"; git diff --stat -- . ':(exclude)_seed' | tail -3
echo "== suite with change"
(go build ./... && go test -count=1 ./pkg/... 2>&1 | grep -v "no test files" && cd tests && go test -vet=off -count=1 ./... 2>&1 | grep -v "no test files") ; cd $wt; git checkout -q go.work.sum
echo "== demo with change (expect FAIL / non-zero)"
bash _seed/demo/run.sh > /tmp/seed_with.txt 2>&1; echo "exit=$?"; tail -3 /tmp/seed_with.txt
git checkout -q go.work.sum 2>/dev/null
echo "== demo without change (expect PASS / zero)"
git stash -q -- $(git diff --name-only -- . ':(exclude)_seed' ':!go.work.sum')
bash _seed/demo/run.sh > /tmp/seed_without.txt 2>&1; echo "exit=$?"; tail -3 /tmp/seed_without.txt
git checkout -q go.work.sum 2>/dev/null
git stash pop -q
git status --short | head -5

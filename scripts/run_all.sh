#!/bin/bash
# run_all.sh [tier] : run every registered check on the current tree (evidence is rewritten)
tier=${1:-quick}
cd /verif
rc=0
for p in $(python3 -c "import json; print(' '.join(c['property_id'] for c in json.load(open('MANIFEST.json'))['checks']))"); do
  s=$(date +%s)
  ./check $p --tier $tier > /tmp/run_all_${tier}_$p.log 2>&1; r=$?
  e=$(( $(date +%s) - s ))
  echo "$p exit=$r ${e}s $(grep -c KNOWN-FINDING /tmp/run_all_${tier}_$p.log) known, $(grep -c INCONCLUSIVE /tmp/run_all_${tier}_$p.log) inconclusive, $(grep -c VIOLATION /tmp/run_all_${tier}_$p.log) violations"
  [ $r -ne 0 ] && rc=1
done
exit $rc

#!/bin/bash
# process_seed.sh <worktree> : verify a sub-agent's seeded change in its scratch worktree (suite
# passes with it; demo fails with it and passes without), store it under /verif/seeded/<id>/ and
# run the property's check against the worktree. Log: /root/trial/<id>.{verify,log}
wt=$(realpath $1); id=$(basename $wt); prop=${id:0:3}; tier=${2:-quick}
mkdir -p /root/trial
export GOFLAGS= GOPROXY=off GOSUMDB=off GOTOOLCHAIN=local
(
cd $wt || exit 2
git checkout -q -- . ; rm -rf _tmp
git apply _seed/patch.diff || { echo "VERIFY-FAIL patch.diff does not apply to HEAD"; exit 2; }
echo "== diff stat"; git diff --stat -- . ':(exclude)_seed' | tail -3
echo "== suite with change"
(go build ./... && go test -count=1 ./pkg/... 2>&1 | grep -v "no test files" && cd tests && go test -vet=off -count=1 ./... 2>&1 | grep -v "no test files"); echo "suite-exit=$?"
cd $wt; git checkout -q go.work.sum
echo "== demo with change (expect non-zero)"
bash _seed/demo/run.sh > /root/trial/$id.with.txt 2>&1; echo "with-exit=$?"; tail -3 /root/trial/$id.with.txt
git checkout -q go.work.sum 2>/dev/null
echo "== demo without change (expect zero)"
git apply -R _seed/patch.diff
bash _seed/demo/run.sh > /root/trial/$id.without.txt 2>&1; echo "without-exit=$?"; tail -3 /root/trial/$id.without.txt
git checkout -q go.work.sum 2>/dev/null
git apply _seed/patch.diff; rm -rf _tmp
git status --short | grep -v _seed | head -5
) > /root/trial/$id.verify 2>&1
v="$(grep -c 'FAIL' /root/trial/$id.verify) FAIL-lines $(grep -E 'suite-exit|with-exit|without-exit' /root/trial/$id.verify | tr '\n' ' ')"
mkdir -p /verif/seeded/$id; cp -r $wt/_seed/. /verif/seeded/$id/
/verif/scripts/try_seed_wt.sh $wt ${CHECKPROP:-$prop} --tier $tier > /root/trial/$id.log 2>&1; rc=$?
echo "$id verify[$v] check-exit=$rc $(grep -c '^VIOLATION' /root/trial/$id.log) violations, $(grep -c INCONCLUSIVE /root/trial/$id.log) inconclusive"

#!/bin/bash
# trial_seed.sh <seed-id> [tier] : scratch worktree of /repo + seeded/<id>/patch.diff, run the
# property's check against it (try_seed_wt.sh), remove the worktree. Log: /root/trial/<id>.log
id=$1; tier=${2:-quick}; prop=${id:0:3}
wt=/tmp/wt/$id; mkdir -p /tmp/wt /root/trial
git -C /repo worktree remove --force $wt 2>/dev/null; rm -rf $wt
git -C /repo worktree add -q --detach $wt HEAD || exit 2
git -C $wt apply /verif/seeded/$id/patch.diff || { echo "patch does not apply"; git -C /repo worktree remove --force $wt; exit 2; }
/verif/scripts/try_seed_wt.sh $wt $prop --tier $tier > /root/trial/$id.log 2>&1; rc=$?
git -C /repo worktree remove --force $wt; rm -rf /tmp/replays-$id.keep; mv /tmp/replays-$id /tmp/replays-$id.keep 2>/dev/null
echo "$id exit=$rc $(grep -c '^VIOLATION' /root/trial/$id.log) violations, $(grep -c INCONCLUSIVE /root/trial/$id.log) inconclusive"
exit $rc

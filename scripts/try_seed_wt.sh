#!/bin/bash
# try_seed_wt.sh <worktree-with-change-applied> <check args...> : run a check against a scratch
# checkout instead of /repo (development only; /repo, /verif/evidence and /verif/replays are
# not touched).  The engine module is copied with its replace directive pointing at the checkout.
wt=$(realpath $1); shift; id=$(basename $wt)
eng=/tmp/eng-$id; rm -rf $eng; mkdir -p $eng
cp /verif/engine/go.mod /verif/engine/go.sum $eng/
sed -i "s#=> /repo#=> $wt#" $eng/go.mod
cd /verif
GOSYM_REPO_DIR=$wt GOSYM_ENGINE_DIR=$eng GOSYM_REPLAY_DIR=/tmp/replays-$id GOSYM_EVIDENCE_DIR=/tmp/.evidence.$id /verif/engine/bin/gosym check "$@"; rc=$?
rm -rf $eng /tmp/.evidence.$id
echo "check exit=$rc (replays, if any, under /tmp/replays-$id)"
exit $rc

#!/bin/bash
# store_seed.sh <id> : copy a verified seed from /tmp/wt/<id>/_seed to /verif/seeded/<id>
w=$1; d=/verif/seeded/$w; mkdir -p $d
cp /tmp/wt/$w/_seed/README.md $d/ 2>/dev/null
rsync -a --exclude gen --exclude scratch --exclude plain --exclude out --exclude '*.txt' --exclude 'go.sum' /tmp/wt/$w/_seed/demo $d/ 2>/dev/null
(cd /tmp/wt/$w && git diff -- . ':(exclude)_seed' ':(exclude)go.work.sum' > $d/patch.diff)
du -sh $d | cut -f1

package main

// Stage-2 part of a native replay: the source emitted by the REAL generator (written by the
// native harness run) is compiled with the real libraries and the concrete documents are
// decoded by the real generated code; observed outcomes are fed back into a second native
// run of the harness.

import (
	"bytes"
	"encoding/json"
	"fmt"
	"os"
	"os/exec"
	"path/filepath"
	"regexp"
	"sort"
	"strconv"
	"strings"

	"gosym/interp"
)

var pkgClauseRE = regexp.MustCompile(`(?m)^package\s+(\w+)`)

func writeDocs(rp *Replay) {
	if rp.Path == nil {
		return
	}
	docs := map[int]bool{}
	for _, n := range rp.Path.Docs {
		docs[n.Doc] = true
	}
	grid := 0
	if g, ok := rp.Params["GRID"]; ok && g >= 0 {
		grid = g
	}
	for d := range docs {
		txt, err := interp.BuildDocJSON(rp.Path.Docs, d, rp.Model, grid)
		if err != nil {
			txt = "null"
		}
		_ = os.WriteFile(filepath.Join(rp.Dir, fmt.Sprintf("doc_%d.json", d)), []byte(txt+"\n"), 0o644)
	}
}

// stage2Observe compiles and runs what pass A left in rp.Dir; returns false if there was
// nothing to do.
func stage2Observe(rp *Replay) (bool, string) {
	did := stage2ObserveMany([]*Replay{rp})
	return did[0], ""
}

// stage2ObserveMany compiles and runs what pass A left in the replay directories, all in
// one scratch module (one `go build` per emitted package, one `go run` for all requests).
func stage2ObserveMany(rps []*Replay) []bool {
	did := make([]bool, len(rps))
	any := false
	for i, rp := range rps {
		srcs, _ := filepath.Glob(filepath.Join(rp.Dir, "s2_*.go.txt"))
		did[i] = len(srcs) > 0
		any = any || did[i]
	}
	if !any {
		return did
	}
	scratch, err := os.MkdirTemp("", "gosym-s2-")
	if err != nil {
		return make([]bool, len(rps))
	}
	defer os.RemoveAll(scratch)
	gomod := "module zzreplay\n\ngo 1.23\n\nrequire (\n\tgithub.com/atombender/go-jsonschema v0.0.0\n\tgithub.com/go-viper/mapstructure/v2 v2.1.0\n\tgopkg.in/yaml.v3 v3.0.1\n)\n\nreplace github.com/atombender/go-jsonschema => " + repoDir + "\n"
	_ = os.WriteFile(filepath.Join(scratch, "go.mod"), []byte(gomod), 0o644)
	if b, err := os.ReadFile(filepath.Join(engineDir, "go.sum")); err == nil {
		_ = os.WriteFile(filepath.Join(scratch, "go.sum"), b, 0o644)
	}
	type s2 struct {
		ri, h   int
		imp     string
		alias   string
		ok      bool
	}
	type req struct {
		RI, K, H, Doc int
		Typ, Format   string
	}
	var pkgs []*s2
	var rs []req
	s2ok := make([]map[string]bool, len(rps))
	s2err := make([]map[string]string, len(rps))
	logs := make([]bytes.Buffer, len(rps))
	explicit := false
	for i, rp := range rps {
		s2ok[i], s2err[i] = map[string]bool{}, map[string]string{}
		if !did[i] {
			continue
		}
		srcs, _ := filepath.Glob(filepath.Join(rp.Dir, "s2_*.go.txt"))
		sort.Strings(srcs)
		for _, f := range srcs {
			var h int
			fmt.Sscanf(filepath.Base(f), "s2_%d.go.txt", &h)
			src, _ := os.ReadFile(f)
			imp := fmt.Sprintf("zzreplay/r%dg%d", i, h)
			if pb, err := os.ReadFile(filepath.Join(rp.Dir, fmt.Sprintf("s2_%d.path", h))); err == nil && strings.HasPrefix(string(pb), "zzreplay/") {
				imp = string(pb)
				explicit = true
			}
			dir := filepath.Join(scratch, strings.TrimPrefix(imp, "zzreplay/"))
			_ = os.MkdirAll(dir, 0o755)
			_ = os.WriteFile(filepath.Join(dir, fmt.Sprintf("gen_%d.go", h)), src, 0o644)
			pkgs = append(pkgs, &s2{ri: i, h: h, imp: imp, alias: fmt.Sprintf("r%dg%d", i, h)})
		}
	}
	if explicit && len(rps) > 1 {
		// explicit import paths cannot be namespaced per replay: process one by one
		for i, rp := range rps {
			if did[i] {
				did[i], _ = stage2Observe(rp)
			}
		}
		return did
	}
	for _, p := range pkgs {
		cmd := exec.Command("go", "build", p.imp)
		cmd.Dir = scratch
		cmd.Env = goEnv()
		out, err := cmd.CombinedOutput()
		p.ok = err == nil
		s2ok[p.ri][strconv.Itoa(p.h)] = p.ok
		if !p.ok {
			s2err[p.ri][strconv.Itoa(p.h)] = strings.TrimSpace(strings.ReplaceAll(string(out), p.alias, "gen"+strconv.Itoa(p.h)))
			fmt.Fprintf(&logs[p.ri], "package %d does not build:\n%s\n", p.h, out)
		}
	}
	used := map[string]bool{}
	for i, rp := range rps {
		if !did[i] {
			continue
		}
		reqs, _ := filepath.Glob(filepath.Join(rp.Dir, "unm_*.json"))
		sort.Strings(reqs)
		for _, f := range reqs {
			r := req{RI: i}
			fmt.Sscanf(filepath.Base(f), "unm_%d.json", &r.K)
			b, _ := os.ReadFile(f)
			var m struct {
				H      int    `json:"h"`
				Typ    string `json:"typ"`
				Format string `json:"format"`
				Doc    int    `json:"doc"`
			}
			_ = json.Unmarshal(b, &m)
			r.H, r.Typ, r.Format, r.Doc = m.H, m.Typ, m.Format, m.Doc
			for _, p := range pkgs {
				if p.ri == i && p.h == r.H && p.ok {
					rs = append(rs, r)
					used[p.alias] = true
				}
			}
		}
	}
	var mainSrc bytes.Buffer
	mainSrc.WriteString("package main\n\nimport (\n\t\"encoding/json\"\n\t\"fmt\"\n\t\"os\"\n\t\"reflect\"\n\t\"strings\"\n\tyaml \"gopkg.in/yaml.v3\"\n")
	for _, p := range pkgs {
		if used[p.alias] {
			fmt.Fprintf(&mainSrc, "\t%s %q\n", p.alias, p.imp)
		}
	}
	mainSrc.WriteString(")\n\nvar _ = yaml.Unmarshal\nvar _ = json.Unmarshal\n\nfunc run(ri, k int, f func() (error, string)) {\n\tstatus, msg, val := 0, \"\", \"\"\n\tfunc() {\n\t\tdefer func() {\n\t\t\tif p := recover(); p != nil {\n\t\t\t\tstatus, msg = 2, fmt.Sprint(p)\n\t\t\t}\n\t\t}()\n\t\terr, v := f()\n\t\tval = v\n\t\tif err != nil {\n\t\t\tstatus, msg = 1, err.Error()\n\t\t}\n\t}()\n\tfmt.Printf(\"ZZS2 r=%d k=%d status=%d msg=%q value=%s\\n\", ri, k, status, msg, val)\n}\n\nfunc main() {\n")
	for _, r := range rs {
		docFile := filepath.Join(rps[r.RI].Dir, fmt.Sprintf("doc_%d.json", r.Doc))
		dec := "json.Unmarshal(doc, &v)"
		if r.Format == "yaml" {
			dec = "yaml.Unmarshal(doc, &v)"
		}
		fmt.Fprintf(&mainSrc, "\t{\n\t\tdoc, _ := os.ReadFile(%q)\n\t\trun(%d, %d, func() (error, string) {\n\t\t\tvar v r%dg%d.%s\n\t\t\terr := %s\n\t\t\tb, _ := json.Marshal(&v)\n\t\t\tif err == nil {\n\t\t\t\tvar in interface{}\n\t\t\t\tif json.Unmarshal(doc, &in) == nil {\n\t\t\t\t\tfmt.Printf(\"ZZMB r=%%d k=%%d keeps=%%v\\n\", %d, %d, zzKeeps(reflect.ValueOf(&v).Elem(), in, reflect.TypeOf(v).PkgPath()))\n\t\t\t\t}\n\t\t\t}\n\t\t\treturn err, string(b)\n\t\t})\n\t}\n", docFile, r.RI, r.K, r.RI, r.H, r.Typ, dec, r.RI, r.K)
	}
	mainSrc.WriteString("}\n")
	mainSrc.WriteString(zzKeepsSrc)
	_ = os.WriteFile(filepath.Join(scratch, "main.go"), mainSrc.Bytes(), 0o644)
	status := make([]map[string]int, len(rps))
	msgs := make([]map[string]string, len(rps))
	mbs := make([]map[string]bool, len(rps))
	for i := range rps {
		status[i], msgs[i], mbs[i] = map[string]int{}, map[string]string{}, map[string]bool{}
	}
	if len(rs) > 0 {
		cmd := exec.Command("go", "run", ".")
		cmd.Dir = scratch
		cmd.Env = goEnv()
		out, err := cmd.CombinedOutput()
		for _, line := range strings.Split(string(out), "\n") {
			if strings.HasPrefix(line, "ZZMB ") {
				var ri, k int
				var keeps bool
				if _, err := fmt.Sscanf(line, "ZZMB r=%d k=%d keeps=%t", &ri, &k, &keeps); err == nil && ri < len(rps) {
					logs[ri].WriteString(line + "\n")
					mbs[ri][strconv.Itoa(k)] = keeps
				}
				continue
			}
			if !strings.HasPrefix(line, "ZZS2 ") {
				if strings.TrimSpace(line) != "" {
					for i := range logs {
						if did[i] {
							logs[i].WriteString(line + "\n")
						}
					}
				}
				continue
			}
			var ri, k, st int
			if _, err := fmt.Sscanf(line, "ZZS2 r=%d k=%d status=%d", &ri, &k, &st); err == nil && ri < len(rps) {
				logs[ri].WriteString(line + "\n")
				status[ri][strconv.Itoa(k)] = st
				if a := strings.Index(line, " msg="); a >= 0 {
					rest := line[a+5:]
					if j := strings.LastIndex(rest, " value="); j >= 0 {
						if s, err := strconv.Unquote(rest[:j]); err == nil {
							msgs[ri][strconv.Itoa(k)] = s
						}
					}
				}
			}
		}
		if err != nil {
			for i := range logs {
				if did[i] {
					fmt.Fprintf(&logs[i], "\n(go run: %v)\n", err)
				}
			}
		}
	}
	for i, rp := range rps {
		if !did[i] {
			continue
		}
		obs := map[string]interface{}{"s2ok": s2ok[i], "s2err": s2err[i], "status": status[i], "msg": msgs[i], "marshalback": mbs[i]}
		ob, _ := json.MarshalIndent(obs, "", " ")
		_ = os.WriteFile(filepath.Join(rp.Dir, "observed.json"), ob, 0o644)
		_ = os.WriteFile(filepath.Join(rp.Dir, "stage2_output.txt"), logs[i].Bytes(), 0o644)
		_ = os.WriteFile(filepath.Join(rp.Dir, "stage2_main.go.txt"), mainSrc.Bytes(), 0o644)
	}
	return did
}

const zzKeepsSrc = `
// zzKeeps: native marshal-back oracle (mirror of the engine's marshalKeeps): json.Marshal(&v)
// reproduces every non-empty value of the input that the Go type declares.
func zzEmptyIn(in interface{}) bool {
	switch x := in.(type) {
	case nil:
		return true
	case float64:
		return x == 0
	case string:
		return x == ""
	case bool:
		return !x
	case []interface{}:
		return len(x) == 0
	case map[string]interface{}:
		return len(x) == 0
	}
	return false
}

func zzEmptyGo(v reflect.Value) bool {
	switch v.Kind() {
	case reflect.Array, reflect.Map, reflect.Slice, reflect.String:
		return v.Len() == 0
	case reflect.Bool:
		return !v.Bool()
	case reflect.Int, reflect.Int8, reflect.Int16, reflect.Int32, reflect.Int64:
		return v.Int() == 0
	case reflect.Uint, reflect.Uint8, reflect.Uint16, reflect.Uint32, reflect.Uint64, reflect.Uintptr:
		return v.Uint() == 0
	case reflect.Float32, reflect.Float64:
		return v.Float() == 0
	case reflect.Interface, reflect.Ptr:
		return v.IsNil()
	}
	return false
}

func zzKeeps(v reflect.Value, in interface{}, genPkg string) bool {
	if in == nil {
		return true
	}
	t := v.Type()
	if t.Kind() != reflect.Ptr && t.Name() != "" && t.PkgPath() != genPkg && t.PkgPath() != "" {
		return true // library type with its own text format: opaque
	}
	if v.CanAddr() && t.Kind() != reflect.Ptr {
		if m, ok := v.Addr().Interface().(json.Marshaler); ok {
			b, err := m.MarshalJSON()
			if err != nil {
				return false
			}
			var out interface{}
			if json.Unmarshal(b, &out) != nil {
				return false
			}
			return reflect.DeepEqual(out, in)
		}
	}
	switch t.Kind() {
	case reflect.Ptr:
		if v.IsNil() {
			return false
		}
		return zzKeeps(v.Elem(), in, genPkg)
	case reflect.Interface:
		if v.IsNil() {
			return false
		}
		b, err := json.Marshal(v.Interface())
		var out interface{}
		return err == nil && json.Unmarshal(b, &out) == nil && reflect.DeepEqual(out, in)
	case reflect.String:
		s, ok := in.(string)
		return ok && s == v.String()
	case reflect.Bool:
		b, ok := in.(bool)
		return ok && b == v.Bool()
	case reflect.Int, reflect.Int8, reflect.Int16, reflect.Int32, reflect.Int64:
		f, ok := in.(float64)
		return ok && f == float64(v.Int())
	case reflect.Uint, reflect.Uint8, reflect.Uint16, reflect.Uint32, reflect.Uint64:
		f, ok := in.(float64)
		return ok && f == float64(v.Uint())
	case reflect.Float32, reflect.Float64:
		f, ok := in.(float64)
		return ok && f == v.Float()
	case reflect.Slice:
		xs, ok := in.([]interface{})
		if !ok || v.IsNil() || len(xs) != v.Len() {
			return false
		}
		for k := range xs {
			if !zzKeeps(v.Index(k), xs[k], genPkg) {
				return false
			}
		}
		return true
	case reflect.Map:
		m, ok := in.(map[string]interface{})
		if !ok || v.IsNil() {
			return false
		}
		it := v.MapRange()
		for it.Next() {
			child, has := m[it.Key().String()]
			if !has {
				return false
			}
			e := reflect.New(t.Elem()).Elem()
			e.Set(it.Value())
			if !zzKeeps(e, child, genPkg) {
				return false
			}
		}
		return true
	case reflect.Struct:
		m, ok := in.(map[string]interface{})
		if !ok {
			return false
		}
		return zzStructKeeps(v, m, genPkg)
	}
	return true
}

func zzStructKeeps(v reflect.Value, m map[string]interface{}, genPkg string) bool {
	t := v.Type()
	for k := 0; k < t.NumField(); k++ {
		f := t.Field(k)
		tag := f.Tag.Get("json")
		if tag == "-" {
			continue
		}
		if f.Anonymous && tag == "" {
			fv := v.Field(k)
			if fv.Kind() == reflect.Ptr {
				if fv.IsNil() {
					continue
				}
				fv = fv.Elem()
			}
			if fv.Kind() == reflect.Struct {
				if !zzStructKeeps(fv, m, genPkg) {
					return false
				}
				continue
			}
		}
		if f.PkgPath != "" {
			continue
		}
		name, omit := f.Name, false
		if tag != "" {
			parts := strings.Split(tag, ",")
			if parts[0] != "" {
				name = parts[0]
			}
			for _, p := range parts[1:] {
				if p == "omitempty" {
					omit = true
				}
			}
		}
		child, has := m[name]
		if !has {
			continue
		}
		if omit && zzEmptyGo(v.Field(k)) {
			if !zzEmptyIn(child) {
				return false
			}
			continue
		}
		if !zzKeeps(v.Field(k), child, genPkg) {
			return false
		}
	}
	return true
}
`

func stage2ObserveOld(rp *Replay) (bool, string) {
	srcs, _ := filepath.Glob(filepath.Join(rp.Dir, "s2_*.go.txt"))
	if len(srcs) == 0 {
		return false, ""
	}
	scratch, err := os.MkdirTemp("", "gosym-s2-")
	if err != nil {
		return false, err.Error()
	}
	defer os.RemoveAll(scratch)
	gomod := "module zzreplay\n\ngo 1.23\n\nrequire (\n\tgithub.com/atombender/go-jsonschema v0.0.0\n\tgithub.com/go-viper/mapstructure/v2 v2.1.0\n\tgopkg.in/yaml.v3 v3.0.1\n)\n\nreplace github.com/atombender/go-jsonschema => " + repoDir + "\n"
	_ = os.WriteFile(filepath.Join(scratch, "go.mod"), []byte(gomod), 0o644)
	if b, err := os.ReadFile(filepath.Join(engineDir, "go.sum")); err == nil {
		_ = os.WriteFile(filepath.Join(scratch, "go.sum"), b, 0o644)
	}
	type s2 struct {
		h       int
		imp     string
		pkgName string
		ok      bool
	}
	var pkgs []*s2
	obs := map[string]interface{}{}
	s2ok, s2err := map[string]bool{}, map[string]string{}
	for _, f := range srcs {
		var h int
		fmt.Sscanf(filepath.Base(f), "s2_%d.go.txt", &h)
		src, _ := os.ReadFile(f)
		imp := fmt.Sprintf("zzreplay/gen%d", h)
		if pb, err := os.ReadFile(filepath.Join(rp.Dir, fmt.Sprintf("s2_%d.path", h))); err == nil && strings.HasPrefix(string(pb), "zzreplay/") {
			imp = string(pb)
		}
		dir := filepath.Join(scratch, strings.TrimPrefix(imp, "zzreplay/"))
		_ = os.MkdirAll(dir, 0o755)
		_ = os.WriteFile(filepath.Join(dir, fmt.Sprintf("gen_%d.go", h)), src, 0o644)
		p := &s2{h: h, imp: imp}
		if m := pkgClauseRE.FindSubmatch(src); m != nil {
			p.pkgName = string(m[1])
		}
		pkgs = append(pkgs, p)
	}
	sort.Slice(pkgs, func(i, j int) bool { return pkgs[i].h < pkgs[j].h })
	var log bytes.Buffer
	for _, p := range pkgs {
		cmd := exec.Command("go", "build", p.imp)
		cmd.Dir = scratch
		cmd.Env = goEnv()
		out, err := cmd.CombinedOutput()
		p.ok = err == nil
		s2ok[strconv.Itoa(p.h)] = p.ok
		if !p.ok {
			s2err[strconv.Itoa(p.h)] = strings.TrimSpace(string(out))
			fmt.Fprintf(&log, "package %d does not build:\n%s\n", p.h, out)
		}
		// gofmt/vet are not part of this step
	}
	obs["s2ok"], obs["s2err"] = s2ok, s2err
	// unmarshal requests
	reqs, _ := filepath.Glob(filepath.Join(rp.Dir, "unm_*.json"))
	sort.Strings(reqs)
	var mainSrc bytes.Buffer
	mainSrc.WriteString("package main\n\nimport (\n\t\"encoding/json\"\n\t\"fmt\"\n\t\"os\"\n\tyaml \"gopkg.in/yaml.v3\"\n")
	used := map[int]bool{}
	type req struct {
		K           int
		H, Doc      int
		Typ, Format string
	}
	var rs []req
	for _, f := range reqs {
		var r req
		fmt.Sscanf(filepath.Base(f), "unm_%d.json", &r.K)
		b, _ := os.ReadFile(f)
		var m struct {
			H      int    `json:"h"`
			Typ    string `json:"typ"`
			Format string `json:"format"`
			Doc    int    `json:"doc"`
		}
		_ = json.Unmarshal(b, &m)
		r.H, r.Typ, r.Format, r.Doc = m.H, m.Typ, m.Format, m.Doc
		ok := false
		for _, p := range pkgs {
			if p.h == r.H && p.ok {
				ok = true
			}
		}
		if ok {
			rs = append(rs, r)
			used[r.H] = true
		}
	}
	for _, p := range pkgs {
		if used[p.h] {
			fmt.Fprintf(&mainSrc, "\tg%d %q\n", p.h, p.imp)
		}
	}
	mainSrc.WriteString(")\n\nvar _ = yaml.Unmarshal\nvar _ = json.Unmarshal\n\nfunc run(k int, f func() (error, string)) {\n\tstatus, msg, val := 0, \"\", \"\"\n\tfunc() {\n\t\tdefer func() {\n\t\t\tif p := recover(); p != nil {\n\t\t\t\tstatus, msg = 2, fmt.Sprint(p)\n\t\t\t}\n\t\t}()\n\t\terr, v := f()\n\t\tval = v\n\t\tif err != nil {\n\t\t\tstatus, msg = 1, err.Error()\n\t\t}\n\t}()\n\tfmt.Printf(\"ZZS2 k=%d status=%d msg=%q value=%s\\n\", k, status, msg, val)\n}\n\nfunc main() {\n")
	for _, r := range rs {
		docFile := filepath.Join(rp.Dir, fmt.Sprintf("doc_%d.json", r.Doc))
		dec := "json.Unmarshal(doc, &v)"
		if r.Format == "yaml" {
			dec = "yaml.Unmarshal(doc, &v)"
		}
		fmt.Fprintf(&mainSrc, "\t{\n\t\tdoc, _ := os.ReadFile(%q)\n\t\trun(%d, func() (error, string) {\n\t\t\tvar v g%d.%s\n\t\t\terr := %s\n\t\t\tb, _ := json.Marshal(&v)\n\t\t\treturn err, string(b)\n\t\t})\n\t}\n", docFile, r.K, r.H, r.Typ, dec)
	}
	mainSrc.WriteString("}\n")
	_ = os.WriteFile(filepath.Join(scratch, "main.go"), mainSrc.Bytes(), 0o644)
	status, msgs := map[string]int{}, map[string]string{}
	if len(rs) > 0 {
		cmd := exec.Command("go", "run", ".")
		cmd.Dir = scratch
		cmd.Env = goEnv()
		out, err := cmd.CombinedOutput()
		log.Write(out)
		if err != nil {
			fmt.Fprintf(&log, "\n(go run: %v)\n", err)
		}
		for _, line := range strings.Split(string(out), "\n") {
			if !strings.HasPrefix(line, "ZZS2 ") {
				continue
			}
			var k, st int
			if _, err := fmt.Sscanf(line, "ZZS2 k=%d status=%d", &k, &st); err == nil {
				status[strconv.Itoa(k)] = st
				if i := strings.Index(line, " msg="); i >= 0 {
					rest := line[i+5:]
					if j := strings.LastIndex(rest, " value="); j >= 0 {
						if s, err := strconv.Unquote(rest[:j]); err == nil {
							msgs[strconv.Itoa(k)] = s
						}
					}
				}
			}
		}
	}
	obs["status"], obs["msg"] = status, msgs
	ob, _ := json.MarshalIndent(obs, "", " ")
	_ = os.WriteFile(filepath.Join(rp.Dir, "observed.json"), ob, 0o644)
	_ = os.WriteFile(filepath.Join(rp.Dir, "stage2_output.txt"), log.Bytes(), 0o644)
	_ = os.WriteFile(filepath.Join(rp.Dir, "stage2_main.go.txt"), mainSrc.Bytes(), 0o644)
	return true, log.String()
}

// runReplaysFull: batched pass A, stage-2 observation and pass A' for replays of harnesses of
// one package.
func runReplaysFull(rps []*Replay) []ReplayResult {
	for _, rp := range rps {
		_ = os.Remove(filepath.Join(rp.Dir, "observed.json"))
		for _, pat := range []string{"s2_*", "unm_*"} {
			old, _ := filepath.Glob(filepath.Join(rp.Dir, pat))
			for _, f := range old {
				_ = os.Remove(f)
			}
		}
		writeDocs(rp)
	}
	resA := runReplays(rps)
	did := stage2ObserveMany(rps)
	any := false
	for _, d := range did {
		any = any || d
	}
	if !any {
		return resA
	}
	resB := runReplays(rps)
	for i, rp := range rps {
		if !did[i] {
			resB[i] = resA[i]
			continue
		}
		if ob, err := os.ReadFile(filepath.Join(rp.Dir, "observed.json")); err == nil {
			var o struct {
				S2OK map[string]bool `json:"s2ok"`
			}
			if json.Unmarshal(ob, &o) == nil {
				for _, v := range o.S2OK {
					if !v {
						resB[i].CompileFailed = true
					}
				}
			}
		}
		resB[i].Output = "--- pass A (recorded outcomes) ---\n" + resA[i].Output + "\n--- pass A' (observed outcomes of the real generated code) ---\n" + resB[i].Output
		_ = os.WriteFile(filepath.Join(rp.Dir, "output.txt"), []byte(resB[i].Output+"\n"+resB[i].Detail+"\n"), 0o644)
	}
	return resB
}

// runReplayFull: pass A, stage-2 observation, pass A'.
func runReplayFull(rp *Replay) ReplayResult {
	_ = os.Remove(filepath.Join(rp.Dir, "observed.json"))
	for _, pat := range []string{"s2_*", "unm_*"} {
		old, _ := filepath.Glob(filepath.Join(rp.Dir, pat))
		for _, f := range old {
			_ = os.Remove(f)
		}
	}
	writeDocs(rp)
	res := runReplay(rp)
	if !res.Ran && !res.Panicked {
		return res
	}
	did, _ := stage2Observe(rp)
	if !did {
		return res
	}
	compileFailed := false
	if ob, err := os.ReadFile(filepath.Join(rp.Dir, "observed.json")); err == nil {
		var o struct {
			S2OK map[string]bool `json:"s2ok"`
		}
		if json.Unmarshal(ob, &o) == nil {
			for _, v := range o.S2OK {
				if !v {
					compileFailed = true
				}
			}
		}
	}
	res2 := runReplay(rp)
	res2.CompileFailed = compileFailed
	res2.Output = "--- pass A (recorded outcomes) ---\n" + res.Output + "\n--- pass A' (observed outcomes of the real generated code) ---\n" + res2.Output
	_ = os.WriteFile(filepath.Join(rp.Dir, "output.txt"), []byte(res2.Output+"\n"+res2.Detail+"\n"), 0o644)
	return res2
}

package main

import (
	"encoding/json"
	"fmt"
	"os"
	"path/filepath"
	"sort"
	"strings"
	"time"

	"gosym/interp"
)

type UnitEvidence struct {
	Name      string            `json:"name"`
	Harness   string            `json:"harness"`
	Layer     string            `json:"layer"`
	Decides   string            `json:"solver_decides"`
	Bounds    string            `json:"bounds"`
	Params    map[string]int    `json:"params,omitempty"`
	Paths     int               `json:"paths"`
	Forks     int               `json:"forks"`
	Outcomes  map[string]int    `json:"path_outcomes"`
	Checks    map[string]map[string]int `json:"checks"`
	Covers    map[string]int    `json:"cover_classes_reached"`
	Queries   int               `json:"queries"`
	Sat       int               `json:"sat"`
	Unsat     int               `json:"unsat"`
	Unknown   int               `json:"unknown"`
	SolverErr int               `json:"solver_errors"`
	SolverS   float64           `json:"solver_s"`
	MaxQueryS float64           `json:"max_query_s"`
	WallS     float64           `json:"wall_s"`
	Uncovered []string          `json:"uncovered,omitempty"`
	Spurious  int               `json:"spurious_models"`
	Violations []map[string]interface{} `json:"violations,omitempty"`
	Known     []map[string]interface{} `json:"known_findings_seen,omitempty"`
	uncSet    map[string]bool
}

type Evidence struct {
	PropertyID string   `json:"property_id"`
	Tier       string   `json:"tier"`
	Seed       int      `json:"seed"`
	Level      string   `json:"level"`
	Coverage   Coverage `json:"coverage"`
	Assumptions []string `json:"assumptions"`
	WallS      float64  `json:"wall_s"`
	Violations int      `json:"violations"`

	Technique  string  `json:"technique"`
	Units      []*UnitEvidence `json:"units"`
	Functions  []FuncCount `json:"functions_encoded"`
	Instrs     int64   `json:"ssa_instructions_interpreted"`
	Queries    QueryStats `json:"queries"`
	ChecksPassed int   `json:"checks_discharged_unsat_or_concrete"`
	Replays    int     `json:"native_replays"`
	ReplaysReproduced int `json:"native_replays_reproduced"`
	TwinsRun   int     `json:"native_twins_run"`
	TwinsAgree int     `json:"native_twins_agree"`
	LoadS      float64 `json:"load_and_ssa_build_s"`
	Solver     string  `json:"solver"`
	RepoHead   string  `json:"repo_head,omitempty"`
}

type QueryStats struct {
	Total   int     `json:"total"`
	Sat     int     `json:"sat"`
	Unsat   int     `json:"unsat"`
	Unknown int     `json:"unknown"`
	Errors  int     `json:"errors"`
	SolverS float64 `json:"solver_s"`
	MaxS    float64 `json:"max_query_s"`
}

type FuncCount struct {
	Func  string `json:"func"`
	Calls int    `json:"calls"`
}

type Coverage struct {
	States      int           `json:"states"`
	Transitions int           `json:"transitions"`
	Traces      int           `json:"traces_validated_against_impl"`
	Samples     []interface{} `json:"samples"`
	Evaluations int           `json:"evaluations"`
	Distinct    int           `json:"distinct_nontrivial"`
	Rule        string        `json:"rule"`
	Explanation string        `json:"explanation"`
	Exhaustive  bool          `json:"exhaustive"`
	Uncovered   []string      `json:"uncovered,omitempty"`
}

func newEvidence(id, tier string, seed int) *Evidence {
	return &Evidence{PropertyID: id, Tier: tier, Seed: seed, Level: "model_checking",
		Technique: "symbolic execution of go/ssa built from /repo's working tree (gosym), SMT queries to z3 4.8.12 over all values within the stated bounds; counterexamples replayed natively",
		Solver:    "z3 4.8.12 (persistent `z3 -in`, one per worker; (reset) per query; no set-logic)"}
}

func (ev *Evidence) addUnit(u Unit, params map[string]int, pool *interp.Pool, st interp.SolverStats, wall time.Duration) *UnitEvidence {
	ue := &UnitEvidence{Name: u.Name, Harness: u.Harness, Layer: u.Layer, Decides: u.Desc, Bounds: u.Bounds, Params: params,
		Outcomes: map[string]int{}, Checks: map[string]map[string]int{}, Covers: map[string]int{}, uncSet: map[string]bool{}}
	ue.Paths = len(pool.Results)
	for _, r := range pool.Results {
		ue.Forks += r.Forks
		ue.Outcomes[r.Outcome]++
		for _, c := range r.Covers {
			ue.Covers[c]++
		}
		for _, c := range r.Checks {
			mm := ue.Checks[c.ID]
			if mm == nil {
				mm = map[string]int{}
				ue.Checks[c.ID] = mm
			}
			k := c.Status
			if c.Dev != "" {
				k += ":" + c.Dev
			}
			mm[k]++
			if c.Status == "pass" {
				ev.ChecksPassed++
			}
		}
	}
	ue.Queries, ue.Sat, ue.Unsat, ue.Unknown, ue.SolverErr = st.Queries, st.Sat, st.Unsat, st.Unknown, st.Errors
	ue.SolverS, ue.MaxQueryS, ue.WallS = st.Wall.Seconds(), st.MaxQuery.Seconds(), wall.Seconds()
	ev.Queries.Total += st.Queries
	ev.Queries.Sat += st.Sat
	ev.Queries.Unsat += st.Unsat
	ev.Queries.Unknown += st.Unknown
	ev.Queries.Errors += st.Errors
	ev.Queries.SolverS += st.Wall.Seconds()
	if st.MaxQuery.Seconds() > ev.Queries.MaxS {
		ev.Queries.MaxS = st.MaxQuery.Seconds()
	}
	if st.Errors > 0 {
		ue.uncovered(fmt.Sprintf("%d solver errors (treated as inconclusive): %s", st.Errors, firstLine(interp.LastSolverError)))
	}
	if st.Unknown > 0 {
		ue.uncovered(fmt.Sprintf("%d solver queries returned unknown/timeout (both branches kept)", st.Unknown))
	}
	ev.Coverage.States += ue.Paths
	ev.Coverage.Transitions += ue.Forks
	// samples: a few explored paths written out
	n := 0
	for _, r := range pool.Results {
		if r.Outcome != "ok" || len(r.Checks) == 0 {
			continue
		}
		if n >= 3 {
			break
		}
		s := map[string]interface{}{"unit": u.Name, "decision_script": r.Script, "notes": r.Notes, "covers": r.Covers,
			"path_condition_conjuncts": len(r.PC)}
		var cs []string
		for _, c := range r.Checks {
			cs = append(cs, c.ID+"="+c.Status)
		}
		s["checks"] = cs
		if len(r.PC) > 0 {
			s["path_condition_excerpt"] = r.PC[:min(3, len(r.PC))]
		}
		ev.Coverage.Samples = append(ev.Coverage.Samples, s)
		n++
	}
	ev.Units = append(ev.Units, ue)
	return ue
}

func firstLine(s string) string {
	if i := strings.Index(s, "\n"); i >= 0 {
		return s[:i]
	}
	return s
}

func (ue *UnitEvidence) uncovered(msg string) {
	if len(msg) > 400 {
		msg = msg[:400] + "…"
	}
	if !ue.uncSet[msg] {
		ue.uncSet[msg] = true
		ue.Uncovered = append(ue.Uncovered, msg)
	}
}

func (ue *UnitEvidence) violation(k caseKey, n int, dir, msg string) {
	ue.Violations = append(ue.Violations, map[string]interface{}{"check": k.check, "kind": k.status, "deviation": k.dev, "paths": n, "replay": dir, "msg": msg})
}

func (ue *UnitEvidence) known(k caseKey, n int, dir string) {
	ue.Known = append(ue.Known, map[string]interface{}{"check": k.check, "deviation": k.dev, "paths": n, "replay": dir})
}

func (ev *Evidence) finish(m *interp.Machine, prop *Property, wall time.Duration) {
	ev.WallS = wall.Seconds()
	ev.Assumptions = append([]string{}, prop.Assumptions...)
	ev.Assumptions = append(ev.Assumptions,
		"the SSA interpreter (adapted golang.org/x/tools/go/ssa/interp) and the bridges for external functions are faithful (validated by native replays/twins on every run)",
		"z3's answers are correct; any (error line or unknown is counted as not covered, never as success")
	var fns []FuncCount
	for f, c := range m.FuncsExecuted {
		if strings.Contains(f, interp.RepoModule) && !strings.Contains(f, "zzvrt") {
			fns = append(fns, FuncCount{strings.ReplaceAll(f, interp.RepoModule+"/", ""), c})
		}
	}
	sort.Slice(fns, func(i, j int) bool { return fns[i].Calls > fns[j].Calls || (fns[i].Calls == fns[j].Calls && fns[i].Func < fns[j].Func) })
	if len(fns) > 60 {
		fns = fns[:60]
	}
	ev.Functions = fns
	ev.Instrs = m.Instrs
	ev.Coverage.Traces = ev.Replays + ev.TwinsRun
	ev.Coverage.Evaluations = ev.Coverage.States
	classes := 0
	for _, u := range ev.Units {
		classes += len(u.Covers)
		for _, msg := range u.Uncovered {
			ev.Coverage.Uncovered = append(ev.Coverage.Uncovered, u.Name+": "+msg)
		}
	}
	ev.Coverage.Distinct = classes
	ev.Coverage.Rule = "one evaluation = one feasible path of a harness through the real code (a region of the bounded input space, decided for all its values by SMT queries); distinct_nontrivial = number of distinct Cover classes (shape classes in which the code under test was actually exercised and the property assertion reached with a satisfiable path condition)"
	ev.Coverage.Explanation = "bounded symbolic model checking of the implementation's SSA: states = explored paths, transitions = forks (solver-decided branches and free harness choices); each check is an SMT validity query over every value on the path"
	ev.Coverage.Exhaustive = len(ev.Coverage.Uncovered) == 0
	if ev.Coverage.Samples == nil {
		ev.Coverage.Samples = []interface{}{"no path reached a check"}
	}
}

func (ev *Evidence) write() error {
	dir := filepath.Join(verifDir, "evidence")
	if d := os.Getenv("GOSYM_EVIDENCE_DIR"); d != "" {
		dir = d // development runs (seeded changes, race builds) must not touch the committed evidence
	} else if os.Getenv("GOSYM_UNITS") != "" {
		dir = "/tmp/.evidence.partial" // a partial run never describes the registered check
	}
	if err := os.MkdirAll(dir, 0o755); err != nil {
		return err
	}
	b, err := json.MarshalIndent(ev, "", " ")
	if err != nil {
		return err
	}
	return os.WriteFile(filepath.Join(dir, ev.PropertyID+".json"), append(b, '\n'), 0o644)
}

package main

import (
	"encoding/json"
	"fmt"
	"os"
	"time"

	"gosym/interp"
)

func main() {
	m, err := interp.Load("/verif/engine", "/repo", "/verif/harness")
	if err != nil {
		fmt.Println(err)
		os.Exit(2)
	}
	fmt.Println("load", m.LoadTime)
	t0 := time.Now()
	pool, st, err := m.Explore(os.Args[1], interp.ExploreOpts{Workers: 16})
	if err != nil {
		fmt.Println(err)
		os.Exit(2)
	}
	fmt.Printf("paths=%d wall=%v solver=%+v\n", len(pool.Results), time.Since(t0), st)
	out := map[string]int{}
	for _, r := range pool.Results {
		out[r.Outcome]++
		if r.Outcome != "ok" {
			fmt.Println(r.Outcome, r.Msg, r.Stack)
		}
		for _, c := range r.Checks {
			out[c.ID+":"+c.Status+":"+c.Dev]++
			if c.Status == "violated" || c.Status == "unknown" {
				b, _ := json.Marshal(c)
				fmt.Println(string(b))
			}
		}
	}
	fmt.Println(out)
}

// gosym: solver-based checking of go-jsonschema (see /verif/DESIGN.md).
//
//	gosym check <PROPERTY> [--tier quick|thorough]
//	gosym replay <dir>
//	gosym explore <pkgdir:Func> [k=v ...]      (debugging)
package main

import (
	"crypto/sha1"
	"encoding/json"
	"fmt"
	"os"
	"path/filepath"
	"sort"
	"strconv"
	"strings"
	"time"

	"gosym/interp"
)

const (
	verifDir   = "/verif"
	harnessDir = "/verif/harness"
)

// The registered commands always use /repo and /verif/engine.  For development only
// (trying the checks on a seeded change in a scratch worktree while /repo stays untouched),
// GOSYM_REPO_DIR names another checkout and GOSYM_ENGINE_DIR a copy of the engine module
// whose go.mod replaces go-jsonschema by that checkout; scripts/try_seed_wt.sh sets both.
var (
	engineDir = envOr("GOSYM_ENGINE_DIR", "/verif/engine")
	repoDir   = envOr("GOSYM_REPO_DIR", "/repo")
	replayDir = envOr("GOSYM_REPLAY_DIR", "/verif/replays")
)

func envOr(name, def string) string {
	if v := os.Getenv(name); v != "" {
		return v
	}
	return def
}

func main() {
	if len(os.Args) < 2 {
		usage()
	}
	switch os.Args[1] {
	case "check":
		os.Exit(cmdCheck(os.Args[2:]))
	case "replay":
		os.Exit(cmdReplay(os.Args[2:]))
	case "explore":
		os.Exit(cmdExplore(os.Args[2:]))
	case "list":
		var ids []string
		for id := range properties {
			ids = append(ids, id)
		}
		sort.Strings(ids)
		fmt.Println(strings.Join(ids, " "))
	default:
		usage()
	}
}

func usage() {
	fmt.Fprintln(os.Stderr, "usage: gosym check <PROP> [--tier quick|thorough] | replay <dir> | explore <pkgdir:Func>")
	os.Exit(2)
}

func harnessFunc(h string) string {
	parts := strings.SplitN(h, ":", 2)
	pkg := interp.RepoModule
	if parts[0] != "." && parts[0] != "" {
		pkg += "/" + parts[0]
	}
	return pkg + "." + parts[1]
}

func envInt(name string, def int) int {
	if v := os.Getenv(name); v != "" {
		if n, err := strconv.Atoi(v); err == nil {
			return n
		}
	}
	return def
}

func cmdExplore(args []string) int {
	if len(args) < 1 {
		usage()
	}
	m, err := interp.Load(engineDir, repoDir, harnessDir)
	if err != nil {
		fmt.Println(err)
		return 2
	}
	fmt.Println("load", m.LoadTime)
	params := map[string]int{}
	mapOrd := 0
	for _, kv := range args[1:] {
		p := strings.SplitN(kv, "=", 2)
		n, _ := strconv.Atoi(p[1])
		if p[0] == "MAPORD" {
			mapOrd = n
			continue
		}
		params[p[0]] = n
	}
	if mapOrd > 0 {
		m.MapOrderChoice, m.MapOrderMaxLen = true, mapOrd
	}
	t0 := time.Now()
	pool, st, err := m.Explore(harnessFunc(args[0]), interp.ExploreOpts{Workers: envInt("GOSYM_WORKERS", 16), Params: params, Solver: os.Getenv("GOSYM_SOLVER"),
		MaxPaths: envInt("GOSYM_MAXPATHS", 0)})
	if err != nil {
		fmt.Println(err)
		return 2
	}
	fmt.Printf("paths=%d wall=%v solver=%+v\n", len(pool.Results), time.Since(t0), st)
	out := map[string]int{}
	verbose := os.Getenv("GOSYM_VERBOSE") != ""
	for _, r := range pool.Results {
		out[r.Outcome]++
		if r.Outcome != "ok" && r.Outcome != "infeasible" {
			fmt.Println(r.Outcome, r.Msg, tail(r.Stack, 6), r.Notes)
		}
		for _, c := range r.Checks {
			out[c.ID+":"+c.Status+":"+c.Dev]++
			if c.Status == "violated" || c.Status == "unknown" || (verbose && c.Status == "deviation") {
				b, _ := json.Marshal(interp.ReadableModel(c.Model))
				fmt.Println(c.ID, c.Status, c.Dev, c.Note, r.Notes, string(b))
			}
		}
		if verbose {
			for k, v := range r.Emits {
				fmt.Printf("--- emit %s (script %v)\n%s\n", k, r.Script, v)
			}
		}
	}
	keys := make([]string, 0, len(out))
	for k := range out {
		keys = append(keys, k)
	}
	sort.Strings(keys)
	for _, k := range keys {
		fmt.Printf("  %-70s %d\n", k, out[k])
	}
	if interp.LastSolverError != "" {
		fmt.Println("last solver error:", interp.LastSolverError[:min(len(interp.LastSolverError), 2000)])
	}
	return 0
}

func tail(s []string, n int) []string {
	if len(s) > n {
		return s[len(s)-n:]
	}
	return s
}

// ---- known findings ----

type Finding struct {
	Property string          `json:"property"`
	ID       string          `json:"id"`     // deviation name
	Status   string          `json:"status"` // open | fixed
	What     string          `json:"what"`
	Commit   string          `json:"commit,omitempty"`
	Witness  json.RawMessage `json:"witness,omitempty"`
}

type FindingsFile struct {
	Findings []Finding `json:"findings"`
	Fixed    []string  `json:"fixed,omitempty"`
}

func loadFindings() FindingsFile {
	var f FindingsFile
	b, err := os.ReadFile(filepath.Join(verifDir, "known_findings.json"))
	if err == nil {
		_ = json.Unmarshal(b, &f)
	}
	return f
}

func (f FindingsFile) open(prop, dev string) *Finding {
	for i := range f.Findings {
		x := &f.Findings[i]
		if x.Property == prop && x.ID == dev && x.Status == "open" {
			return x
		}
	}
	return nil
}

// ---- check ----

type caseKey struct{ unit, check, dev, status string }

type caseRec struct {
	key   caseKey
	paths []*interp.PathResult
	idx   []int // index of the check within the path
}

func cmdCheck(args []string) int {
	if len(args) < 1 {
		usage()
	}
	id := args[0]
	tier := os.Getenv("VERIF_TIER")
	if tier == "" {
		tier = "quick"
	}
	for i := 1; i < len(args); i++ {
		if args[i] == "--tier" && i+1 < len(args) {
			tier = args[i+1]
			i++
		}
	}
	seed := envInt("VERIF_SEED", 0)
	prop := properties[id]
	if prop == nil {
		fmt.Fprintf(os.Stderr, "unknown property %s\n", id)
		return 2
	}
	t0 := time.Now()
	m, err := interp.Load(engineDir, repoDir, harnessDir)
	if err != nil {
		fmt.Println("ENGINE-ERROR: cannot load /repo with harness overlay:", err)
		return 2
	}
	findings := loadFindings()
	ev := newEvidence(id, tier, seed)
	ev.LoadS = m.LoadTime.Seconds()
	exit := 0
	violationLines := []string{}
	knownSeen := map[string]string{}
	workers := envInt("GOSYM_WORKERS", 16)

	for _, u := range prop.Units {
		if u.OnlyThorough && tier != "thorough" {
			continue
		}
		if f := os.Getenv("GOSYM_UNITS"); f != "" && !strings.Contains(u.Name, f) {
			continue // development only: a partial run (its evidence goes to a scratch directory)
		}
		params := u.Quick
		timeout := 10 * time.Second
		if tier == "thorough" {
			if u.Thor != nil {
				params = u.Thor
			}
			timeout = 60 * time.Second
		}
		m.MapOrderChoice, m.MapOrderMaxLen = u.MapOrd > 0, u.MapOrd
		tu := time.Now()
		pool, st, err := m.Explore(harnessFunc(u.Harness), interp.ExploreOpts{Workers: workers, Params: params, Timeout: timeout, MaxPaths: u.MaxPaths, Solver: os.Getenv("GOSYM_SOLVER")})
		if err != nil {
			fmt.Println("ENGINE-ERROR:", err)
			return 2
		}
		for _, r := range pool.Results {
			for _, c := range r.Checks {
				if c.Status != "pass" {
					r.Dirty = true
				}
			}
		}
		if u.Only != "" || len(u.OnlySuffix) > 0 {
			for _, r := range pool.Results {
				var keep []interp.CheckResult
				for _, c := range r.Checks {
					if u.owns(c.ID) {
						keep = append(keep, c)
					}
				}
				r.Checks = keep
			}
		}
		ue := ev.addUnit(u, params, pool, st, time.Since(tu))
		cases := map[caseKey]*caseRec{}
		var order []caseKey
		add := func(k caseKey, r *interp.PathResult, ci int) {
			c := cases[k]
			if c == nil {
				c = &caseRec{key: k}
				cases[k] = c
				order = append(order, k)
			}
			c.paths = append(c.paths, r)
			c.idx = append(c.idx, ci)
		}
		for _, r := range pool.Results {
			switch r.Outcome {
			case "unsupported", "bound":
				ue.uncovered(r.Outcome + ": " + r.Msg)
			case "panic", "exit":
				if u.Panic == "violation" {
					tag := ""
					for _, nt := range r.Notes {
						if strings.HasPrefix(nt, "known-if-panic=") {
							tag = nt
						}
					}
					if tag == "" {
						tag = r.Msg
					}
					add(caseKey{u.Name, "panic", tag, "panic"}, r, -1)
				} else {
					ue.uncovered("panic in code under test (reported by C18/C19 harnesses): " + r.Msg)
				}
			}
			for ci, c := range r.Checks {
				switch c.Status {
				case "violated":
					add(caseKey{u.Name, c.ID, "", "violated"}, r, ci)
				case "deviation":
					add(caseKey{u.Name, c.ID, c.Dev, "deviation"}, r, ci)
				case "unknown":
					ue.uncovered("solver inconclusive on " + c.ID + ": " + c.Note)
				}
			}
		}
		if u.SameEmits {
			type key struct{ cls, name string }
			first := map[key]*interp.PathResult{}
			reported := map[key]bool{}
			for _, r := range pool.Results {
				if r.Outcome != "ok" {
					continue
				}
				cls := ""
				if len(r.Covers) > 0 {
					cls = r.Covers[0]
				}
				for name, text := range r.Emits {
					k := key{cls, name}
					f := first[k]
					if f == nil {
						first[k] = r
						continue
					}
					if normEmit(f, f.Emits[name]) != normEmit(r, text) && !reported[k] {
						reported[k] = true
						// two schedules, two outputs: confirm natively
						for _, pr := range []*interp.PathResult{f, r} {
							if pr.PCModel == nil {
								if mdl, err := interp.SolveModel(os.Getenv("GOSYM_SOLVER"), pr.Decls, pr.PC, pr.Evals); err == nil {
									pr.PCModel = mdl
								}
							}
						}
						rp, err := makeReplay(m, id, u, r, -1)
						if err != nil {
							ue.uncovered("replay construction failed for schedule-dependent output: " + err.Error())
							continue
						}
						rp.Params = params
						_ = os.WriteFile(filepath.Join(rp.Dir, "schedule_A.txt"), []byte(fmt.Sprintf("script %v\n\n%s", f.Script, f.Emits[name])), 0o644)
						_ = os.WriteFile(filepath.Join(rp.Dir, "schedule_B.txt"), []byte(fmt.Sprintf("script %v\n\n%s", r.Script, text)), 0o644)
						distinct := map[string]bool{}
						{
							// the two paths may differ in a free choice (not only in a map order):
							// replay both natively, once each
							rpA, errA := makeReplay(m, id, u, f, -1)
							if errA == nil {
								rpA.Params = params
								for _, one := range []*Replay{rpA, rp} {
									res := runReplay(one)
									ev.Replays++
									if res.Ran {
										b, _ := os.ReadFile(filepath.Join(one.Dir, "emit_"+name+".txt"))
										distinct[string(b)] = true
									}
								}
							}
						}
						for run := 0; u.MapOrd > 0 && run < 30 && len(distinct) < 2; run++ {
							res := runReplay(rp)
							ev.Replays++
							if !res.Ran {
								break
							}
							b, _ := os.ReadFile(filepath.Join(rp.Dir, "emit_"+name+".txt"))
							distinct[string(b)] = true
						}
						if len(distinct) >= 2 {
							ev.ReplaysReproduced++
							violationLines = append(violationLines, fmt.Sprintf("VIOLATION property=%s replay=%s", id, rp.Dir))
							ue.violation(caseKey{u.Name, id + ".same-output-on-every-explored-order", "", "violated"}, 1, rp.Dir, "output "+name+" differs between two explored orders/schedules (reproduced natively)")
						} else {
							ue.uncovered("the engine found two map orders with different output " + name + " (" + rp.Dir + "), not reproduced natively in 30 runs")
						}
					}
				}
			}
			ue.Checks[id+".same-output-on-every-explored-order"] = map[string]int{"paths-compared": len(pool.Results), "classes": len(first)}
		}
		// native twins: sampled passing paths, concretised from a model of their path condition,
		// re-run natively (real generator, real emitted code, real libraries); every check
		// must hold natively too -- engine fidelity validation on every run (DESIGN §3.6)
		if nt := envInt("GOSYM_TWINS", map[string]int{"quick": 3, "thorough": 8}[tier]); nt > 0 && !u.SameEmits {
			var cand []*interp.PathResult
			for _, r := range pool.Results {
				if r.Outcome != "ok" || len(r.Checks) == 0 || r.Dirty {
					continue
				}
				clean := true
				for _, c := range r.Checks {
					if c.Status != "pass" {
						clean = false
					}
				}
				if clean {
					cand = append(cand, r)
				}
			}
			var twins []*Replay
			for j := 0; j < nt && len(cand) > 0; j++ {
				r := cand[(seed*7919+j*(len(cand)/nt+1))%len(cand)]
				mdl, err := interp.SolveModel(os.Getenv("GOSYM_SOLVER"), r.Decls, r.PC, r.Evals)
				if err != nil {
					continue
				}
				r.PCModel = mdl
				rp, err := makeReplay(m, id, u, r, -1)
				if err != nil {
					continue
				}
				rp.Check = "twin"
				rp.Params = params
				dup := false
				for _, t := range twins {
					if t.Dir == rp.Dir {
						dup = true
					}
				}
				if !dup {
					twins = append(twins, rp)
				}
			}
			if len(twins) > 0 {
				results := runReplaysFull(twins)
				for j, res := range results {
					ev.TwinsRun++
					okOwn := res.Ran && !res.Panicked && !res.Assume
					for _, c := range res.Checks {
						if u.owns(c.ID) && !c.OK {
							okOwn = false
						}
					}
					switch {
					case okOwn:
						ev.TwinsAgree++
						_ = os.RemoveAll(twins[j].Dir)
					case res.Assume:
						// the model did not satisfy a harness assumption natively: inconclusive twin
						ue.uncovered("native twin: a harness assumption failed natively for a model of the path condition (" + twins[j].Dir + ")")
					default:
						ue.uncovered("ENGINE-FIDELITY: native twin disagrees with the symbolic path (" + twins[j].Dir + "): " + lastLines(res.Output+res.Detail, 4))
					}
				}
			}
		}
		if pool.Dropped > 0 {
			ue.uncovered(fmt.Sprintf("path budget reached: %d queued prefixes not explored", pool.Dropped))
		}
		// replay representatives of every case
		for _, k := range order {
			c := cases[k]
			// representative choice: first path in script order, rotated by the seed
			pick := 0
			if len(c.paths) > 1 && seed != 0 {
				pick = seed % len(c.paths)
			}
			r, ci := c.paths[pick], c.idx[pick]
			rp, err := makeReplay(m, id, u, r, ci)
			if err != nil {
				ue.uncovered("replay construction failed for " + k.check + ": " + err.Error())
				continue
			}
			rp.Params = params
			res := runReplayFull(rp)
			ev.Replays++
			switch {
			case !res.Ran:
				ue.uncovered("native replay did not run for " + k.check + ": " + res.Detail)
				ue.Spurious++
			case k.status == "panic":
				if res.Panicked {
					ev.ReplaysReproduced++
					knownDev := ""
					for _, nt := range r.Notes {
						if strings.HasPrefix(nt, "known-if-panic=") {
							knownDev = strings.TrimPrefix(nt, "known-if-panic=")
						}
					}
					if f := findings.open(id, knownDev); knownDev != "" && f != nil {
						knownSeen[knownDev] = f.What
						ue.known(caseKey{u.Name, "panic", knownDev, "panic"}, len(c.paths), rp.Dir)
						continue
					}
					violationLines = append(violationLines, fmt.Sprintf("VIOLATION property=%s replay=%s", id, rp.Dir))
					ue.violation(k, len(c.paths), rp.Dir, r.Msg)
				} else {
					ue.Spurious++
					ue.uncovered("panic path did not reproduce natively (engine infidelity): " + r.Msg)
				}
			case res.CheckFailed(k.check) || (strings.HasSuffix(k.check, "literals-fit") && res.CompileFailed):
				ev.ReplaysReproduced++
				if strings.HasSuffix(k.check, "literals-fit") && res.CompileFailed && k.status == "deviation" {
					// the obligation "literal fits its context" is confirmed by the compiler itself
					if f := findings.open(id, k.dev); f != nil {
						knownSeen[k.dev] = f.What
						ue.known(k, len(c.paths), rp.Dir)
						continue
					}
				}
				if k.status == "deviation" && res.DevMatched(k.check, k.dev) {
					if f := findings.open(id, k.dev); f != nil {
						knownSeen[k.dev] = f.What
						ue.known(k, len(c.paths), rp.Dir)
						continue
					}
				}
				violationLines = append(violationLines, fmt.Sprintf("VIOLATION property=%s replay=%s", id, rp.Dir))
				ue.violation(k, len(c.paths), rp.Dir, "")
			default:
				ue.Spurious++
				ue.uncovered("solver model for " + k.check + " did not reproduce natively (SPURIOUS; encoding or stub error): " + rp.Dir)
			}
		}
	}
	ev.finish(m, prop, time.Since(t0))
	var devs []string
	for d := range knownSeen {
		devs = append(devs, d)
	}
	sort.Strings(devs)
	for _, d := range devs {
		fmt.Printf("KNOWN-FINDING: property=%s %s: %s\n", id, d, knownSeen[d])
	}
	for _, u := range ev.Units {
		for _, msg := range u.Uncovered {
			fmt.Printf("INCONCLUSIVE property=%s unit=%s %s\n", id, u.Name, msg)
		}
	}
	sort.Strings(violationLines)
	for _, l := range violationLines {
		fmt.Println(l)
		exit = 1
	}
	ev.Violations = len(violationLines)
	if err := ev.write(); err != nil {
		fmt.Println("ENGINE-ERROR: cannot write evidence:", err)
		return 2
	}
	fmt.Printf("%s tier=%s: %d paths, %d forks, %d checks discharged, %d queries (%d sat / %d unsat / %d unknown), solver %.1fs, wall %.1fs, violations=%d\n",
		id, tier, ev.Coverage.States, ev.Coverage.Transitions, ev.ChecksPassed, ev.Queries.Total, ev.Queries.Sat, ev.Queries.Unsat, ev.Queries.Unknown,
		ev.Queries.SolverS, time.Since(t0).Seconds(), ev.Violations)
	return exit
}

func hashOf(parts ...string) string {
	h := sha1.New()
	for _, p := range parts {
		h.Write([]byte(p))
		h.Write([]byte{0})
	}
	return fmt.Sprintf("%x", h.Sum(nil))[:12]
}

// normEmit replaces hole identifiers (numbered along each path) by their terms, so that
// emitted text can be compared across paths.
func normEmit(r *interp.PathResult, text string) string {
	for k := len(r.Holes) - 1; k >= 0; k-- {
		text = strings.ReplaceAll(text, r.Holes[k].Ident, "HOLE<"+r.Holes[k].Term+">")
	}
	return text
}

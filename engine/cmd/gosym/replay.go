package main

// Native replay: a solver model becomes a vector of concrete draws; the very same harness
// is compiled natively (zzvrt with real bodies) against the real code and re-run under
// `go test -overlay` from the engine module (never inside /repo).

import (
	"strconv"
	"bytes"
	"encoding/json"
	"fmt"
	"os"
	"os/exec"
	"path/filepath"
	"strings"
	"time"

	"gosym/interp"
)

type Replay struct {
	Dir     string
	Prop    string
	Unit    Unit
	Check   string
	Path    *interp.PathResult
	Model   map[string]string
	PkgDir  string // e.g. pkg/mathutils
	Func    string
	Draws   []map[string]interface{}
	Params  map[string]int
}

type ReplayResult struct {
	CompileFailed bool // stage 2: the real emitted source did not build
	Ran      bool
	Panicked bool
	Assume   bool
	Detail   string
	Checks   []replayCheck
	Output   string
}

type replayCheck struct {
	ID   string
	OK   bool
	Devs []string
}

func (r ReplayResult) CheckFailed(id string) bool {
	for _, c := range r.Checks {
		if c.ID == id && !c.OK {
			return true
		}
	}
	return false
}

func (r ReplayResult) AllOK() bool {
	for _, c := range r.Checks {
		if !c.OK {
			return false
		}
	}
	return r.Ran && !r.Panicked && !r.Assume
}

func (r ReplayResult) DevMatched(id, dev string) bool {
	for _, c := range r.Checks {
		if c.ID == id && !c.OK {
			for _, d := range c.Devs {
				if d == dev {
					return true
				}
			}
		}
	}
	return false
}

// concretise turns the recorded draws into concrete values under a model.
func concretise(draws []interp.Draw, model map[string]string) ([]map[string]interface{}, error) {
	var out []map[string]interface{}
	for _, d := range draws {
		e := map[string]interface{}{"kind": d.Kind, "n": d.N, "val": d.Val}
		if d.Const != "" {
			if d.Sort == "str" {
				e["str"] = d.Const
			} else {
				e["bits"] = d.Const
			}
		} else if d.Sort == "str" && d.Term == "" {
			e["str"] = ""
		}
		if d.Kind == "bytes" || d.Kind == "date" || d.Kind == "clock" {
			// comma-separated Int terms: bytes as hex, calendar fields as decimal numbers
			var vals []string
			var hexs strings.Builder
			if d.Term != "" {
				for _, tm := range strings.Split(d.Term, ",") {
					n := int64(0)
					if raw, ok := model[tm]; ok {
						if mv, err := interp.ParseModelValue(raw); err == nil {
							n = mv.I
						}
					} else if v, err := strconv.ParseInt(tm, 10, 64); err == nil {
						n = v
					}
					vals = append(vals, strconv.FormatInt(n, 10))
					fmt.Fprintf(&hexs, "%02x", byte(n))
				}
			}
			if d.Kind == "bytes" {
				e["str"] = hexs.String()
			} else {
				e["str"] = strings.Join(vals, ",")
			}
			out = append(out, e)
			continue
		}
		if d.Kind == "runestr" {
			var sb strings.Builder
			if d.Term != "" {
				for _, rt := range strings.Split(d.Term, ",") {
					k := 0
					if raw, ok := model["cls!"+rt]; ok {
						if mv, err := interp.ParseModelValue(raw); err == nil {
							k = int(mv.I)
						}
					}
					// a model value for the code point is used when it lies in the chosen class
					// (ASCII code points are tied to their class); otherwise the class witness
					w := interp.RuneWitness(k)
					if raw, ok := model[rt]; ok {
						if mv, err := interp.ParseModelValue(raw); err == nil && interp.RuneClassOf(rune(uint32(mv.U))) == k {
							w = rune(uint32(mv.U))
						}
					}
					sb.WriteRune(w)
				}
			}
			e["str"] = sb.String()
			out = append(out, e)
			continue
		}
		if d.Term != "" {
			bits := uint64(0)
			if raw, ok := model[d.Term]; ok {
				mv, err := interp.ParseModelValue(raw)
				if err != nil {
					return nil, err
				}
				switch mv.Kind {
				case "bool":
					if mv.B {
						bits = 1
					}
				case "bv":
					bits = mv.U
					// sign-extension is done by the native side from the draw kind
					if d.Kind == "rune" {
						bits = uint64(uint32(mv.U))
					}
				case "f64":
					bits = interp.Float64bits(mv.F)
				case "int":
					bits = uint64(mv.I)
					if (d.Kind == "f64" || d.Sort == "grid") && d.N > 0 {
						// exact-grid float: n / 2^g
						bits = interp.Float64bits(float64(mv.I) / float64(uint64(1)<<uint(d.N-1)))
					}
				}
			}
			e["bits"] = fmt.Sprint(bits)
			if d.Kind == "str" || d.Sort == "str" {
				e["str"] = interp.StringForModel(d.Term, model)
			}
		}
		out = append(out, e)
	}
	return out, nil
}

func makeReplay(m *interp.Machine, prop string, u Unit, r *interp.PathResult, ci int) (*Replay, error) {
	model := r.PCModel
	check := "panic"
	if ci >= 0 {
		model = r.Checks[ci].Model
		check = r.Checks[ci].ID
	}
	if model == nil {
		model = map[string]string{}
	}
	draws, err := concretise(r.Draws, model)
	if err != nil {
		return nil, err
	}
	parts := strings.SplitN(u.Harness, ":", 2)
	db, _ := json.MarshalIndent(draws, "", " ")
	h := hashOf(prop, u.Harness, check, string(db))
	dir := filepath.Join(replayDir, prop, h)
	if err := os.MkdirAll(dir, 0o755); err != nil {
		return nil, err
	}
	rp := &Replay{Dir: dir, Prop: prop, Unit: u, Check: check, Path: r, Model: model, PkgDir: parts[0], Func: parts[1], Draws: draws}
	if err := os.WriteFile(filepath.Join(dir, "draws.json"), db, 0o644); err != nil {
		return nil, err
	}
	meta := map[string]interface{}{
		"property": prop, "unit": u.Name, "harness": u.Harness, "check": check, "script": r.Script,
		"model": interp.ReadableModel(model), "notes": r.Notes, "outcome": r.Outcome, "msg": r.Msg, "stack": tail(r.Stack, 12),
		"how": "gosym replay " + dir + "   (re-runs the harness natively with these draws against /repo's current tree)",
	}
	if ci >= 0 {
		meta["status"] = r.Checks[ci].Status
		meta["deviation"] = r.Checks[ci].Dev
	}
	for _, nt := range r.Notes {
		if strings.HasPrefix(nt, "fields-read-by-generator=") {
			_ = os.WriteFile(filepath.Join(dir, "fields_read.txt"), []byte(strings.TrimPrefix(nt, "fields-read-by-generator=")), 0o644)
		}
	}
	mb, _ := json.MarshalIndent(meta, "", " ")
	if err := os.WriteFile(filepath.Join(dir, "meta.json"), mb, 0o644); err != nil {
		return nil, err
	}
	return rp, nil
}

func pkgName(pkgDir string) (string, error) {
	// read the package clause of any non-test file in the directory
	ents, err := os.ReadDir(filepath.Join(repoDir, pkgDir))
	if err != nil {
		return "", err
	}
	for _, e := range ents {
		if strings.HasSuffix(e.Name(), ".go") && !strings.HasSuffix(e.Name(), "_test.go") {
			b, err := os.ReadFile(filepath.Join(repoDir, pkgDir, e.Name()))
			if err != nil {
				continue
			}
			for _, l := range strings.Split(string(b), "\n") {
				if strings.HasPrefix(l, "package ") {
					return strings.Fields(l)[1], nil
				}
			}
		}
	}
	return "", fmt.Errorf("no package clause found in %s", pkgDir)
}

// nativeOverlay maps harness files (and the native zzvrt) into the repository tree.
func nativeOverlay(extra map[string]string) (map[string]string, error) {
	ov := map[string]string{}
	err := filepath.Walk(harnessDir, func(p string, info os.FileInfo, err error) error {
		if err != nil || info.IsDir() || !strings.HasSuffix(p, ".go") {
			return err
		}
		rel, _ := filepath.Rel(harnessDir, p)
		if strings.HasPrefix(rel, "_native/") {
			rel2 := strings.TrimPrefix(rel, "_native/")
			ov[filepath.Join(repoDir, filepath.Dir(rel2), "zz_verif_"+filepath.Base(rel2))] = p
			return nil
		}
		if strings.HasPrefix(rel, "_") || strings.Contains(rel, "/_") {
			return nil
		}
		if strings.HasPrefix(rel, "internal/zzvrt/") {
			return nil // replaced by the native edition
		}
		ov[filepath.Join(repoDir, filepath.Dir(rel), "zz_verif_"+filepath.Base(rel))] = p
		return nil
	})
	for k, v := range extra {
		ov[k] = v
	}
	return ov, err
}

func goEnv(extra ...string) []string {
	env := append(os.Environ(), "GOFLAGS=-mod=mod", "GOPROXY=off", "GOSUMDB=off", "GOTOOLCHAIN=local", "GOWORK=off")
	return append(env, extra...)
}

// runReplays runs several replays of harnesses of one package in a single `go test`.
func runReplays(rps []*Replay) []ReplayResult {
	res := make([]ReplayResult, len(rps))
	if len(rps) == 0 {
		return res
	}
	pkgDir := rps[0].PkgDir
	pn, err := pkgName(pkgDir)
	if err != nil {
		for i := range res {
			res[i].Detail = err.Error()
		}
		return res
	}
	scratch, err := os.MkdirTemp("", "gosym-replay-")
	if err != nil {
		for i := range res {
			res[i].Detail = err.Error()
		}
		return res
	}
	defer os.RemoveAll(scratch)
	funcs := map[string]bool{}
	var list bytes.Buffer
	for i, rp := range rps {
		funcs[rp.Func] = true
		fmt.Fprintf(&list, "%d|%s|%s|%s\n", i, rp.Func, filepath.Join(rp.Dir, "draws.json"), rp.Dir)
	}
	_ = os.WriteFile(filepath.Join(scratch, "list.txt"), list.Bytes(), 0o644)
	var tf bytes.Buffer
	fmt.Fprintf(&tf, "//go:build verif\n\npackage %s\n\nimport (\n\t\"testing\"\n\tzz \"%s\"\n)\n\nfunc TestZZReplay(t *testing.T) {\n\tzz.RunList(map[string]func(){\n", pn, interp.ZZ)
	for f := range funcs {
		fmt.Fprintf(&tf, "\t\t%q: %s,\n", f, f)
	}
	fmt.Fprintf(&tf, "\t})\n}\n")
	testFile := filepath.Join(scratch, "replay_test.go")
	_ = os.WriteFile(testFile, tf.Bytes(), 0o644)
	for _, rp := range rps {
		_ = os.WriteFile(filepath.Join(rp.Dir, "replay_test.go.txt"), tf.Bytes(), 0o644)
	}
	ov, err := nativeOverlay(map[string]string{filepath.Join(repoDir, pkgDir, "zz_verif_replay_test.go"): testFile})
	if err != nil {
		for i := range res {
			res[i].Detail = err.Error()
		}
		return res
	}
	ob, _ := json.Marshal(map[string]interface{}{"Replace": ov})
	ovFile := filepath.Join(scratch, "overlay.json")
	_ = os.WriteFile(ovFile, ob, 0o644)
	pkgPath := interp.RepoModule
	if pkgDir != "." && pkgDir != "" {
		pkgPath += "/" + pkgDir
	}
	cmd := exec.Command("go", "test", "-tags", "verif", "-vet=off", "-count=1", "-overlay", ovFile, "-run", "TestZZReplay$", "-v", "-timeout", "10m", pkgPath)
	cmd.Dir = engineDir
	env := []string{"ZZ_LIST=" + filepath.Join(scratch, "list.txt")}
	for k, v := range rps[0].Params {
		env = append(env, fmt.Sprintf("ZZ_PARAM_%s=%d", k, v))
	}
	cmd.Env = goEnv(env...)
	var outb bytes.Buffer
	cmd.Stdout, cmd.Stderr = &outb, &outb
	t0 := time.Now()
	err = cmd.Run()
	out := outb.String()
	_ = t0
	// split per replay
	cur := -1
	died := -1
	seenAny := false
	for _, line := range strings.Split(out, "\n") {
		line = strings.TrimSpace(line)
		if strings.HasPrefix(line, "ZZBEGIN ") {
			fmt.Sscanf(line, "ZZBEGIN %d", &cur)
			seenAny = true
			continue
		}
		if cur < 0 || cur >= len(res) {
			continue
		}
		r := &res[cur]
		r.Output += line + "\n"
		switch {
		case strings.HasPrefix(line, "ZZCHECK "):
			var c replayCheck
			for _, f := range strings.Fields(line)[1:] {
				kv := strings.SplitN(f, "=", 2)
				if len(kv) != 2 {
					continue
				}
				switch kv[0] {
				case "id":
					c.ID = kv[1]
				case "ok":
					c.OK = kv[1] == "true"
				case "devs":
					if kv[1] != "" {
						c.Devs = strings.Split(kv[1], ",")
					}
				}
			}
			r.Checks = append(r.Checks, c)
		case strings.HasPrefix(line, "ZZPANIC"):
			r.Panicked = true
			r.Ran = true
			r.Detail = line
		case strings.HasPrefix(line, "fatal error: stack overflow") || (strings.HasPrefix(line, "runtime: goroutine stack exceeds") && !r.Ran):
			// unbounded recursion in the code under test: the Go runtime kills the process (no
			// recover is possible); it is what a user of the tool sees as a crash
			r.Panicked = true
			r.Ran = true
			r.Detail = "ZZPANIC fatal error: stack overflow (unbounded recursion; native stack limit 64 MB)"
			died = cur
		case strings.HasPrefix(line, "ZZASSUME-FAILED"):
			r.Assume = true
			r.Ran = true
		case strings.HasPrefix(line, "ZZDONE"):
			r.Ran = true
		case strings.HasPrefix(line, "ZZERROR"):
			r.Detail = line
		}
	}
	if !seenAny {
		d := "native replay produced no output"
		if err != nil {
			d = "go test failed: " + lastLines(out, 15)
		}
		for i := range res {
			res[i].Detail = d
		}
	}
	for i, rp := range rps {
		_ = os.WriteFile(filepath.Join(rp.Dir, "output.txt"), []byte(res[i].Output+"\n"+res[i].Detail+"\n"), 0o644)
	}
	if died >= 0 && died+1 < len(rps) {
		// the process died at replay `died`: the rest of the batch gets a process of its own
		copy(res[died+1:], runReplays(rps[died+1:]))
	}
	return res
}

func lastLines(s string, n int) string {
	ls := strings.Split(strings.TrimSpace(s), "\n")
	if len(ls) > n {
		ls = ls[len(ls)-n:]
	}
	return strings.Join(ls, " | ")
}

func runReplay(rp *Replay) ReplayResult { return runReplays([]*Replay{rp})[0] }

// cmdReplay re-runs a stored replay directory.
func cmdReplay(args []string) int {
	if len(args) < 1 {
		usage()
	}
	dir, _ := filepath.Abs(args[0])
	mb, err := os.ReadFile(filepath.Join(dir, "meta.json"))
	if err != nil {
		fmt.Println(err)
		return 2
	}
	var meta struct {
		Property, Unit, Harness, Check string
	}
	if err := json.Unmarshal(mb, &meta); err != nil {
		fmt.Println(err)
		return 2
	}
	parts := strings.SplitN(meta.Harness, ":", 2)
	rp := &Replay{Dir: dir, Prop: meta.Property, Check: meta.Check, PkgDir: parts[0], Func: parts[1]}
	res := runReplayFull(rp)
	fmt.Print(res.Output)
	if !res.Ran {
		fmt.Println("replay did not run:", res.Detail)
		return 2
	}
	if res.Panicked || res.CheckFailed(meta.Check) {
		fmt.Printf("REPRODUCED property=%s check=%s\n", meta.Property, meta.Check)
		return 1
	}
	fmt.Println("not reproduced")
	return 0
}

package main

import "strings"

// Property table: which harnesses decide which property, with which bounds per tier.

type Unit struct {
	Name    string         // short name
	Harness string         // "<pkg dir under /repo>:<Func>", e.g. "pkg/mathutils:HarnessC05L1"
	Layer   string         // L1 | L2 | L3
	Desc    string         // what the solver decides
	Bounds  string         // stated bounds / outside the claim
	Quick   map[string]int // zzvrt.Param values in the quick tier
	Thor    map[string]int // ... thorough tier (nil = same as quick)
	Panic   string         // policy for panics of the code under test: "violation" | "inconclusive"
	MapOrd  int            // >0: range over maps is a schedule choice with K=MapOrd
	OnlyThorough bool
	MaxPaths     int
	Only         string // only checks whose id starts with this prefix belong to the property
	SameEmits    bool   // all explored paths of one Cover class must emit identical files (C12)
	OnlySuffix   []string // ... or whose id ends with one of these (a unit shared with another property)
}

// owns: the check id belongs to the property this unit is registered under.
func (u Unit) owns(id string) bool {
	if u.Only == "" && len(u.OnlySuffix) == 0 {
		return true
	}
	if u.Only != "" && strings.HasPrefix(id, u.Only) {
		return true
	}
	for _, sfx := range u.OnlySuffix {
		if strings.HasSuffix(id, sfx) {
			return true
		}
	}
	return false
}

// ---- shared L3 units (HarnessL3: whole generator on a symbolic schema + emitted code on a
// symbolic document); each property takes the units relevant to it and filters its own
// check ids.

func mergeParams(a, b map[string]int) map[string]int {
	out := map[string]int{}
	for k, v := range a {
		out[k] = v
	}
	for k, v := range b {
		out[k] = v
	}
	return out
}

var l3Base = map[string]int{"GRID": 2, "GRIDMAG": 36, "N": 2}

const l3Desc = "schemaGenerator.generateRootType + File.Generate + Sources (gofmt) executed symbolically on a root object whose property x is drawn from the shape grammar (inline or via $ref to a definition, required or optional, nullable or not) with symbolic constraint values; the emitted file is type-checked against the real dependency packages and its UnmarshalJSON executed symbolically on a symbolic document; the reference model's facet for this property is compared with the verdict on documents valid in every other facet"

const l3Bounds = "one property x (plus one member p for object kinds, items for array kinds); exact-grid numbers (n/4, |.| <= 2^36); limits 1..2^20; document arrays <= N elements, untyped values nested <= 1 array level; E=1 extra member; regions of recorded findings owned by other properties are excluded"

func l3Unit(name string, params map[string]int, only string, what string) Unit {
	q := mergeParams(l3Base, params)
	return Unit{Name: "generator+emitted-code/" + name, Harness: "pkg/generator:HarnessL3", Layer: "L3",
		Desc: l3Desc + " -- " + what, Bounds: l3Bounds, Quick: q, Thor: deeper(q), Panic: "inconclusive", Only: only}
}

// deeper: the thorough tier of a shape-grammar unit: two extra members per object/map, nullable
// type lists in either order, document arrays of up to 2 elements where the quick tier has 1.
func deeper(q map[string]int) map[string]int {
	t := mergeParams(q, map[string]int{"E": 2, "ORDER": 1})
	if _, nodoc := q["NODOC"]; !nodoc && q["N"] == 1 {
		t["N"] = 2 // (N=3 on the array shapes runs for hours: 2 is the registered bound)
	}
	return t
}

// collidingNamesUnit: definitions whose names normalise to one Go identifier (shared by C10,
// which owns "each reference means its own definition", and C03, which owns the type facet).
func collidingNamesUnit(only string) Unit {
	u := collidingNamesUnitFull(only)
	// each property runs the part of the unit it owns (C10 runs all of it)
	switch only {
	case "C03.", "C14.":
		u.Quick = mergeParams(u.Quick, map[string]int{"POOLKINDS": 3})
	case "C08.":
		u.Quick = mergeParams(u.Quick, map[string]int{"NESTED": 0})
	case "C04.":
		u.Quick = mergeParams(u.Quick, map[string]int{"NESTED": 2})
	}
	return u
}

func collidingNamesUnitFull(only string) Unit {
	return Unit{Name: "colliding-definition-names", Harness: "pkg/generator:HarnessC10Names", Layer: "L3", Only: only,
		Desc:   "three (thorough: four) definitions whose names normalise to ONE Go identifier (line-ref, lineRef, line_ref, LineRef), each integer, string, boolean or one of two string enums differing in one member, in every combination (equal schemas may share a declaration, different ones get suffixed names), one property per definition: the emitted root type accepts a symbolic document iff every member has the type of ITS definition; second mode: a definition whose name (OrderItem / order-item / orderItem) is the Go name that the INLINE nested type Order.item gets, with independent member kinds and required flags, referenced from a property and from array items",
		Bounds: "3 names x 5 kinds (125 assignments) quick, 4 names x 3 kinds (81) thorough; members absent/null/any JSON value",
		Quick:  map[string]int{"GRID": 2, "GRIDMAG": 36, "NAMES": 3, "N": 1}, Thor: map[string]int{"GRID": 2, "GRIDMAG": 36, "NAMES": 4, "POOLKINDS": 3, "N": 1},
		Panic:  "inconclusive"}
}

// siblingsUnit: same-named types that differ in ONE keyword (shared by C04-C10: the default is
// C09's, each rule keyword its own property's, "one type per distinct schema" is C10's).
func siblingsUnit(only string) Unit {
	return Unit{Name: "same-named-sibling-types", Harness: "pkg/generator:HarnessC09Siblings", Layer: "L3", Only: only,
		Desc:   "two object schemas of one shape that want the same Go type name (definition names normalising to one identifier; equal titles under --struct-name-from-title) and differ in exactly ONE keyword of their member: a default (integer, string, boolean; also equal defaults), minItems, minLength, minimum, required, or the enum list. The name de-duplication by schema equality (cmp.Equal with the options of pkg/cmputil, modelled as passed) must keep them apart: with the member absent each position holds its own default, and a symbolic document is accepted iff each position satisfies ITS schema",
		Bounds: "two positions, one member each, concrete keyword pairs, document arrays <= 2",
		Quick:  map[string]int{"GRID": 2, "GRIDMAG": 36, "N": 2},
		Panic:  "inconclusive"}
}

// parsedUnit: schemas given as JSON text, through the repository's own parser (shared by the
// rule-family properties and C13; each owns its check ids).
func parsedUnit(only string) Unit {
	return Unit{Name: "schema-text/parser-to-emitted-code", Harness: "pkg/generator:HarnessParsed", Layer: "L3", Only: only,
		Desc:   "five schema documents given as JSON TEXT in the spellings the parser has to normalise (mixed enums whose members print alike -- 1 and \"1\", true and \"true\", null and \"<nil>\" --, legacy id/definitions, type as string, one-element list and two-element list in both orders, 1.5e2 and 1.0 number spellings, a duplicated required name, draft-4 boolean exclusives, multipleOf, nested arrays/objects, typed enums with a default, a null-typed property, a typed map, both definition blocks in one document with one name in both): the text goes through the REAL Schema/Type/TypeList.UnmarshalJSON (encoding/json on concrete bytes, custom unmarshalers interpreted) into the generator; the emitted code runs on a symbolic document and its verdict is compared, facet by facet, with a reference model built by an INDEPENDENT walk over the generically decoded text",
		Bounds: "five concrete schema texts; documents with arrays <= 1 element, one extra member per map; regions of recorded findings (array items, nested limits, byte lengths, null for nullable objects) assumed away",
		Quick:  map[string]int{"GRID": 2, "GRIDMAG": 36, "N": 1}, Panic: "inconclusive"}
}

// l3UnitT: an L3 unit whose thorough tier uses other parameters than the quick tier.
func l3UnitT(name string, quick, thor map[string]int, only string, what string) Unit {
	u := l3Unit(name, quick, only, what)
	u.Thor = deeper(mergeParams(l3Base, thor))
	return u
}

var (
	l3Scalars = map[string]int{"KINDS": 15, "DEPTH": 0}
	l3Enums   = map[string]int{"KINDS": 8128, "DEPTH": 0, "ENUMTEXT": 1}
	l3Arrays  = map[string]int{"KINDS": 16, "DEPTH": 1, "ITEMKINDS": 3, "NUMSHAPES": 3, "STRSHAPES": 2}
	l3Objects = map[string]int{"KINDS": 32, "DEPTH": 1, "ITEMKINDS": 7, "NUMSHAPES": 3, "STRSHAPES": 2}
)

func l3All(only string) []Unit {
	return []Unit{
		l3Unit("scalars", l3Scalars, only, "string/number/integer/boolean properties with every constraint shape"),
		l3Unit("enums-any-formats-maps", l3Enums, only, "string/integer/mixed enums (typed and untyped), untyped properties, format-typed strings, typed maps (additionalProperties)"),
		l3Unit("arrays", l3Arrays, only, "arrays of constrained strings/numbers with minItems/maxItems"),
		l3Unit("nested-objects", l3Objects, only, "a nested object with one (required or optional, nullable or not) member"),
	}
}

type Property struct {
	ID          string
	Units       []Unit
	Assumptions []string
	Functions   []string // prefixes of function names to report as "encoded"
}

var properties = map[string]*Property{}

func reg(p *Property) { properties[p.ID] = p }

func init() {
	reg(&Property{
		ID: "C05",
		Units: []Unit{
			{Name: "normalize-bounds", Harness: "pkg/mathutils:HarnessC05L1", Layer: "L1",
				Desc:   "NormalizeBounds(minimum, maximum, exclusiveMinimum, exclusiveMaximum) denotes exactly the intersection of the stated bounds, for an arbitrary test value x: all 36 presence/kind combinations, all finite float64 bound values, both booleans",
				Bounds: "finite float64 values (no NaN/Inf: JSON cannot carry them); no loops, no unwinding",
				Panic:  "violation"},
			{Name: "numeric-validator", Harness: "pkg/generator:HarnessC05L2", Layer: "L2",
				Desc:   "numericValidator.generate/genBoundary/valueOf + jsonFormatter.generate emit UnmarshalJSON for `type T struct{X int|*int|float64|*float64}`; the emitted text (bounds as symbolic holes) is type-checked and executed symbolically on a symbolic document: accepted iff x satisfies every stated bound, value kept, receiver unchanged on error, literals fit their context",
				Bounds: "all presence/kind combinations of the four bounds x {int, float64} x {required, optional-nullable}; exact-grid mode: bounds n/4 with |b| <= 2^36, document numbers n/4 (float carriers) or integers (int carriers) with |x| <= 2^36, Go integers encoded as SMT Ints (no wrap-around can occur in the emitted comparisons); member x absent/null/number",
				Quick:  map[string]int{"GRID": 2, "GRIDMAG": 36},
				Panic:  "inconclusive"},
			{Name: "numeric-validator/float64-semantics", Harness: "pkg/generator:HarnessC05L2", Layer: "L2", OnlyThorough: true,
				Desc:   "same harness with IEEE float64 bounds (SMT FloatingPoint) and int64 bit-vector document integers compared exactly with the bounds",
				Bounds: "bound values any finite float64; document numbers any float64 / any int64; queries that time out (60 s) are reported as not covered",
				Panic:  "inconclusive"},
		},
		Assumptions: []string{"bound values are finite float64 (JSON numbers after parsing)"},
	})
	properties["C05"].Units = append(properties["C05"].Units,
		l3Unit("numbers", map[string]int{"KINDS": 6, "DEPTH": 0}, "C05.", "number/integer properties: 7 bound shapes x nullable x required x inline/$ref"),
		l3Unit("numbers/bound-keywords-through-the-parser", map[string]int{"KINDS": 6, "DEPTH": 0, "PARSEDBOUNDS": 1, "NULLABLE": 0, "REF": 0, "MARSHAL": 0}, "C05.", "the four bound keywords as a symbolic SCHEMA DOCUMENT (minimum/maximum absent or a number; exclusiveMinimum/exclusiveMaximum absent, a boolean or a number: all 36 presence/spelling mixtures, values symbolic) parsed by the real Type.UnmarshalJSON, then generator and emitted code on a symbolic document: accepted iff inside the intersection of the bounds AS WRITTEN in the schema document"),
		l3Unit("numbers-with-defaults", map[string]int{"KINDS": 6, "DEPTH": 0, "DEFAULTS": 1, "NONULL": 1, "NUMSHAPES": 4}, "C05.", "number/integer properties with a default that satisfies their own bounds: absent or null optional values are never bound-checked"),
		l3Unit("numbers-in-arrays-and-objects", map[string]int{"KINDS": 48, "DEPTH": 1, "ITEMKINDS": 6, "NUMSHAPES": 4}, "C05.", "numbers as array items and as members of a nested object"),
		l3UnitT("integers/min-sized", map[string]int{"KINDS": 4, "DEPTH": 0, "MINSIZED": 1, "NUMSHAPEMASK": 46, "REF": 0}, map[string]int{"KINDS": 4, "DEPTH": 0, "MINSIZED": 1}, "C05.", "integer properties with --min-sized-ints on and off (the option may narrow the Go type but the emitted bounds must still denote the stated interval)"),
		l3UnitT("numbers/bounds-with-many-digits", map[string]int{"KINDS": 2, "DEPTH": 0, "BOUNDCONST": 1, "NUMSHAPEMASK": 14, "N": 1, "GRID": 0}, map[string]int{"KINDS": 2, "DEPTH": 0, "BOUNDCONST": 1, "N": 1, "GRID": 0}, "C05.",
			"number properties whose stated bounds need many decimal digits or an exponent (0.1234564, 1e-7, -2.5e-6, 1e21, 123456789.125, 0.30000000000000004), the document value a symbolic float64 (IEEE semantics, no grid): the emitted comparison uses the stated bound to the last bit"),
		l3UnitT("multiple-of", map[string]int{"KINDS": 6, "DEPTH": 0, "NUMSHAPES": 2, "MULT": 6}, map[string]int{"KINDS": 6, "DEPTH": 0, "NUMSHAPES": 4, "MULT": 6}, "C05.",
			"number/integer properties with multipleOf 1, 0.5, 3, 2.5 or 300 (integral and fractional, alone or next to bounds) x nullable x required x inline/$ref: accepted iff the value is an exact multiple (remainders within the emitted 1e-10 tolerance carry no promise)"))
	reg(&Property{
		ID: "C06",
		Units: []Unit{
			{Name: "string-validator", Harness: "pkg/generator:HarnessC06L2", Layer: "L2",
				Desc:   "stringValidator.generate + jsonFormatter.generate emit UnmarshalJSON for `type T struct{X string|*string}`; symbolic minLength/maxLength (holes), optional pattern; the document string is an atom with arbitrary byte length, rune length and match outcome: accepted iff rune length within the limits and pattern matched; value kept; receiver unchanged on error",
				Bounds: "limits 1..2^20 or absent (0 = absent in the parsed representation); one pattern (^a) as an uninterpreted predicate (regex dialect outside the claim); strings: 0 <= runes <= bytes <= 4*runes, bytes < 2^20; member x absent/null/string",
				Panic:  "inconclusive"},
		},
		Assumptions: []string{"regexp.MatchString(p, s) is an uninterpreted predicate match_p(s) shared by the code and the reference model", "document strings are valid UTF-8"},
	})
	properties["C06"].Units = append(properties["C06"].Units,
		l3Unit("strings", map[string]int{"KINDS": 1, "DEPTH": 0, "PATTEXT": 1}, "C06.", "string properties: 8 constraint shapes x nullable x required x inline/$ref; the pattern is ^a or a text with format verbs (%d, %%) that must reach regexp.MatchString unchanged"),
		l3Unit("strings-with-an-unmapped-format", map[string]int{"KINDS": 1, "DEPTH": 0, "STRFMT": 1, "STRSHAPES": 3}, "C06.", "constrained strings that also carry a format the generator maps to no library type (email, uuid, hostname): the format is an annotation, the length and pattern rules still hold"),
		l3Unit("strings-with-defaults", map[string]int{"KINDS": 1, "DEPTH": 0, "DEFAULTS": 1, "NONULL": 1, "STRSHAPES": 8}, "C06.", "string properties with a default that satisfies their own constraints: an absent or null optional string is never checked (the default is, and it is valid)"),
		l3Unit("strings-in-arrays-and-objects", map[string]int{"KINDS": 48, "DEPTH": 1, "ITEMKINDS": 1, "STRSHAPES": 3}, "C06.", "strings as array items and as members of a nested object"))
	reg(&Property{
		ID: "C07",
		Units: []Unit{
			{Name: "array-validator/depth<=2", Harness: "pkg/generator:HarnessC07L2", Layer: "L2",
				Desc:   "arrayValidator.generate (with the index bookkeeping it emits) for a [](..)float64 field of nesting depth 1..2, validator attached to level 1..depth, symbolic minItems/maxItems; symbolic documents with arrays of symbolic length <= N at every level and null inner arrays: accepted iff every array at that level is null/absent or has a length within the limits",
				Bounds: "depth <= 2, document array lengths 0..N per level (N=2 quick, N=3 thorough), limits 1..2^20 or absent; unwinding: the emitted range loops run over concrete lengths <= N on each path",
				Quick:  map[string]int{"N": 2, "DEPTH": 2}, Thor: map[string]int{"N": 3, "DEPTH": 2},
				Panic:  "inconclusive"},
			{Name: "array-validator/depth3", Harness: "pkg/generator:HarnessC07L2", Layer: "L2",
				Desc:   "same for nesting depth 3 (levels 1..3)",
				Bounds: "depth 3, document array lengths 0..N per level (N=1 quick, N=2 thorough)",
				Quick:  map[string]int{"N": 1, "MINDEPTH": 3, "DEPTH": 3}, Thor: map[string]int{"N": 2, "MINDEPTH": 3, "DEPTH": 3},
				Panic:  "inconclusive"},
		},
	})
	properties["C07"].Units = append(properties["C07"].Units,
		Unit{Name: "array-limits-across-documents-and-packages", Harness: "pkg/generator:HarnessC20", Layer: "L3", Only: "C07.",
			Desc:   "the two-file unit of C20 seen through C07: money.json's definition Base (composed through allOf, same name as a different definition of order.json) carries an array of strings with a symbolic minItems; in every layout (two packages, one package, packages sharing the last path element) and argument order the emitted Money type accepts a symbolic document iff the array is absent or long enough",
			Bounds: "F=2 files, document arrays <= 2 elements, symbolic minItems",
			Quick:  map[string]int{"N": 2, "LAYOUTS": 3, "DIRECT": 1}, Panic: "inconclusive"},
		l3Unit("arrays", map[string]int{"KINDS": 16, "DEPTH": 1, "ITEMKINDS": 3, "NUMSHAPES": 2, "STRSHAPES": 2}, "C07.", "array properties: 4 limit shapes x nullable x required x inline/$ref, items validated by their own schema"),
		l3Unit("nested-arrays", map[string]int{"KINDS": 16, "DEPTH": 2, "ITEMKINDS": 18, "NUMSHAPES": 1, "ARRSHAPES": 3, "REF": 0}, "C07.", "arrays of arrays with their own limits at each level"))
	reg(&Property{
		ID: "C04",
		Units: []Unit{
			{Name: "required-validator", Harness: "pkg/generator:HarnessC04L2", Layer: "L2",
				Desc:   "requiredValidator.generate + jsonFormatter/yamlFormatter.generate (raw-map presence test before the typed decode) for a struct with three members and every subset of them required; all presence flags of the document symbolic at once: accepted iff every required key is present, null counting as present; JSON and YAML methods",
				Bounds: "3 members (plain / nullable int / nullable string), every non-empty subset required, members absent/null/type-correct value",
				Panic:  "inconclusive"},
		},
	})
	properties["C04"].Units = append(properties["C04"].Units,
		l3Unit("scalars", map[string]int{"KINDS": 15, "DEPTH": 0, "NUMSHAPES": 2, "STRSHAPES": 2}, "C04.", "required/optional x nullable x inline/$ref for scalar properties"),
		l3Unit("maps-enums-formats", l3Enums, "C04.", "required/optional typed maps, enums, untyped and format-typed properties"),
		l3Unit("nested-objects", l3Objects, "C04.", "required members of a nested object (which is itself required or optional)"),
		l3Unit("nested-objects/required-list-with-an-undeclared-key", mergeParams(l3Objects, map[string]int{"GHOSTREQ": 1, "MARSHAL": 0}), "C04.", "a nested object whose required list also names a key it does not declare, before or after the declared member: the declared member stays required or optional exactly as listed"),
		Unit{Name: "allOf/required-of-every-branch", Harness: "pkg/generator:HarnessC11", Layer: "L3", Only: "C04.",
			Desc:   "allOf of two object branches (inline or $ref, every order) over the property names {a, b}, and allOf whose branches all declare the same object-valued property o with their own required member: a key required by any branch, at the top or inside o, must be present (documents valid in every other respect)",
			Bounds: "B=2 branches; regions of the recorded finding allOf-same-keyword-first-branch-wins are excluded",
			Quick:  map[string]int{"REF": 1, "NAMES": 2, "CONSTR": 1, "B": 2}, Panic: "inconclusive"},
		Unit{Name: "allOf/required-inside-an-object-declared-by-every-branch", Harness: "pkg/generator:HarnessC11", Layer: "L3", Only: "C04.",
			Desc:   "same, every branch declares the object-valued property o and adds a required or optional member to it",
			Bounds: "B=2 branches", Quick: map[string]int{"REF": 1, "NESTED": 1, "B": 2}, Panic: "inconclusive"},
		Unit{Name: "required-through-allOf-ref-across-documents", Harness: "pkg/generator:HarnessC20", Layer: "L3", Only: "C04.",
			Desc:   "two documents in one run, each with its own definition named Base (different required lists) behind the same reference string inside allOf: the type composed in money.json rejects a symbolic document that omits the key ITS Base requires, in every package layout and argument order",
			Bounds: "two files, three package layouts, both argument orders", Panic: "inconclusive"})
	reg(&Property{ID: "C01", Units: append(l3All("C01."),
		l3Unit("min-sized-ints", map[string]int{"KINDS": 4, "DEPTH": 0, "MINSIZED": 1}, "C01.", "integer properties with --min-sized-ints on and off: every bound literal fits the sized type that was chosen"),
		l3Unit("defaults", map[string]int{"KINDS": 15, "DEPTH": 0, "DEFAULTS": 1, "NUMSHAPES": 3, "STRSHAPES": 3, "NONULL": 1}, "C01.", "properties with a default together with value constraints (default + validator interplay in the emitted method)"),
		l3UnitT("option-combinations", map[string]int{"KINDS": 32767, "DEPTH": 1, "N": 1, "DESC": 1, "CFG": 1, "NODOC": 1, "NUMSHAPES": 2, "STRSHAPES": 2, "ARRSHAPES": 1, "NULLABLE": 0},
			map[string]int{"KINDS": 32767, "DEPTH": 1, "N": 1, "DESC": 1, "CFG": 1, "NODOC": 1, "NUMSHAPES": 2, "STRSHAPES": 2, "ARRSHAPES": 2}, "C01.",
			"every kind of the grammar (incl. typed maps, string-or-null enums) at depth <= 1 x all 32 combinations of --only-models, --extra-imports, --struct-name-from-title, --tags yaml, --capitalization x descriptions/titles with newlines, quotes, backticks, comment terminators and format verbs: the emitted file type-checks against its own imports and is gofmt-stable (no document is decoded in this unit)"),
		l3Unit("pattern-text", map[string]int{"KINDS": 49, "DEPTH": 1, "ITEMKINDS": 1, "PATTEXT": 1, "NODOC": 1, "ARRSHAPES": 1}, "C01.",
			"string properties (plain, nullable, required, via $ref, as array items and object members) whose pattern contains format verbs (%d, %%): the pattern reaches the emitted regexp call unchanged and the file type-checks"),
		l3UnitT("multiple-of", map[string]int{"KINDS": 6, "DEPTH": 0, "NUMSHAPEMASK": 9, "MULT": 6, "MINSIZED": 1, "REF": 0, "NULLABLE": 0},
			map[string]int{"KINDS": 6, "DEPTH": 0, "NUMSHAPEMASK": 9, "MULT": 6, "MINSIZED": 1}, "C01.",
			"number/integer properties with multipleOf (integral, fractional, larger than a narrow type) with and without --min-sized-ints: the emitted remainder test type-checks (math import, operand conversions, constant operands)")),
		Assumptions: []string{"go/types with the real dependency packages decides type-correctness; gofmt stability is checked on the text with hole identifiers (holes never sit in aligned columns)"}})
	reg(&Property{ID: "C02", Units: append(l3All("C02."),
		l3UnitT("integers/min-sized", map[string]int{"KINDS": 4, "DEPTH": 0, "MINSIZED": 1, "NUMSHAPEMASK": 14, "REF": 0}, map[string]int{"KINDS": 4, "DEPTH": 0, "MINSIZED": 1}, "C02.",
			"integer properties with one-sided and two-sided bounds, with --min-sized-ints on and off: every value inside the stated interval is accepted and kept (the narrowed Go type must hold all of them)"),
		l3Unit("objects-with-additional-properties", map[string]int{"KINDS": 16384, "DEPTH": 1, "E": 2, "N": 1}, "C02.",
			"an object with a declared property AND typed additionalProperties (struct with an AdditionalProperties map): valid documents are accepted, exactly the undeclared members that are present are collected in the map with their values, and marshal-back reproduces the declared values"),
		l3Unit("defaults", map[string]int{"KINDS": 15, "DEPTH": 0, "DEFAULTS": 1, "NUMSHAPES": 4, "STRSHAPES": 3, "NONULL": 1}, "C02.",
			"properties with a default that satisfies their own constraints: a document that omits (or nulls) the property is valid and must be accepted, whatever the constraints say about the Go zero value"))})
	reg(&Property{ID: "C03", Units: append(l3All("C03."), collidingNamesUnit("C03."),
		l3Unit("objects-with-additional-properties", map[string]int{"KINDS": 16384, "DEPTH": 1, "E": 2, "N": 1}, "C03.",
			"an object with a declared property AND typed additionalProperties: an undeclared member of another JSON type is rejected"),
		l3UnitT("integers/min-sized", map[string]int{"KINDS": 4, "DEPTH": 0, "MINSIZED": 1, "NUMSHAPEMASK": 9, "REF": 1}, map[string]int{"KINDS": 4, "DEPTH": 0, "MINSIZED": 1, "NUMSHAPEMASK": 41}, "C03.",
			"integer properties with --min-sized-ints on and off: another JSON kind and non-integral numbers are rejected, null is accepted where the type list has it (and yields nil)"),
		l3Unit("scalars-with-a-string-format-annotation", map[string]int{"KINDS": 14, "DEPTH": 0, "NONSTRFMT": 1, "NUMSHAPES": 2, "MARSHAL": 0}, "C03.",
			"number, integer and boolean properties (nullable or not, inline or via $ref) that also carry a format defined for strings (date-time, date, time, ipv4, ipv6, email): on a non-string type the keyword is an annotation -- a value of the stated JSON type is accepted, a string (or any other type) is rejected"),
		l3UnitT("null-typed-positions", map[string]int{"KINDS": 8208, "DEPTH": 1, "ITEMKINDS": 8192, "ARRSHAPES": 4, "N": 1}, map[string]int{"KINDS": 8208, "DEPTH": 1, "ITEMKINDS": 8192, "ARRSHAPES": 4, "N": 2}, "C03.",
			"positions of type null (a property; the items of an array with every combination of minItems/maxItems): only null is accepted there, any other JSON value is rejected"))})
	reg(&Property{ID: "C08", Units: []Unit{
		l3Unit("enums", map[string]int{"KINDS": 4544, "DEPTH": 0, "ENUMTEXT": 1}, "C08.", "string/integer/mixed/string-or-null enums, typed and untyped, inline and via $ref, required and optional; string members are plain words or text with format verbs, quotes, backslashes and a newline"),
		l3Unit("enums-in-arrays-and-objects", map[string]int{"KINDS": 48, "DEPTH": 1, "ITEMKINDS": 4288}, "C08.", "enums as array items and object members"),
		l3Unit("integer-enums-with-large-members", map[string]int{"KINDS": 128, "DEPTH": 0, "ENUMBIG": 1, "GRIDMAG": 54}, "C08.", "integer enums (typed and untyped, inline and via $ref) whose members are 1, 2 or odd integers between 2^52 and 2^53 of either sign and zero; document numbers up to 2^54: accepted iff equal to a listed member (the member's neighbours are not members)"),
	}})
	reg(&Property{ID: "C19", Units: l3All("C19.")})
	properties["C19"].Units = append(properties["C19"].Units, Unit{Name: "every-generated-type", Harness: "pkg/generator:HarnessC19AllTypes", Layer: "L3",
		Desc:   "six composite shapes (anyOf with a map-typed branch, anyOf of objects, allOf of a $ref and an object, an object with typed additionalProperties, an array of objects with a mixed and a string enum, named scalar definitions): EVERY emitted type that has UnmarshalJSON -- union structs, their branch types, map types, enum types, named scalars, the root -- is called directly on an arbitrary symbolic document (any JSON value or malformed bytes) with an arbitrary prior receiver: no panic path is feasible and the receiver is syntactically untouched on every error path",
		Bounds: "six concrete shapes, documents with arrays <= 2 elements and one extra member per object",
		Quick:  map[string]int{"GRID": 2, "GRIDMAG": 36, "N": 2}, Panic: "inconclusive"})
	// the validator kernels of C04-C07 also decide "no panic" and "receiver unchanged on error"
	// for every nil-guard / index expression they emit: C19 owns those two checks of each
	for _, src := range []string{"C04", "C05", "C06", "C07"} {
		for _, u := range properties[src].Units {
			if u.Layer != "L2" || u.OnlyThorough {
				continue
			}
			u.Name = "validator-kernels/" + u.Name
			u.OnlySuffix = []string{".no-panic", ".receiver-unchanged-on-error"}
			properties["C19"].Units = append(properties["C19"].Units, u)
		}
	}
	reg(&Property{ID: "C09", Units: []Unit{
		{Name: "defaults", Harness: "pkg/generator:HarnessC09", Layer: "L3",
			Desc:   "whole generator on properties with a default (string, number, integer, boolean, string enum, array of strings; nullable or not; required or not; with symbolic constraints that admit the default); emitted code on a symbolic document: absent or null member accepted and the decoded field equals the default, present value kept, default literal type-checks in its field",
			Bounds: "one property; default values are concrete representatives (they travel through litter.Sdump), constraints symbolic (exact grid), document arrays <= N",
			Quick:  map[string]int{"GRID": 2, "GRIDMAG": 36, "N": 2, "DEFAULTS": 1, "NUMSHAPES": 4, "STRSHAPES": 3, "ARRSHAPES": 3, "ITEMKINDS": 1, "MINSIZED": 1, "DEFTEXT": 1},
			Panic:  "inconclusive"},
		{Name: "object-typed-defaults", Harness: "pkg/generator:HarnessC09Object", Layer: "L3",
			Desc:   "an optional object-typed property (inline or via $ref) whose default gives any subset of its boolean/integer/string members, each with the Go zero value of its type or another value, while each member has or has not a default of its own: absent or null property -> the decoded object holds exactly the given values (a given false/0/\"\" is a value); present property -> document members kept, absent members take their own defaults",
			Bounds: "three members, 3^3-1 default objects x 2^3 own-default sets x inline/$ref; symbolic documents (x absent/null/object, members absent or type-correct)",
			Quick:  map[string]int{"GRID": 2, "GRIDMAG": 36}, Panic: "inconclusive"},
		siblingsUnit("C09."),
	}})
	reg(&Property{ID: "C17", Units: []Unit{
		{Name: "yaml-vs-json/scalars-and-string-enums", Harness: "pkg/generator:HarnessC17", Layer: "L3",
			Desc:   "generator with --extra-imports; both emitted methods of every type run symbolically on the same symbolic type-correct document (valid, or violating required/bound/length/pattern/string-enum rules): same verdict, equal decoded values",
			Bounds: "shapes: string/number/integer/boolean/string-enum/string-or-null-enum properties x nullable x required x inline/$ref x with/without default; default tag set; yaml.v3 and encoding/json decode stubs agree on type-correct input (assumption, validated on replay)",
			Quick:  map[string]int{"GRID": 2, "GRIDMAG": 36, "N": 2, "DEFAULTS": 1, "NUMSHAPEMASK": 43, "KINDS": 4175},
			Thor:   map[string]int{"GRID": 2, "GRIDMAG": 36, "N": 2, "DEFAULTS": 1, "KINDS": 4175},
			Panic:  "inconclusive"},
		{Name: "yaml-vs-json/composed-types", Harness: "pkg/generator:HarnessC17Composite", Layer: "L3",
			Desc:   "anyOf with a map-typed branch, anyOf of two objects, anyOf whose first branch collects typed additional properties, allOf of a $ref and an object, an object with typed additionalProperties, as a required or optional property, generated with --extra-imports: UnmarshalJSON and UnmarshalYAML of the root type on the same symbolic type-correct document (members absent or of the declared type, one extra integer member): same verdict, equal decoded values including the additional-properties map",
			Bounds: "five concrete shapes, one extra member per object, symbolic strings and integers",
			Quick:  map[string]int{"GRID": 2, "GRIDMAG": 36, "E": 1}, Panic: "inconclusive"},
		{Name: "yaml-vs-json/arrays-and-objects", Harness: "pkg/generator:HarnessC17", Layer: "L3",
			Desc:   "same for arrays of scalars and a nested object",
			Bounds: "as above, document arrays <= 2 elements",
			Quick:  map[string]int{"GRID": 2, "GRIDMAG": 36, "N": 2, "KINDS": 48, "DEPTH": 1, "ITEMKINDS": 71, "NUMSHAPES": 3, "STRSHAPES": 2, "ARRSHAPES": 3},
			Panic:  "inconclusive"},
	}, Assumptions: []string{"for type-correct documents yaml.v3's Decode and encoding/json's Unmarshal fill Go values identically (binding by the yaml / json tag of the default tag set)"}})
	reg(&Property{ID: "C11", Units: []Unit{
		{Name: "allOf-inside-an-allOf-branch", Harness: "pkg/generator:HarnessC11Nested", Layer: "L3", Only: "C11.",
			Desc:   "x = allOf[$ref Named, Second]; Second (inline or a definition) declares owner = allOf[$ref D, Extra] where D is the SAME definition the outer allOf refers to or another one with equal content; Named has a symbolic minLength and an optional required name, Extra an optional required email. Nothing is recursive: accepted iff x satisfies Named and, when owner is present, owner satisfies D and Extra",
			Bounds: "one nesting level, 2^5 shape choices, symbolic string lengths, members absent or strings",
			Quick:  map[string]int{"GRID": 2, "GRIDMAG": 36, "N": 2}, Panic: "inconclusive"},
		{Name: "allOf-anyOf/inline-branches", Harness: "pkg/generator:HarnessC11", Layer: "L3", Only: "C11.",
			Desc:   "whole generator (resolveRefs, schemas.AllOf/AnyOf with the mergo model, generateAnyOfType/generateAllOfType, anyOfValidator) on a required property x = allOf/anyOf of two object branches over the property names {a, b}: each branch declares a subset, requires some, and puts a symbolic minLength or maxLength on each; emitted code on a symbolic type-correct document: allOf accepted iff every branch's reference model accepts, anyOf iff at least one does",
			Bounds: "B=2 branches, property sets {a} / {a,b}, one symbolic string-length keyword (or none) per property, documents with a, b absent or strings; mergo is a hand model of deepMerge for the option set the repository uses (validated by native replay)",
			Quick:  map[string]int{"REF": 0, "NAMES": 2, "CONSTR2": 1, "B": 2}, Thor: map[string]int{"REF": 0, "NAMES": 3, "B": 2},
			Panic:  "inconclusive"},
		{Name: "allOf-anyOf/ref-branches", Harness: "pkg/generator:HarnessC11", Layer: "L3", Only: "C11.",
			Desc:   "same with both branches given by $ref to definitions",
			Bounds: "as above, two constraint choices per property",
			Quick:  map[string]int{"REF": 2, "NAMES": 1, "CONSTR": 3, "B": 2}, Thor: map[string]int{"REF": 1, "NAMES": 2, "CONSTR": 2, "B": 2},
			Panic:  "inconclusive"},
		{Name: "allOf-anyOf/mixed-branches", Harness: "pkg/generator:HarnessC11", Layer: "L3", Only: "C11.",
			Desc:   "same with every branch independently inline or a $ref (all four orders: inline/inline, inline/$ref, $ref/inline, $ref/$ref)",
			Bounds: "as above, property sets {a} / {a,b}, two constraint choices on a",
			Quick:  map[string]int{"REF": 1, "NAMES": 2, "CONSTR": 2, "CONSTR2": 1, "B": 2}, Thor: map[string]int{"REF": 1, "NAMES": 3, "CONSTR": 3, "B": 3},
			Panic:  "inconclusive"},
		{Name: "allOf-anyOf/same-object-property-in-every-branch", Harness: "pkg/generator:HarnessC11", Layer: "L3", Only: "C11.",
			Desc:   "every branch declares the same object-valued property o and contributes its own (required or optional) member to it: the nested object schemas are merged as well (conjunction at depth 2)",
			Bounds: "B=2 branches (3 thorough), inline or $ref, one string member per branch",
			Quick:  map[string]int{"REF": 1, "NESTED": 1, "B": 2}, Thor: map[string]int{"REF": 1, "NESTED": 1, "B": 3},
			Panic:  "inconclusive"},
		{Name: "allOf-anyOf/two-compositions-sharing-their-first-branch", Harness: "pkg/generator:HarnessC11", Layer: "L3",
			Desc:   "a second composition w in the same schema (generated before x) shares its first branch -- the same $ref'd definition -- with x and adds a branch of its own about another member: x still means exactly its own branches (what one composition merges stays its own)",
			Bounds: "B=2 $ref branches plus one sibling composition; symbolic minLength/maxLength limits, symbolic document",
			Quick:  map[string]int{"REF": 2, "NAMES": 1, "CONSTR": 2, "B": 2, "TWICE": 1, "GRID": 2, "GRIDMAG": 36}, Thor: map[string]int{"REF": 2, "NAMES": 2, "CONSTR": 3, "B": 2, "TWICE": 1, "GRID": 2, "GRIDMAG": 36},
			Panic:  "inconclusive"},
		{Name: "allOf-ref-branches-across-documents", Harness: "pkg/generator:HarnessC20", Layer: "L3", Only: "C11.",
			Desc:   "two documents in one run, each with its own definition named Base behind the same reference string inside allOf: the composed type in money.json is the conjunction of ITS document's branches (symbolic minLength, symbolic document), in three package layouts and both argument orders",
			Bounds: "two files", Panic: "inconclusive"},
	}, Assumptions: []string{"dario.cat/mergo v1.0.1 Merge behaves as the engine's model of deepMerge (Overwrite=false, AppendSlice, TypeList transformer, optional WithoutDereference); primitive-typed branches, oneOf/not and more than two branches are outside the bound"}})
	reg(&Property{ID: "C18", Units: []Unit{
		{Name: "fault-injection", Harness: "pkg/generator:HarnessC18", Layer: "L3",
			Desc:   "a valid schema with one ungeneratable element (unknown type, $ref to a missing definition, empty enum, non-primitive enum value, $ref that does not point to a definition) injected at one of 9 positions (property, array item, nested member, member of a referenced / unreferenced definition, member of an allOf / anyOf branch, own property beside allOf, an allOf branch itself): addFile returns an error on every path and no path panics",
			Bounds: "5 fault kinds x 9 positions, depth <= 2; the harness stops at generator.addFile (main.go's behaviour is the subject of the unit cli/failures-are-loud-and-clean)",
			Panic:  "violation"},
		{Name: "valid-shapes-never-fail", Harness: "pkg/generator:HarnessC18Valid", Layer: "L3",
			Desc:   "every shape of the grammar (all kinds, depth 1) under all combinations of --min-sized-ints / --extra-imports / --only-models with symbolic constraint values: generation succeeds and no panic path is feasible",
			Bounds: "shape grammar G(1,1) with reduced constraint shapes; exact-grid values",
			Quick:  map[string]int{"GRID": 2, "GRIDMAG": 36, "NUMSHAPES": 3, "STRSHAPES": 3, "ARRSHAPES": 3},
			Panic:  "violation"},
		{Name: "unusual-inputs", Harness: "pkg/generator:HarnessC18Special", Layer: "L3",
			Desc:   "legal but unusual inputs (a property that is {\"$ref\": \"#\"}, an object default with an empty key, an empty property name): no panic",
			Bounds: "three concrete shapes",
			Panic:  "violation"},
		{Name: "cli/failures-are-loud-and-clean", Harness: ".:HarnessCLIFailures", Layer: "L3",
			Desc:   "main.go's Run closure with the real loaders and parser on a virtual file system and an OS model (os.Open/OpenFile/MkdirAll/Write/Exit, the standard streams): no arguments, no package, a malformed --schema-package/--schema-output/--schema-root-type value, and one bad input file (missing, unparsable, unknown type, $ref to a missing definition, $ref to a missing file) alone, before or after a good file, with outputs to stdout or to files: a failing run exits non-zero with a 'Failed' diagnostic on stderr, writes nothing to stdout and creates no file; the fault-free run exits 0 with complete output",
			Bounds: "one fault per run, two input files, outputs to stdout or two files; cobra's flag parsing and help output, unreadable (permission) files, write errors and YAML inputs are outside (flag variables are set directly; the OS model never fails a write)",
			Panic:  "violation"},
	}})
	reg(&Property{ID: "C16", Units: []Unit{
		{Name: "one-option-apart", Harness: "pkg/generator:HarnessC16", Layer: "L3",
			Desc:   "one symbolic schema (shape grammar plus anyOf/allOf of $ref'd definitions) generated twice under configurations differing in exactly one option; the emitted files are compared at declaration level (hole identifiers by their terms): --only-models = same type declarations and no functions/variables; --tags = equal after erasing struct tags; without --extra-imports = the full output minus YAML methods/imports with identical JSON methods",
			Bounds: "options --only-models, --tags (json only), --extra-imports; shapes G(1,1); --capitalization / --struct-name-from-title / --schema-root-type have a unit of their own; the comparison is a concrete per-path oracle on the symbolic output (the solver contributes the path partition)",
			Quick:  map[string]int{"GRID": 2, "GRIDMAG": 36, "NUMSHAPES": 2, "STRSHAPES": 2, "ARRSHAPES": 2, "DEFAULTS": 1},
			Thor:   map[string]int{"GRID": 2, "GRIDMAG": 36, "NUMSHAPES": 4, "STRSHAPES": 4, "ARRSHAPES": 3, "DEFAULTS": 1, "DEPTH": 2},
			Panic:  "inconclusive"},
		{Name: "identifier-options-change-identifiers-only", Harness: "pkg/generator:HarnessC16Rename", Layer: "L3",
			Desc:   "a titled root object with a string, an integer and a property x of every kind of the grammar (among them objects collecting additional properties) generated without and with --struct-name-from-title, a --schema-root-type mapping or a --capitalization list; titles and root types include identifiers the emitted methods use themselves (Plain, raw, err); both emitted programs on the SAME symbolic document: the option-run still compiles, same verdict, same marshal-back, same collected additional properties",
			Bounds: "shapes G(1,1); 2 titles and root-type names (thorough: 4), 2 capitalization lists; quick tier: string, integer, array, object, string enum and object-with-additional-properties kinds, not nullable; behaviour compared through verdict, marshal-back and the additional-properties map (a rename-insensitive comparison of the declarations themselves is not attempted)",
			Quick:  map[string]int{"GRID": 2, "GRIDMAG": 36, "KINDS": 16501, "ITEMKINDS": 5, "NUMSHAPES": 2, "STRSHAPES": 2, "ARRSHAPES": 2, "N": 1, "NULLABLE": 0, "TITLES": 2},
			Thor:   map[string]int{"GRID": 2, "GRIDMAG": 36, "NUMSHAPES": 2, "STRSHAPES": 2, "ARRSHAPES": 2, "N": 1, "TITLES": 4},
			Panic:  "inconclusive"},
		{Name: "cli/flag-wiring", Harness: ".:HarnessCLIFlagWiring", Layer: "L3",
			Desc:   "main.go's Run closure under all 128 combinations of --extra-imports, --only-models, --struct-name-from-title, --min-sized-ints, a --capitalization, a --tags list and a --schema-root-type mapping, times three mapping layouts (one id; two ids where the id sorting first / last carries the larger set of per-schema flags): stdout and every written file equal what the library emits for the generator.Config those flags denote (each flag reaches the field it names, for the id it names, and no other)",
			Bounds: "one or two schema files; flag variables set directly (cobra's parsing and flag names are outside)",
			Panic:  "inconclusive"},
	}})
	reg(&Property{ID: "C20", Units: []Unit{
		{Name: "two-files", Harness: "pkg/generator:HarnessC20", Layer: "L3", SameEmits: true, Only: "C20.",
			Desc:   "two schema files (order.json refers to money.json; both carry a different definition named Base used through allOf) served by a harness Loader over a virtual file system; three layouts (two packages, one package and file, two packages whose import paths share the last element) x both argument orders x with/without the second file on the command line: outputs carry exactly the mapped names, the emitted packages are type-checked TOGETHER (cross-package references qualified and imported), every root type lands in the package mapped to its id only, and all explored orders emit identical files",
			Bounds: "F=2 files, concrete ids/mappings, one symbolic constraint; the real file system (symlinks, extension probing), HTTP refs, F>2 and --schema-root-type mappings are not covered; os.Stat is a virtual-file-system stub",
			Panic:  "inconclusive"},
	}})
	properties["C20"].Units = append(properties["C20"].Units,
		Unit{Name: "same-base-name/solo-vs-joint", Harness: "pkg/generator:HarnessC20Solo", Layer: "L3", Only: "C20.",
			Desc:   "two schema files with the SAME base name (billing/config.json, shipping/config.json; same-named definitions; optionally the same --schema-root-type) mapped to different packages and files, loaded through the default loaders from a virtual file system in both argument orders: exactly the two mapped outputs exist and each is byte-identical to the output of generating that schema alone",
			Bounds: "two files, concrete content", Panic: "inconclusive"})
	reg(&Property{ID: "C10", Units: []Unit{
		{Name: "inline-vs-ref", Harness: "pkg/generator:HarnessC10", Layer: "L3",
			Desc:   "every shape of the grammar generated twice -- inline and as #/$defs/Def referenced by x -- and both emitted programs run on the SAME symbolic document: same verdict",
			Bounds: "shapes G(1,1) with reduced constraint shapes, exact-grid values, document arrays <= 2",
			Quick:  map[string]int{"GRID": 2, "GRIDMAG": 36, "N": 1, "NUMSHAPES": 3, "STRSHAPES": 3, "ARRSHAPES": 2, "KINDS": 8143, "DEPTH": 0},
			Thor:   map[string]int{"GRID": 2, "GRIDMAG": 36, "N": 2, "NUMSHAPES": 3, "STRSHAPES": 3, "ARRSHAPES": 3},
			Panic:  "inconclusive"},
		{Name: "inline-vs-ref/arrays", Harness: "pkg/generator:HarnessC10", Layer: "L3",
			Desc:   "same for array shapes",
			Bounds: "arrays of numbers/strings, document arrays <= 1 element",
			Quick:  map[string]int{"GRID": 2, "GRIDMAG": 36, "N": 1, "NUMSHAPES": 2, "STRSHAPES": 2, "ARRSHAPES": 3, "KINDS": 16, "DEPTH": 1, "ITEMKINDS": 3},
			Panic:  "inconclusive"},
		{Name: "shared-and-recursive-definition", Harness: "pkg/generator:HarnessC10Shared", Layer: "L3",
			Desc:   "one self-referencing definition (#/$defs/ and #/definitions/ spellings) used by two properties and an array: generation terminates, exactly one Go type is declared for it, documents nested three levels decode with their values",
			Bounds: "one recursive definition, nesting depth 3",
			Panic:  "inconclusive"},
		collidingNamesUnit("C10."),
		{Name: "file-references/relative-to-the-referrer", Harness: "pkg/generator:HarnessC10Files", Layer: "L3", Only: "C10.",
			Desc:   "DoFile with the DEFAULT loaders (CachedLoader -> MultiLoader -> FileLoader, QualifiedFileName with and without --resolve-extension probing, FromJSONFile and the real parser) on a virtual file system: root.json -> model/order.json -> model/types/money.json, optionally with a back reference order -> ../root.json, and decoy money.json files where a resolution relative to the wrong document would look: generation succeeds and the emitted root type enforces the REAL money.json (minLength) on a symbolic document",
			Bounds: "one layout (three directories), concrete files, references with and without extension; symlinks, HTTP and YAML targets are outside; os.Stat/Open are the virtual-file-system model",
			Quick:  map[string]int{"GRID": 2, "GRIDMAG": 36}, Panic: "inconclusive"},
		{Name: "refs-across-documents", Harness: "pkg/generator:HarnessC20", Layer: "L3", Only: "C10.",
			Desc:   "two documents in one run, each with its own definition named Base behind the same reference string #/$defs/Base inside allOf: the emitted Money type enforces ITS document's Base (symbolic minLength, symbolic document)",
			Bounds: "two files, three package layouts, both argument orders",
			Panic:  "inconclusive"},
	}})
	reg(&Property{ID: "C14", Units: []Unit{
		{Name: "identifierize/symbolic-runes", Harness: "internal/x/text:HarnessC14L1", Layer: "L1",
			Desc:   "Caser.Identifierize / splitIdentifierByCaseAndSeparators / Capitalize on strings of 1..R symbolic runes; every rune ranges over all realizable attribute vectors of Go's Unicode tables (computed by scanning all 0x110000 code points: IsLower/IsUpper/IsLetter/IsNumber/IsDigit/'_'/'*'/IsSpace/IsPunct/IsSymbol/IsMark/IsControl of r, ToUpper(r), ToTitle(r), ToLower(r) and map(r)==r); unicode.Is*/To* on symbolic runes are table lookups over the class variable: the result is non-empty, starts with an upper-case letter (exported) and consists of letters, decimal digits and '_' only",
			Bounds: "R=3 runes quick (R=4 thorough); empty --capitalization list (strings.EqualFold on symbolic runes is not modelled); len() of a symbolic rune string is its rune count (the code only compares it with 0)",
			Quick:  map[string]int{"R": 3}, Thor: map[string]int{"R": 4},
			Panic:  "violation"},
		{Name: "colliding-sibling-names", Harness: "pkg/generator:HarnessC14L3", Layer: "L3",
			Desc:   "every 3-subset (thorough: 4-subset of 8) of seven 6-name families of sibling property names that collide after normalisation, including names that look like the suffixed form the de-duplication produces (foo/Foo/FOO/Foo_2/foo_2/foo2, a-b/a_b/aB/AB/'a b'/A_B_2, id/Id/ID/i_d/Id_2/id2, x1/x_1/X1/x-1/X1_2/X_1_2, names with %, names with white space, names with combining marks -- for the last family names and tags only, encoding/json does not bind such tags), with and without --capitalization ID: the emitted struct type-checks (distinct field names), every json tag carries the exact original name exactly once, and a document with all keys (symbolic integers) is accepted",
			Bounds: "concrete name sets (representatives); per-field value binding is checked only through acceptance of the required keys",
			Quick:  map[string]int{"POOL": 6, "SIBLINGS": 3}, Thor: map[string]int{"POOL": 8, "SIBLINGS": 4},
			Panic:  "inconclusive"},
		collidingNamesUnit("C14."),
	}})
	reg(&Property{ID: "C13", Units: []Unit{
		{Name: "schema-texts/legacy-vs-current-spelling", Harness: "pkg/generator:HarnessC13Texts", Layer: "L3",
			Desc:   "every document of the schema-text corpus, the composition corpus and two reference corpora (references from properties, items, additionalProperties, allOf and anyOf branches to typed objects, a mixin that only adds required, the anything-schema, a format-typed string, an enum, a definition that refers on) spelled with current keywords and with any non-empty subset of the legacy spellings (id, definitions, \"#/definitions/...\" in $ref strings): real parser and generator on both, same outcome and byte-identical output, with and without --extra-imports",
			Bounds: "13 concrete documents x 7 respelling subsets x 2 option sets; decided by comparing concrete outputs of the interpreted generator (no solver query: the schema texts carry no symbolic value); the document with both blocks is excluded",
			Panic:  "inconclusive"},
		{Name: "legacy-vs-current-keywords", Harness: "pkg/schemas:HarnessC13Keywords", Layer: "L1",
			Desc:   "a symbolic schema DOCUMENT (symbolic $id, title, type, minimum; one definition, one dependent schema and one property, each a small type with symbolic content; every presence flag symbolic) and its re-spelling with any subset of id/$id, definitions/$defs, dependencies/dependentSchemas (applied at every object level through a renamed view of the same document) are pushed through the REAL Schema.UnmarshalJSON / Type.UnmarshalJSON / TypeList.UnmarshalJSON with the encoding/json decode stub: same parse outcome, and parsed values equal on every pkg/schemas field that code outside the parser touches (set computed from SSA on every run)",
			Bounds: "schema documents with the listed keys only (all others absent), E=1 entry per map, nesting depth 2; root has a type; equal parsed values imply equal output because generation is a deterministic function of the parsed value and the options (C12); the YAML half of C13 (goccy/go-yaml byte-level parser) and \"#/definitions/\" vs \"#/$defs/\" inside $ref strings (covered by C10's shared-definition unit) are not part of this unit",
			Quick:  map[string]int{"E": 1, "N": 1, "OPTIONAL": 0}, Thor: map[string]int{"E": 1, "N": 1, "OPTIONAL": 1},
			Panic:  "inconclusive"},
		{Name: "type-as-string-or-list/true-or-empty", Harness: "pkg/schemas:HarnessC13TypeSpellings", Layer: "L1",
			Desc:   "TypeList.UnmarshalJSON on a symbolic string s and on the document [s] (same atom) parse equal; Type.UnmarshalJSON on true and on {} parse equal",
			Bounds: "non-empty type name",
			Panic:  "inconclusive"},
	}, Assumptions: []string{"encoding/json decode stub incl. embedded-struct promotion and shadowing (contract in DESIGN §5.3/A.5)", "fields of pkg/schemas types that are only compared wholesale (cmp.Equal) are treated as not read by the generator"}})
	reg(&Property{ID: "C12", Units: []Unit{
		{Name: "map-order-schedules", Harness: "pkg/generator:HarnessC12", Layer: "L3", MapOrd: 5, SameEmits: true,
			Desc:   "every `range` over a Go map executed in repository code (sites discovered dynamically: sortedKeys, sortDefinitionsByName, Sources, beginOutput, hasDecl...) is a schedule choice; all orders of maps with <= 3 entries are explored and every schedule must emit byte-identical files under identical names (hole terms compared syntactically)",
			Bounds: "four harness shapes (single file with 3 properties / 2 definitions; two schema ids mapped to two files and packages; definition names differing only in case; literals rendered through the dumper -- composite array default, enumerations -- in two files), each rendered twice and generated again by a fresh generator in the same process; maps with <= K=5 entries per site; schedules are enumerated by forking -- the solver contributes nothing here beyond hole identity (weakest fit of the family, stated in DESIGN §8 C12); JSON key permutation is map order after parsing; directory independence and main.go's allKeys are not covered",
			Quick:  map[string]int{"SHAPES": 4},
			Panic:  "inconclusive"},
		{Name: "cli/map-order-schedules", Harness: ".:HarnessCLIDeterminism", Layer: "L3", MapOrd: 4, SameEmits: true,
			Desc:   "main.go's Run closure (flag variables set directly; stringSliceToStringMap, allKeys, the mapping loop, generator.New, DoFile through the real cached/multi/file loaders and the real JSON parser on a virtual file system, the Sources loop with MkdirAll/OpenFile/Write, os.Exit) executed under every iteration order of every map the CLI or the generator ranges over: eight flag/argument scenarios (two ids with different sets of mapping flags; no mapping; package+output under one key; two spellings of one schema id in different and in the same flag map; two schemas fully mapped; external $ref with one default file; one schema to a file and one to stdout) must each give ONE exit status, ONE stdout and ONE set of files",
			Bounds: "nine scenarios over small schema files (one with an ordered --resolve-extension list whose entries both apply); maps with <= 4 entries; cobra's flag parsing is outside (flag variables are set directly); schedules are enumerated by forking (no solver query is needed: all data is concrete)",
			Panic:  "inconclusive"},
	}})
	reg(&Property{
		ID: "C15",
		Units: []Unit{
			{Name: "min-int-type/exact-grid", Harness: "pkg/codegen:HarnessC15L1F", Layer: "L1",
				Desc:   "PrimitiveTypeFromJSONSchemaType(integer, minIntSize) over symbolic bounds: the chosen type represents every admitted integer, inside the type's range the remaining bounds (with their values after the call) admit exactly the stated set, and no narrower type would do",
				Bounds: "exact-grid mode: every bound is n/4 with |b| <= 2^36 (float64 arithmetic of the kernel -- comparisons, +-1.0, Ceil/Floor/Round -- is exact there and is encoded as integer arithmetic), x any integer with |x| <= 2^36; covers all 36 presence/kind shapes, every relative order of the bounds and every 8/16/32-bit type limit; 64-bit limits and other magnitudes: thorough tier (FP mode)",
				Quick:  map[string]int{"GRID": 2, "GRIDMAG": 36},
				Panic:  "violation"},
			l3UnitT("integers/min-sized-through-emitted-code", map[string]int{"KINDS": 4, "DEPTH": 0, "MINSIZED": 1, "NUMSHAPEMASK": 46, "REF": 0}, map[string]int{"KINDS": 4, "DEPTH": 0, "MINSIZED": 1}, "C15.",
				"integer properties (required, optional, nullable, inline and via $ref) generated with --min-sized-ints: the emitted program accepts a symbolic document iff the value lies in the stated interval (the same reference model as without the flag: acceptance does not change)"),
			{Name: "min-int-type/float64-semantics", Harness: "pkg/codegen:HarnessC15L1F", Layer: "L1", OnlyThorough: true,
				Desc:   "same harness with true IEEE float64 semantics (SMT FloatingPoint 11 53): representable / sound-removal / narrowest for bounds of any magnitude below 2^64",
				Bounds: "bounds finite, |b| < 2^64; exclusive-form bounds |b| < 2^53 (b+-1 exact in float64); x: integral float64 (every |x| <= 2^53 and all type limits 2^k); queries that time out (60 s) are reported as not covered; path budget 400",
				Panic:  "violation", MaxPaths: 400},
			{Name: "min-int-type/int64-uint64", Harness: "pkg/codegen:HarnessC15L1B", Layer: "L1", OnlyThorough: true,
				Desc:   "same kernel with x an arbitrary int64 and u an arbitrary uint64 above MaxInt64, compared exactly (no rounding) with the float64 bounds: representable and sound-removal",
				Bounds: "as above; integers outside [-2^63, 2^64) outside the claim; path budget 400",
				Panic:  "violation", MaxPaths: 400},
		},
		Assumptions: []string{"float64->int64 conversion follows amd64 (CVTTSD2SI) semantics"},
	})
}

func textKernels(only string, suffix []string) []Unit {
	q := map[string]int{"GRID": 0, "GRIDMAG": 36, "RUNTIMEFMT": 1, "L": 14}
	t := map[string]int{"GRID": 0, "GRIDMAG": 36, "RUNTIMEFMT": 1, "L": 22}
	mk := func(name, fn, desc, bounds string) Unit {
		return Unit{Name: "date-time-wrappers/" + name, Harness: "pkg/types:" + fn, Layer: "L1", Only: only, OnlySuffix: suffix,
			Desc: desc, Bounds: bounds, Quick: q, Thor: t, Panic: "violation"}
	}
	model := "package time is a stub written from its documentation for the two layouts the repository uses (DateOnly, TimeOnly): 4-digit year, zero-padded 2-digit fields, day-of-month and leap-year validation, an optional fractional second when parsing; validated by native twins and replays, which run the real package time"
	return []Unit{
		mk("date/print-then-parse", "HarnessDatePrintParse", "SerializableDate.MarshalJSON then UnmarshalJSON on an arbitrary valid calendar date (symbolic year 0..9999, month, day with leap years): marshalling succeeds, the text parses back, and to the same date", "years 0..9999; "+model),
		mk("date/parse-then-print", "HarnessDateParsePrint", "SerializableDate.UnmarshalJSON on L symbolic bytes for every length L: no panic; whenever the bytes are accepted (other than null), MarshalJSON returns exactly those bytes", "lengths 0..13 quick, 0..21 thorough; "+model),
		mk("time/print-then-parse", "HarnessTimePrintParse", "the same for SerializableTime on an arbitrary time of day (whole seconds)", model),
		mk("date/all-or-nothing", "HarnessDateAllOrNothing", "SerializableDate.UnmarshalJSON on L symbolic bytes for every length L with an arbitrary prior date in the receiver: no panic, and when an error is returned the receiver still holds the prior value", "lengths 0..13 quick, 0..21 thorough; "+model),
		mk("time/all-or-nothing", "HarnessTimeAllOrNothing", "the same for SerializableTime with an arbitrary prior time of day", "lengths 0..13 quick, 0..21 thorough; "+model),
		mk("time/parse-then-print", "HarnessTimeParsePrint", "SerializableTime.UnmarshalJSON on L symbolic bytes for every length L: no panic; accepted bytes are reproduced by MarshalJSON", "lengths 0..13 quick, 0..21 thorough; "+model),
	}
}

func init() {
	properties["C01"].Units = append(properties["C01"].Units, Unit{Name: "composition-corpus", Harness: "pkg/generator:HarnessCorpus", Layer: "L3", Only: "C01.",
		Desc:   "six schema documents that combine allOf/anyOf with references in the ways that stress declaration bookkeeping (a composed definition with a union of references inside, referenced two and three times; a definition that is itself a union; allOf of references with own properties and a union in array items; recursion through allOf; enums and closed objects shared by several positions), through the real parser and generator under the default options, --only-models and --extra-imports: the emitted file type-checks",
		Bounds: "six concrete documents x three option sets", Panic: "inconclusive"})
	for _, id := range []string{"C04", "C05", "C06", "C07", "C08", "C10"} {
		properties[id].Units = append(properties[id].Units, siblingsUnit(id+"."))
	}
	properties["C08"].Units = append(properties["C08"].Units, collidingNamesUnit("C08."))
	properties["C04"].Units = append(properties["C04"].Units, collidingNamesUnit("C04."))
	properties["C02"].Units = append(properties["C02"].Units, siblingsUnit("C02."))
	for _, u := range properties["C14"].Units {
		if u.Name == "colliding-sibling-names" {
			u.Only = "C03."
			u.Desc = "the sibling-name families of C14 (names with %, white space, separators, suffix look-alikes) seen through C03: with one of the keys carrying a string instead of an integer the document is rejected, whichever key it is"
			properties["C03"].Units = append(properties["C03"].Units, u)
			u.Only = "C04."
			u.Desc = "the sibling-name families of C14 seen through C04: every name is required; with all keys present the document is accepted, with any one of them missing it is rejected, whatever characters the names contain (%, white space, separators, suffix look-alikes)"
			properties["C04"].Units = append(properties["C04"].Units, u)
			u.Only = "C01."
			u.Name = "colliding-sibling-names/with-explicit-identifiers"
			u.Desc = "the sibling-name families of C14 seen through C01, where one sibling may name its Go field itself (goJSONSchema.identifier) with the very identifier another sibling's key normalises to: the emitted struct still type-checks (no duplicate field)"
			u.Quick = mergeParams(u.Quick, map[string]int{"EXTID": 1, "COMPILEONLY": 1})
			properties["C01"].Units = append(properties["C01"].Units, u)
		}
	}
	for _, u := range properties["C12"].Units {
		if u.Name == "cli/map-order-schedules" {
			u.Only = "C20."
			u.Desc = "the CLI unit of C12 seen through C20: two schema ids with different sets of --schema-* flags (one has only an output, the other only a package and a root type): under every map order each mapping applies to its own schema only (the widget lands in its mapped file under its own root type, the gadget under its mapped root type on stdout), and all orders give the same outcome"
			properties["C20"].Units = append(properties["C20"].Units, u)
		}
	}
	for _, u := range textKernels("C02.", nil) {
		if !strings.Contains(u.Name, "all-or-nothing") {
			properties["C02"].Units = append(properties["C02"].Units, u)
		}
	}
	// C19 owns the "never panics" side of the same kernels: on symbolic bytes of every length the
	// wrappers' UnmarshalJSON returns nil or an error (a panic path is a violation of the unit's
	// panic policy; the round-trip checks belong to C02)
	for _, u := range textKernels("C19.", nil) {
		if strings.Contains(u.Name, "parse-then-print") || strings.Contains(u.Name, "all-or-nothing") {
			properties["C19"].Units = append(properties["C19"].Units, u)
		}
	}
	properties["C13"].Units = append(properties["C13"].Units, Unit{Name: "json-files-vs-yaml-files", Harness: "pkg/generator:HarnessC13Files", Layer: "L3", Only: "C13.",
		Desc:   "the same two schemas (a root with bounds, a two-element type list, a mixed enum with null, a $ref written without extension that --resolve-extension probing resolves, an allOf branch on the same file) as JSON files and as YAML files on the virtual file system, loaded through the default loaders (extension-based parser choice, FromYAMLFile -> goccy decode -> FixMapKeys -> json.Marshal -> the JSON parser): both spellings generate, and generate byte-identical code",
		Bounds: "one concrete pair of schema sets; goccy/go-yaml itself is a library (its real decoder runs on the concrete bytes, nothing of it is interpreted); YAML-only features (anchors, tags, non-string keys) are outside",
		Panic:  "inconclusive"})
	for _, id := range []string{"C01", "C02", "C03", "C04", "C05", "C08", "C10", "C13"} {
		p := properties[id]
		p.Units = append(p.Units, parsedUnit(id+"."))
	}
}

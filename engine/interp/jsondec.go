package interp

// encoding/json.Unmarshal on CONCRETE bytes into interpreter values (schema files served by
// the virtual file system to the real loaders and parser, C12/C16/C18 main.go units).
//
// The JSON text is tokenised by the real encoding/json; the walk over the target type
// follows encoding/json's rules for the subset the repository's types need: custom
// UnmarshalJSON methods (interpreted, called with the raw bytes of the sub-value), pointers,
// structs (json tags, case-insensitive fallback, embedded structs with promotion and
// shadowing), maps with string keys, slices, strings, booleans, numbers, interface{}.
// Type mismatches give an error value with encoding/json's wording; anything outside the
// subset is UNSUPPORTED.

import (
	"bytes"
	"encoding/json"
	"fmt"
	"go/types"
	"reflect"
	"strconv"
	"strings"
	"time"

	goyaml "github.com/goccy/go-yaml"
	yamlv3 "gopkg.in/yaml.v3"
)

type jsonDec struct {
	i  *interpreter
	fr *frame
}

// concreteBytes extracts a Go byte slice from an interpreter []byte value without symbolic
// elements.
func concreteBytes(v value) ([]byte, bool) {
	switch x := v.(type) {
	case []value:
		out := make([]byte, len(x))
		for k, e := range x {
			b, ok := e.(byte)
			if !ok {
				return nil, false
			}
			out[k] = b
		}
		return out, true
	case string:
		return []byte(x), true
	}
	return nil, false
}

func (i *interpreter) jsonUnmarshalConcrete(fr *frame, data []byte, target iface) value {
	var probe interface{}
	if err := json.Unmarshal(data, &probe); err != nil {
		return i.mkError(err.Error())
	}
	pt, ok := target.t.Underlying().(*types.Pointer)
	if target.t == nil || !ok {
		return i.mkError("json: Unmarshal(non-pointer " + typeString(target.t) + ")")
	}
	cell, _ := target.v.(*value)
	if cell == nil {
		return i.mkError("json: Unmarshal(nil " + typeString(target.t) + ")")
	}
	d := &jsonDec{i: i, fr: fr}
	if err := d.dec(json.RawMessage(bytes.TrimSpace(data)), pt.Elem(), cell); err != nil {
		return err
	}
	return iface{}
}

func (d *jsonDec) unmarshalerOf(t types.Type) *types.Func {
	if _, isNamed := types.Unalias(t).(*types.Named); !isNamed {
		return nil
	}
	ms := d.i.prog.MethodSets.MethodSet(types.NewPointer(t))
	sel := ms.Lookup(nil, "UnmarshalJSON")
	if sel == nil {
		return nil
	}
	f, _ := sel.Obj().(*types.Func)
	return f
}

func jsonKindName(raw json.RawMessage) string {
	if len(raw) == 0 {
		return "value"
	}
	switch raw[0] {
	case '{':
		return "object"
	case '[':
		return "array"
	case '"':
		return "string"
	case 't', 'f':
		return "bool"
	case 'n':
		return "null"
	}
	return "number"
}

func (d *jsonDec) typeErr(raw json.RawMessage, t types.Type) value {
	return d.i.mkError("json: cannot unmarshal " + jsonKindName(raw) + " into Go value of type " + typeString(t))
}

// dec fills *cell (of type t) from raw.  It returns a non-nil interpreter error or nil.
func (d *jsonDec) dec(raw json.RawMessage, t types.Type, cell *value) value {
	isNull := string(raw) == "null"
	if _, isPtr := t.Underlying().(*types.Pointer); !isPtr {
		if mf := d.unmarshalerOf(t); mf != nil {
			progMu.RLock()
			fn := d.i.prog.FuncValue(mf)
			progMu.RUnlock()
			if fn == nil || !d.i.m.interpreted(fn) {
				panic(unsupported("json.Unmarshal of concrete bytes into a library type with its own UnmarshalJSON: " + typeString(t)))
			}
			if *cell == nil {
				*cell = zero(t)
			}
			res := call(d.i, d.fr, 0, fn, []value{cell, bytesVal(raw)})
			if e, ok := res.(iface); ok && e.t != nil {
				return e
			}
			return nil
		}
	}
	switch u := t.Underlying().(type) {
	case *types.Pointer:
		if isNull {
			*cell = zero(t)
			return nil
		}
		p, _ := (*cell).(*value)
		if p == nil {
			nv := zero(u.Elem())
			p = &nv
			*cell = p
		}
		return d.dec(raw, u.Elem(), p)
	case *types.Basic:
		if isNull {
			return nil // null leaves non-pointer values unchanged
		}
		return d.decBasic(raw, t, u, cell)
	case *types.Interface:
		if !u.Empty() {
			panic(unsupported("json.Unmarshal into non-empty interface " + typeString(t)))
		}
		var g interface{}
		if err := json.Unmarshal(raw, &g); err != nil {
			return d.i.mkError(err.Error())
		}
		*cell = d.fromGeneric(g)
		return nil
	case *types.Slice:
		if isNull {
			*cell = zero(t)
			return nil
		}
		if b, ok := u.Elem().Underlying().(*types.Basic); ok && b.Kind() == types.Uint8 {
			panic(unsupported("json.Unmarshal into []byte"))
		}
		if raw[0] != '[' {
			return d.typeErr(raw, t)
		}
		var elems []json.RawMessage
		if err := json.Unmarshal(raw, &elems); err != nil {
			return d.i.mkError(err.Error())
		}
		out := make([]value, len(elems))
		for k, e := range elems {
			out[k] = zero(u.Elem())
			if err := d.dec(e, u.Elem(), &out[k]); err != nil {
				return err
			}
		}
		*cell = out
		return nil
	case *types.Struct:
		if isNull {
			return nil
		}
		if raw[0] != '{' {
			return d.typeErr(raw, t)
		}
		st, _ := (*cell).(structure)
		if st == nil {
			st = zero(t).(structure)
			*cell = st
		}
		keys, vals, err := orderedMembers(raw)
		if err != nil {
			return d.i.mkError(err.Error())
		}
		return d.decStruct(keys, vals, u, st, nil)
	case *types.Map:
		if isNull {
			*cell = zero(t)
			return nil
		}
		if raw[0] != '{' {
			return d.typeErr(raw, t)
		}
		if kb, ok := u.Key().Underlying().(*types.Basic); !ok || kb.Kind() != types.String {
			panic(unsupported("json.Unmarshal into map with non-string keys"))
		}
		keys, vals, err := orderedMembers(raw)
		if err != nil {
			return d.i.mkError(err.Error())
		}
		if mapIsNil(*cell) {
			*cell = makeMap(u.Key(), int64(len(keys)))
		}
		for k, key := range keys {
			var v value = zero(u.Elem())
			if err := d.dec(vals[k], u.Elem(), &v); err != nil {
				return err
			}
			mapSet(*cell, key, v)
		}
		return nil
	}
	panic(unsupported("json.Unmarshal of concrete bytes into " + typeString(t)))
}

// orderedMembers splits a JSON object into its members in document order.
func orderedMembers(raw json.RawMessage) ([]string, []json.RawMessage, error) {
	dec := json.NewDecoder(bytes.NewReader(raw))
	if _, err := dec.Token(); err != nil {
		return nil, nil, err
	}
	var keys []string
	var vals []json.RawMessage
	for dec.More() {
		tk, err := dec.Token()
		if err != nil {
			return nil, nil, err
		}
		key, _ := tk.(string)
		var v json.RawMessage
		if err := dec.Decode(&v); err != nil {
			return nil, nil, err
		}
		keys = append(keys, key)
		vals = append(vals, v)
	}
	return keys, vals, nil
}

func jsonFieldKey(u *types.Struct, k int) (string, bool) {
	f := u.Field(k)
	tag := reflect.StructTag(u.Tag(k)).Get("json")
	if tag == "-" || !f.Exported() || (f.Anonymous() && tag == "") {
		return "", false
	}
	name := f.Name()
	if tag != "" {
		if p := strings.Split(tag, ",")[0]; p != "" {
			name = p
		}
	}
	return name, true
}

// decStruct: shadowed holds the keys taken by shallower fields.
func (d *jsonDec) decStruct(keys []string, vals []json.RawMessage, u *types.Struct, st structure, shadowed map[string]bool) value {
	own := map[string]bool{}
	for k := 0; k < u.NumFields(); k++ {
		if nm, ok := jsonFieldKey(u, k); ok {
			own[nm] = true
		}
	}
	// the member a field name binds to: exact match first, then case-insensitive; the last
	// occurrence of a duplicate key wins
	find := func(name string) (json.RawMessage, bool) {
		var got json.RawMessage
		found := false
		for k, key := range keys {
			if key == name {
				got, found = vals[k], true
			}
		}
		if found {
			return got, true
		}
		for k, key := range keys {
			if strings.EqualFold(key, name) {
				got, found = vals[k], true
			}
		}
		return got, found
	}
	for k := 0; k < u.NumFields(); k++ {
		if nm, ok := jsonFieldKey(u, k); ok && shadowed[nm] {
			continue
		}
		f := u.Field(k)
		tag := reflect.StructTag(u.Tag(k)).Get("json")
		if tag == "-" {
			continue
		}
		if f.Anonymous() && tag == "" {
			ft := f.Type()
			pt, isPtr := ft.Underlying().(*types.Pointer)
			if isPtr {
				ft = pt.Elem()
			}
			su, isStruct := ft.Underlying().(*types.Struct)
			if !isStruct || d.unmarshalerOf(ft) != nil {
				panic(unsupported("json.Unmarshal into embedded field " + f.Name()))
			}
			inner := map[string]bool{}
			for key := range own {
				inner[key] = true
			}
			for key := range shadowed {
				inner[key] = true
			}
			if isPtr {
				anyPresent := false
				for j := 0; j < su.NumFields(); j++ {
					if nm, ok := jsonFieldKey(su, j); ok && !inner[nm] {
						if _, has := find(nm); has {
							anyPresent = true
						}
					}
				}
				if !anyPresent {
					continue
				}
				p, _ := st[k].(*value)
				if p == nil {
					nv := zero(ft)
					p = &nv
					st[k] = p
				}
				if err := d.decStruct(keys, vals, su, (*p).(structure), inner); err != nil {
					return err
				}
			} else if err := d.decStruct(keys, vals, su, st[k].(structure), inner); err != nil {
				return err
			}
			continue
		}
		nm, ok := jsonFieldKey(u, k)
		if !ok {
			continue
		}
		raw, has := find(nm)
		if !has {
			continue
		}
		if err := d.dec(raw, f.Type(), &st[k]); err != nil {
			return err
		}
	}
	return nil
}

func (d *jsonDec) decBasic(raw json.RawMessage, t types.Type, b *types.Basic, cell *value) value {
	switch {
	case b.Kind() == types.String:
		if raw[0] != '"' {
			return d.typeErr(raw, t)
		}
		var s string
		if err := json.Unmarshal(raw, &s); err != nil {
			return d.i.mkError(err.Error())
		}
		*cell = s
	case b.Kind() == types.Bool:
		if raw[0] != 't' && raw[0] != 'f' {
			return d.typeErr(raw, t)
		}
		*cell = raw[0] == 't'
	case b.Info()&types.IsFloat != 0:
		if jsonKindName(raw) != "number" {
			return d.typeErr(raw, t)
		}
		f, err := strconv.ParseFloat(string(raw), 64)
		if err != nil {
			return d.i.mkError("json: cannot unmarshal number " + string(raw) + " into Go value of type " + typeString(t))
		}
		if b.Kind() == types.Float32 {
			*cell = float32(f)
		} else {
			*cell = f
		}
	case b.Info()&types.IsInteger != 0:
		if jsonKindName(raw) != "number" {
			return d.typeErr(raw, t)
		}
		rv := reflect.New(rtypeOf(b)).Elem()
		if b.Info()&types.IsUnsigned != 0 {
			n, err := strconv.ParseUint(string(raw), 10, 64)
			if err != nil || rv.OverflowUint(n) {
				return d.i.mkError("json: cannot unmarshal number " + string(raw) + " into Go value of type " + typeString(t))
			}
			rv.SetUint(n)
		} else {
			n, err := strconv.ParseInt(string(raw), 10, 64)
			if err != nil || rv.OverflowInt(n) {
				return d.i.mkError("json: cannot unmarshal number " + string(raw) + " into Go value of type " + typeString(t))
			}
			rv.SetInt(n)
		}
		*cell = rv.Interface()
	default:
		panic(unsupported("json.Unmarshal into basic type " + typeString(t)))
	}
	return nil
}

// fromGeneric converts a decoded interface{} tree into interpreter values.
func (d *jsonDec) fromGeneric(g interface{}) value {
	switch x := g.(type) {
	case nil:
		return iface{}
	case bool:
		return iface{t: types.Typ[types.Bool], v: x}
	case float64:
		return iface{t: types.Typ[types.Float64], v: x}
	case string:
		return iface{t: types.Typ[types.String], v: x}
	case []interface{}:
		out := make([]value, len(x))
		for k, e := range x {
			out[k] = d.fromGeneric(e)
		}
		return iface{t: d.i.m.sliceOfAny(), v: out}
	case map[string]interface{}:
		m := makeMap(types.Typ[types.String], int64(len(x)))
		for k, e := range x {
			mapSet(m, k, d.fromGeneric(e))
		}
		return iface{t: d.i.m.mapOfAny(), v: m}
	}
	panic(unsupported(fmt.Sprintf("json generic value %T", g)))
}

// ---- YAML schema files (goccy/go-yaml) and json.Marshal of generic values ----
//
// FromYAMLReader decodes the file generically with goccy/go-yaml, fixes map keys, marshals the
// result to JSON and hands that to the JSON parser.  For a virtual file with concrete content
// the real goccy decoder is run on the bytes (it is a library: its result is converted to
// interpreter values, nothing of it is interpreted); json.Marshal is the real one on the
// converted-back generic tree.

func (d *jsonDec) fromYAMLGeneric(g interface{}) value {
	switch x := g.(type) {
	case nil:
		return iface{}
	case bool:
		return iface{t: types.Typ[types.Bool], v: x}
	case string:
		return iface{t: types.Typ[types.String], v: x}
	case float64:
		return iface{t: types.Typ[types.Float64], v: x}
	case int:
		return iface{t: types.Typ[types.Int], v: x}
	case int64:
		return iface{t: types.Typ[types.Int64], v: x}
	case uint64:
		return iface{t: types.Typ[types.Uint64], v: x}
	case []interface{}:
		out := make([]value, len(x))
		for k, e := range x {
			out[k] = d.fromYAMLGeneric(e)
		}
		return iface{t: d.i.m.sliceOfAny(), v: out}
	case map[string]interface{}:
		m := makeMap(types.Typ[types.String], int64(len(x)))
		for k, e := range x {
			mapSet(m, k, d.fromYAMLGeneric(e))
		}
		return iface{t: d.i.m.mapOfAny(), v: m}
	case map[interface{}]interface{}:
		// (what some YAML libraries produce for mappings with a key that is not a string)
		anyT := types.NewInterfaceType(nil, nil).Complete()
		m := makeMap(anyT, int64(len(x)))
		for k, e := range x {
			mapSet(m, d.fromYAMLGeneric(k), d.fromYAMLGeneric(e))
		}
		return iface{t: types.NewMap(anyT, anyT), v: m}
	case time.Time:
		// (an unquoted timestamp-looking scalar in some YAML libraries): carried opaquely
		if tp := d.i.prog.ImportedPackage("time"); tp != nil {
			return iface{t: tp.Type("Time").Type(), v: opaqueGo{x}}
		}
	}
	panic(unsupported(fmt.Sprintf("YAML value of type %T (custom tags are outside the model)", g)))
}

// opaqueGo carries a Go value of a library type through interpreted code that only passes it on.
type opaqueGo struct{ v interface{} }

// genericToGo converts an interpreter value that is a generic JSON-like tree back to Go.
func genericToGo(v value) interface{} {
	switch x := v.(type) {
	case iface:
		if x.t == nil {
			return nil
		}
		return genericToGo(x.v)
	case nil:
		return nil
	case bool, string, int, int8, int16, int32, int64, uint, uint8, uint16, uint32, uint64, float32, float64:
		return x
	case []value:
		out := make([]interface{}, len(x))
		for k, e := range x {
			out[k] = genericToGo(e)
		}
		return out
	case opaqueGo:
		return x.v
	case *hashmap:
		// a map keyed by interface values: handed to the real json.Marshal as such (it refuses it)
		out := map[interface{}]interface{}{}
		if x != nil {
			for _, head := range x.entries() {
				for e := head; e != nil; e = e.next {
					out[genericToGo(e.key)] = genericToGo(e.value)
				}
			}
		}
		return out
	case map[value]value:
		if x == nil {
			return map[string]interface{}(nil)
		}
		out := map[string]interface{}{}
		for k, e := range x {
			ks, ok := k.(string)
			if !ok {
				panic(unsupported("json.Marshal of a map with non-string keys"))
			}
			out[ks] = genericToGo(e)
		}
		return out
	}
	panic(unsupported(fmt.Sprintf("json.Marshal of %T (only generic trees are modelled)", v)))
}

func init() {
	natives["encoding/json.Marshal"] = func(fr *frame, a []value) value {
		if fr.i.x != nil && fr.i.x.inMarshalBack > 0 {
			// inside an interpreted MarshalJSON during the marshal-back walk: hand the value on
			it := a[0].(iface)
			return tuple{marshalTok{t: it.t, v: it.v}, iface{}}
		}
		b, err := json.Marshal(genericToGo(a[0]))
		if err != nil {
			return tuple{[]value(nil), fr.i.mkError(err.Error())}
		}
		return tuple{bytesVal(b), iface{}}
	}
	natives["github.com/goccy/go-yaml.NewDecoder"] = func(fr *frame, a []value) value {
		r := a[0].(iface)
		f := fr.i.handleOf(r.v)
		if f == nil {
			panic(unsupported("yaml.NewDecoder on a reader that is not a virtual file: " + typeString(r.t)))
		}
		var cell value = structure{f}
		return &cell
	}
	natives["gopkg.in/yaml.v3.NewDecoder"] = natives["github.com/goccy/go-yaml.NewDecoder"]
	natives["(*gopkg.in/yaml.v3.Decoder).Decode"] = func(fr *frame, a []value) value {
		return yamlDecodeWith(fr, a, func(data []byte, g *map[string]interface{}) error { return yamlv3.Unmarshal(data, g) })
	}
	natives["(*github.com/goccy/go-yaml.Decoder).Decode"] = func(fr *frame, a []value) value {
		return yamlDecodeWith(fr, a, func(data []byte, g *map[string]interface{}) error { return goyaml.Unmarshal(data, g) })
	}
}

// yamlDecodeWith: Decode of a virtual file into *map[string]interface{} by the real library the
// code names (run on the concrete bytes; the result is converted to interpreter values).
func yamlDecodeWith(fr *frame, a []value, unmarshal func([]byte, *map[string]interface{}) error) value {
	{
		p, _ := a[0].(*value)
		f, _ := (*p).(structure)[0].(*vfsFile)
		if f == nil || f.data == nil {
			return fr.i.mkError("EOF")
		}
		data := f.data
		f.data = nil
		target := a[1].(iface)
		pt, ok := target.t.Underlying().(*types.Pointer)
		if !ok {
			return fr.i.mkError("yaml: Decode(non-pointer)")
		}
		mt, ok := pt.Elem().Underlying().(*types.Map)
		if !ok || !types.Identical(mt, fr.i.m.mapOfAny()) {
			panic(unsupported("yaml Decode into " + typeString(pt.Elem()) + " (only map[string]interface{} is modelled)"))
		}
		var g map[string]interface{}
		if err := unmarshal(data, &g); err != nil {
			return fr.i.mkError(err.Error())
		}
		d := &jsonDec{i: fr.i, fr: fr}
		cell := target.v.(*value)
		if g == nil {
			*cell = zero(pt.Elem())
			return iface{}
		}
		*cell = d.fromYAMLGeneric(g).(iface).v
		return iface{}
	}
}

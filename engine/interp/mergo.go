package interp

// Model of dario.cat/mergo v1.0.1 Merge(dst, src, opts...) as the repository uses it
// (pkg/schemas.MergeTypes): Overwrite=false, AppendSlice, a transformer for
// schemas.TypeList that is a no-op whenever dst is non-nil, and -- if a change adds it --
// WithoutDereference.  Written from merge.go/deepMerge of the pinned version; emptiness of
// symbolic leaves is a fork.  Other options make the call UNSUPPORTED.  (DESIGN §5.3)

import (
	"fmt"
	"go/types"

	"golang.org/x/tools/go/ssa"
)

type mergoOpt struct {
	kind string
	arg  value
}

type mergoCfg struct {
	appendSlice  bool
	noDeref      bool
	transformers value
}

func init() {
	natives["dario.cat/mergo.WithTransformers"] = func(fr *frame, a []value) value {
		return mergoOpt{"transformers", a[0]}
	}
	natives["dario.cat/mergo.Merge"] = func(fr *frame, a []value) value {
		cfg := mergoCfg{}
		opts, _ := a[2].([]value)
		for _, o := range opts {
			switch f := o.(type) {
			case mergoOpt:
				cfg.transformers = f.arg
			case *ssa.Function:
				switch f.String() {
				case "dario.cat/mergo.WithAppendSlice":
					cfg.appendSlice = true
				case "dario.cat/mergo.WithoutDereference":
					cfg.noDeref = true
				default:
					panic(unsupported("mergo option " + f.String()))
				}
			default:
				panic(unsupported(fmt.Sprintf("mergo option %T", o)))
			}
		}
		dst, src := a[0].(iface), a[1].(iface)
		if dst.t == nil || src.t == nil {
			return fr.i.mkError("src and dst must not be nil")
		}
		dpt, ok := dst.t.Underlying().(*types.Pointer)
		if !ok {
			return fr.i.mkError("mergo: dst must be a pointer")
		}
		dcell := dst.v.(*value)
		var sv value = src.v
		st := src.t
		if spt, ok := src.t.Underlying().(*types.Pointer); ok {
			p := src.v.(*value)
			if p == nil {
				return fr.i.mkError("mergo: src is nil")
			}
			sv, st = *p, spt.Elem()
		}
		if !types.Identical(dpt.Elem(), st) {
			return fr.i.mkError("src and dst must be of same type")
		}
		m := &mergoRun{i: fr.i, fr: fr, cfg: cfg, visited: map[*value]bool{}}
		if err := m.deepMerge(dpt.Elem(), dcell, sv, true); err != nil {
			return err
		}
		return iface{}
	}
}

type mergoRun struct {
	i       *interpreter
	fr      *frame
	cfg     mergoCfg
	visited map[*value]bool
}

func (m *mergoRun) isTypeList(t types.Type) bool {
	n, ok := types.Unalias(t).(*types.Named)
	return ok && n.Obj().Name() == "TypeList" && n.Obj().Pkg() != nil && n.Obj().Pkg().Name() == "schemas"
}

// isEmpty is mergo's isEmptyValue(v, shouldDereference).
func (m *mergoRun) isEmpty(t types.Type, v value) bool {
	deref := !m.cfg.noDeref
	if s, ok := v.(sym); ok {
		var zero sym
		switch s.k {
		case sBool:
			return !m.i.x.decide(s)
		case sF64:
			zero = sym{sF64, 0, f64Lit(0)}
		case sReal, sInt:
			return m.i.x.decide(mkBool("(= " + s.t + " 0)"))
		case sBV:
			zero = sym{sBV, s.w, bvLit(s.w, 0)}
		default:
			panic(unsupported("mergo: emptiness of a symbolic string"))
		}
		return m.i.x.decide(symEq(s, zero))
	}
	switch u := t.Underlying().(type) {
	case *types.Basic:
		switch x := v.(type) {
		case bool:
			return !x
		case string:
			return x == ""
		case float64:
			return x == 0
		case float32:
			return x == 0
		default:
			if n, ok := tryInt64(x); ok {
				return n == 0
			}
		}
		return false
	case *types.Slice, *types.Array:
		xs, _ := v.([]value)
		return len(xs) == 0
	case *types.Map:
		ks, _ := mapEntries(v)
		return len(ks) == 0
	case *types.Pointer:
		p, _ := v.(*value)
		if p == nil {
			return true
		}
		if deref {
			return m.isEmpty(u.Elem(), *p)
		}
		return false
	case *types.Interface:
		it := v.(iface)
		if it.t == nil {
			return true
		}
		if deref {
			return m.isEmpty(it.t, it.v)
		}
		return false
	case *types.Signature:
		return funcIsNil(v)
	}
	return false // structs are never empty
}

func exportedField(f *types.Var) bool {
	if !f.Exported() {
		return false
	}
	c := f.Name()[0]
	return !('a' <= c && c <= 'z' || c == '_')
}

// deepMerge merges src into *dst (settable says whether dst.CanSet()).
func (m *mergoRun) deepMerge(t types.Type, dst *value, src value, settable bool) value {
	if dst != nil {
		if m.visited[dst] {
			return nil
		}
		m.visited[dst] = true
	}
	// transformers apply when dst is not a nil reference value
	if m.cfg.transformers != nil && m.isTypeList(t) {
		if xs, _ := (*dst).([]value); xs != nil {
			return nil // typeListTransformer: keep dst
		}
	}
	switch u := t.Underlying().(type) {
	case *types.Struct:
		ds := (*dst).(structure)
		ss := src.(structure)
		mergeable := false
		for k := 0; k < u.NumFields(); k++ {
			if exportedField(u.Field(k)) {
				mergeable = true
			}
		}
		if !mergeable {
			return nil
		}
		for k := 0; k < u.NumFields(); k++ {
			f := u.Field(k)
			if !exportedField(f) {
				continue // unexported fields are never set (CanSet() is false)
			}
			if f.Anonymous() {
				panic(unsupported("mergo: embedded field " + f.Name()))
			}
			if err := m.deepMerge(f.Type(), &ds[k], ss[k], settable); err != nil {
				return err
			}
		}
	case *types.Map:
		if mapIsNil(src) {
			// nothing to merge in (MapKeys of a nil map is empty)
			return nil
		}
		if mapIsNil(*dst) {
			if !settable {
				return nil
			}
			*dst = makeMap(u.Key(), 0)
		}
		sk, svs := mapEntries(src)
		for idx, key := range sk {
			srcEl := svs[idx]
			dstEl, has := mapGet(*dst, key)
			et := u.Elem()
			switch eu := et.Underlying().(type) {
			case *types.Slice:
				sxs, _ := srcEl.([]value)
				if sxs == nil {
					continue
				}
				var dxs []value
				if has {
					dxs, _ = dstEl.([]value)
				}
				if m.cfg.appendSlice {
					dxs = append(append([]value{}, dxs...), sxs...)
				}
				mapSet(*dst, key, dxs)
				_ = eu
				continue
			case *types.Map, *types.Interface:
				if isNilRef(srcEl) {
					continue
				}
			}
			switch et.Underlying().(type) {
			case *types.Struct, *types.Pointer, *types.Map:
				if has {
					el := dstEl
					if err := m.deepMerge(et, &el, srcEl, false); err != nil {
						return err
					}
				}
			}
			if has && !m.isEmpty(et, dstEl) {
				if _, isMap := et.Underlying().(*types.Map); isMap {
					continue
				}
			}
			if !has || m.isEmpty(et, dstEl) {
				mapSet(*dst, key, srcEl)
			}
		}
	case *types.Slice:
		if !settable {
			return nil
		}
		if m.cfg.appendSlice {
			dxs, _ := (*dst).([]value)
			sxs, _ := src.([]value)
			if dxs == nil && sxs == nil {
				return nil
			}
			*dst = append(append([]value{}, dxs...), sxs...)
		} else if m.isEmpty(t, *dst) && !m.isEmpty(t, src) {
			*dst = src
		}
	case *types.Pointer:
		sp, _ := src.(*value)
		if sp == nil {
			return nil
		}
		dp, _ := (*dst).(*value)
		if dp == nil {
			if settable {
				*dst = sp
			}
			return nil
		}
		if !m.cfg.noDeref {
			return m.deepMerge(u.Elem(), dp, *sp, true)
		}
		if _, isStruct := u.Elem().Underlying().(*types.Struct); !isStruct {
			// dst non-nil: nothing to do (no overwrite)
		}
	case *types.Interface:
		si := src.(iface)
		if si.t == nil {
			return nil
		}
		di := (*dst).(iface)
		if di.t == nil {
			if settable {
				*dst = si
			}
			return nil
		}
		// both non-nil: the elements are not settable; nothing changes
	default:
		if m.isEmpty(t, *dst) && !m.isEmpty(t, src) && settable {
			*dst = src
		}
	}
	return nil
}

func isNilRef(v value) bool {
	switch x := v.(type) {
	case nil:
		return true
	case []value:
		return x == nil
	case iface:
		return x.t == nil
	case *value:
		return x == nil
	}
	return mapIsNil(v) && (fmt.Sprintf("%T", v) == "map[interp.value]interp.value" || fmt.Sprintf("%T", v) == "*interp.hashmap")
}

func mapGet(m value, key value) (value, bool) {
	switch mm := m.(type) {
	case map[value]value:
		v, ok := mm[key]
		return v, ok
	case *hashmap:
		if mm == nil {
			return nil, false
		}
		v := mm.lookup(key.(hashable))
		return v, v != nil
	}
	return nil, false
}

func mapSet(m value, key value, v value) {
	switch mm := m.(type) {
	case map[value]value:
		mm[key] = v
	case *hashmap:
		mm.insert(key.(hashable), v)
	}
}

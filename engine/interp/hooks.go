package interp

import (
	"fmt"
	"go/token"
	"go/types"
	"math/big"
	"sort"
	"strings"

	"golang.org/x/tools/go/ssa"
)

// condValue resolves the condition of an ssa.If: concrete, or a fork on a symbolic Bool.
func (i *interpreter) condValue(v value) bool {
	switch v := v.(type) {
	case bool:
		return v
	case sym:
		if v.k == sBool && i.x != nil {
			return i.x.decide(v)
		}
	}
	panic(unsupported(fmt.Sprintf("branch on %T", v)))
}

// gosymCall intercepts calls: intrinsics, natives for functions outside the interpreted
// packages, and bookkeeping.  handled=false means "interpret fn's SSA body".
func (i *interpreter) gosymCall(fr *frame, fn *ssa.Function, args []value) (value, bool) {
	name := fn.String()
	if !i.m.interpreted(fn) {
		if fn.Name() == "init" && fn.Signature.Recv() == nil {
			return nil, true
		}
		if nat := natives[name]; nat != nil {
			return nat(fr, args), true
		}
		if o := fn.Origin(); o != nil {
			if nat := natives[o.String()]; nat != nil {
				return nat(fr, args), true
			}
		}
		if ext := externals[name]; ext != nil {
			return ext(fr, args), true
		}
		panic(unsupported("external function " + name))
	}
	if fn.Blocks == nil {
		// bodiless declaration in an interpreted package: an intrinsic
		if nat := natives[name]; nat != nil {
			return nat(fr, args), true
		}
		panic(unsupported("bodiless function " + name))
	}
	if nat := overrides[name]; nat != nil {
		if r := nat(fr, args); r != (notHandled{}) {
			return r, true
		}
	}
	if i.funcCalls == nil {
		i.funcCalls = map[string]int{}
	}
	i.funcCalls[name]++
	return nil, false
}

// overrides replace interpreted functions when they apply (they return notHandled{} to
// fall through to interpretation).
var overrides = map[string]natfn{}

type notHandled struct{}

func init() {
	// pkg/types.SerializableDate/Time parse bytes with package time: when the argument is a
	// symbolic document the contract stub for library text formats is used instead (null is
	// a no-op, a string satisfying the format predicate decodes, anything else fails).
	// schemas.TypeList.UnmarshalJSON peeks at the first byte to tell a list from a string; on a
	// symbolic document the same decision is the node's kind.
	overrides["(*"+RepoModule+"/pkg/schemas.TypeList).UnmarshalJSON"] = func(fr *frame, a []value) value {
		ref, ok := a[1].(docRef)
		if !ok {
			return notHandled{}
		}
		x := fr.i.x
		n := ref.n
		cell := a[0].(*value)
		switch {
		case x.decide(n.kindIs(kArray)):
			c := &decodeCtx{i: fr.i, fr: fr, tag: "json", errAcc: mkBool("false")}
			ln := c.forkLen(n)
			out := make([]value, ln)
			for k := 0; k < ln; k++ {
				el := n.child(fmt.Sprint(k))
				x.assumeQuiet(symNot(el.kindIs(kAbsent)))
				if !x.decide(el.kindIs(kString)) {
					return fr.i.mkError("failed to unmarshal type list: json: cannot unmarshal non-string into Go value of type string")
				}
				out[k] = el.strv()
			}
			*cell = out
			return iface{}
		case x.decide(n.kindIs(kString)):
			sv := n.strv()
			if x.decide(symEq(sv, asTerm(""))) {
				*cell = []value(nil)
			} else {
				*cell = []value{sv}
			}
			return iface{}
		case x.decide(n.kindIs(kNull)):
			// json.Unmarshal("null", &s) leaves s == "" -> *t = nil
			*cell = []value(nil)
			return iface{}
		}
		return fr.i.mkError("failed to unmarshal type list: json: cannot unmarshal value into Go value of type string")
	}
	for _, tn := range []string{"SerializableDate", "SerializableTime"} {
		tn := tn
		overrides["(*"+RepoModule+"/pkg/types."+tn+").UnmarshalJSON"] = func(fr *frame, a []value) value {
			ref, ok := a[1].(docRef)
			if !ok {
				return notHandled{}
			}
			x := fr.i.x
			n := ref.n
			if x.decide(n.kindIs(kNull)) {
				return iface{}
			}
			if !x.decide(n.kindIs(kString)) {
				return fr.i.mkError("cannot parse non-string value as a date")
			}
			pred := internPat("format:types." + tn)
			if !x.decide(mkBool("(" + pred + " " + n.strv().t + ")")) {
				return fr.i.mkError("unable to parse date from JSON")
			}
			return iface{}
		}
	}
}

// symIfaceEq handles ==/!= on interface values whose payload is symbolic.
func symIfaceEq(op token.Token, x, y value) (value, bool) {
	// raw-map values of a symbolic document compared with nil
	if dv, ok := x.(docVal); ok {
		if iy, ok := y.(iface); ok && iy.t == nil {
			r := docValIsNil(dv)
			if op == token.NEQ {
				r = symNot(r)
			}
			return simplifyBool(r), true
		}
		panic(unsupported("comparison of a symbolic raw-map value"))
	}
	if dv, ok := y.(docVal); ok {
		if ix, ok := x.(iface); ok && ix.t == nil {
			r := docValIsNil(dv)
			if op == token.NEQ {
				r = symNot(r)
			}
			return simplifyBool(r), true
		}
		panic(unsupported("comparison of a symbolic raw-map value"))
	}
	ix, ok1 := x.(iface)
	iy, ok2 := y.(iface)
	if !ok1 || !ok2 {
		return nil, false
	}
	_, sx := ix.v.(sym)
	_, sy := iy.v.(sym)
	if !sx && !sy {
		return nil, false
	}
	var r sym
	if ix.t == nil || iy.t == nil || !types.Identical(ix.t, iy.t) {
		r = mkBool("false")
	} else {
		r = symEq(asTerm(ix.v), asTerm(iy.v))
	}
	if op == token.NEQ {
		r = symNot(r)
	}
	switch r.t {
	case "true":
		return true, true
	case "false":
		return false, true
	}
	return r, true
}

// ---- deterministic (or schedule-choice) map iteration ----

type sliceIter struct {
	keys, vals []value
	pos        int
}

func (it *sliceIter) next() tuple {
	if it.pos >= len(it.keys) {
		return []value{false, nil, nil}
	}
	k, v := it.keys[it.pos], it.vals[it.pos]
	it.pos++
	return []value{true, k, v}
}

func (i *interpreter) rangeIterX(x value, t types.Type) iter {
	switch x.(type) {
	case map[value]value, *hashmap:
		keys, vals := mapEntries(x)
		if _, isHM := x.(*hashmap); isHM && len(keys) > 1 {
			// keys of interface/struct type: order them by their printed form
			idx := make([]int, len(keys))
			for k := range idx {
				idx[k] = k
			}
			strs := make([]string, len(keys))
			for k := range keys {
				strs[k] = fmt.Sprint(i.toNative(nil, nil, keys[k], 0))
			}
			for a := 1; a < len(idx); a++ {
				for b := a; b > 0 && strs[idx[b]] < strs[idx[b-1]]; b-- {
					idx[b], idx[b-1] = idx[b-1], idx[b]
				}
			}
			nk, nv := make([]value, len(keys)), make([]value, len(keys))
			for a, k := range idx {
				nk[a], nv[a] = keys[k], vals[k]
			}
			keys, vals = nk, nv
		}
		if len(keys) > 1 {
			if _, isPtr := keys[0].(*value); isPtr {
				panic(unsupported("range over a pointer-keyed map with more than one entry"))
			}
		}
		if i.m != nil && i.m.MapOrderChoice && !i.mapOrderFrozen && i.x != nil && len(keys) > 1 && i.callerIsRepo() {
			if len(keys) > i.m.MapOrderMaxLen {
				panic(boundErr{fmt.Sprintf("map with %d entries exceeds schedule bound K=%d", len(keys), i.m.MapOrderMaxLen)})
			}
			// choose a permutation: Fisher-Yates driven by free choices
			for a := 0; a < len(keys)-1; a++ {
				c := a + i.x.choose(len(keys)-a)
				keys[a], keys[c] = keys[c], keys[a]
				vals[a], vals[c] = vals[c], vals[a]
			}
		}
		return &sliceIter{keys: keys, vals: vals}
	case *docMap:
		// the members of a symbolic object: every key the program has asked about so far (in
		// canonical order) and the E extra members, each present or not (a fork per candidate);
		// keys nobody has named are represented by the extras
		x := x.(*docMap)
		if x.n.base != nil || x.n.wrapOf != nil {
			panic(unsupported("range over a renamed view of a symbolic document"))
		}
		var cand []string
		for k := range x.n.kids {
			if !strings.HasPrefix(k, "+") {
				cand = append(cand, k)
			}
		}
		sort.Strings(cand)
		for k := 0; k < i.x.docExtra(); k++ {
			cand = append(cand, fmt.Sprintf("+%d", k))
		}
		var keys, vals []value
		for _, k := range cand {
			if x.deleted[k] {
				continue
			}
			c := x.n.child(k)
			if i.x.decide(symNot(c.kindIs(kAbsent))) {
				keys = append(keys, k)
				vals = append(vals, docVal{c})
			}
		}
		return &sliceIter{keys: keys, vals: vals}
	}
	return rangeIter(x, t)
}

// callerIsRepo reports whether the innermost interpreted function belongs to the
// repository proper (not to a harness file or the standard library).
func (i *interpreter) callerIsRepo() bool {
	if len(i.callStack) == 0 {
		return false
	}
	fn := i.callStack[len(i.callStack)-1]
	for fn.Parent() != nil {
		fn = fn.Parent()
	}
	if !strings.HasPrefix(ssaFuncPkgPath(fn), RepoModule) {
		return false
	}
	if fn.Pos().IsValid() {
		f := i.prog.Fset.Position(fn.Pos()).Filename
		if strings.Contains(f, "zz_verif_") || strings.Contains(f, "/internal/zzvrt/") {
			return false
		}
	}
	return true
}

func isRuneStr(v value) bool { _, ok := v.(runeStr); return ok }

func init() {
	// math/bits.Len*: interpreted from the standard library's source for concrete arguments (table
	// look-ups); for a symbolic argument the result is the chain of threshold tests it denotes
	lenOf := func(width int) natfn {
		return func(fr *frame, a []value) value {
			x, ok := a[0].(sym)
			if !ok {
				return notHandled{}
			}
			switch x.k {
			case sInt:
				t := "0"
				for k := 1; k <= width; k++ {
					t = "(ite (>= " + x.t + " " + new(big.Int).Lsh(big.NewInt(1), uint(k-1)).String() + ") " + fmt.Sprint(k) + " " + t + ")"
				}
				return sym{sInt, 0, t}
			case sBV:
				t := fmt.Sprintf("#x%016x", 0)
				for k := 1; k <= width && k <= x.w; k++ {
					lim := new(big.Int).Lsh(big.NewInt(1), uint(k-1))
					t = fmt.Sprintf("(ite (bvuge %s (_ bv%s %d)) #x%016x %s)", x.t, lim.String(), x.w, k, t)
				}
				return sym{sBV, 64, t}
			}
			return notHandled{}
		}
	}
	overrides["math/bits.Len64"] = lenOf(64)
	overrides["math/bits.Len32"] = lenOf(32)
	overrides["math/bits.Len16"] = lenOf(16)
	overrides["math/bits.Len8"] = lenOf(8)
	overrides["math/bits.Len"] = lenOf(64)
}

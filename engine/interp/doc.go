package interp

// Symbolic documents and the decode stubs for encoding/json and yaml.v3 (DESIGN §5.1, §5.3).
//
// A document is a lazily grown tree of nodes.  Every node has symbolic attributes named
// after its path (so that the harness' reference model and the decode stub talk about the
// same variables regardless of the order in which they touch the node):
//
//	kind  : BitVec 8  -- 0 absent, 1 null, 2 bool, 3 number, 4 string, 5 array, 6 object
//	b     : Bool
//	i     : BitVec 64 -- the number when it is decoded into an integer type (requires isint)
//	isint : Bool      -- the number is integral
//	f     : float64   -- the number when it is decoded into float64 / interface{}
//	s     : string atom (blen, rlen, match predicates)
//	len   : BitVec 64 -- array length, 0..N
//
// Stated modelling assumptions: numbers are int64/float64 values (no arbitrary-precision
// decimals, integers within [-2^63, 2^63)); i and f are two views of a node that no single
// decode uses together; no duplicate keys; no keys that differ from a declared key only by
// case; strings are valid UTF-8.

import (
	"fmt"
	"go/types"
	"reflect"
	"strings"
)

const (
	kAbsent = 0
	kNull   = 1
	kBool   = 2
	kNumber = 3
	kString = 4
	kArray  = 5
	kObject = 6
)

type docNode struct {
	e     *Explorer
	doc   int
	path  string
	kids  map[string]*docNode
	root  *docNode
	isTop bool

	// aliasing (C13): this node is a renamed view of base; child(k) maps k through rename,
	// keys that were renamed away are absent; wrap: this node is an array [base]
	base   *docNode
	rename map[string]string // view key -> base key
	away   map[string]bool   // base keys hidden in the view
	wrapOf *docNode
}

func (e *Explorer) newDoc() *docNode {
	n := &docNode{e: e, doc: len(e.docs), kids: map[string]*docNode{}, isTop: true}
	n.root = n
	e.docs = append(e.docs, n)
	k := n.kind()
	// a document is never "absent"; kind in 1..6
	e.PC = append(e.PC, "(bvuge "+k.t+" #x01)", "(bvule "+k.t+" #x06)")
	return n
}

func (n *docNode) name(attr string) string {
	if n.base != nil {
		return n.base.name(attr)
	}
	p := strings.NewReplacer("/", "!", "+", "x", " ", "_", "-", "_", ".", "_", "$", "S").Replace(n.path)
	var sb strings.Builder
	for _, r := range p {
		if (r >= 'a' && r <= 'z') || (r >= 'A' && r <= 'Z') || (r >= '0' && r <= '9') || r == '!' || r == '_' {
			sb.WriteRune(r)
		} else {
			fmt.Fprintf(&sb, "u%x", r)
		}
	}
	return fmt.Sprintf("d%d!%s.%s", n.doc, sb.String(), attr)
}

func (n *docNode) child(key string) *docNode {
	if c, ok := n.kids[key]; ok {
		return c
	}
	if n.wrapOf != nil && key == "0" {
		n.kids[key] = n.wrapOf
		return n.wrapOf
	}
	if n.base != nil {
		bk, renamed := n.rename[key]
		if !renamed {
			bk = key
		}
		var c *docNode
		if n.away[key] && !renamed {
			// the base's key of this name is not visible in the view: absent
			c = &docNode{e: n.e, doc: n.doc, path: n.path + "/" + key + "~away", kids: map[string]*docNode{}, root: n.root}
			n.e.PC = append(n.e.PC, c.kindIs(kAbsent).t)
		} else {
			b := n.base.child(bk)
			c = &docNode{e: n.e, doc: n.doc, path: n.path + "/" + key, kids: map[string]*docNode{}, root: n.root,
				base: b, rename: n.rename, away: n.away}
		}
		n.kids[key] = c
		return c
	}
	p := key
	if n.path != "" {
		p = n.path + "/" + key
	}
	c := &docNode{e: n.e, doc: n.doc, path: p, kids: map[string]*docNode{}, root: n.root}
	n.kids[key] = c
	k := c.kind()
	n.e.PC = append(n.e.PC, "(bvule "+k.t+" #x06)")
	return c
}

// at resolves a slash-separated path below n.
func (n *docNode) at(path string) *docNode {
	cur := n
	if path == "" {
		return cur
	}
	for _, p := range strings.Split(path, "/") {
		cur = cur.child(p)
	}
	return cur
}

func (n *docNode) kind() sym {
	if n.wrapOf != nil {
		return sym{sBV, 8, bvLit(8, kArray)}
	}
	if n.base != nil {
		return n.base.kind()
	}
	return n.e.named(n.name("kind"), sBV, 8)
}
func (n *docNode) boolv() sym { return n.e.named(n.name("b"), sBool, 0) }
func (n *docNode) intv() sym {
	if n.base != nil {
		return n.base.intv()
	}
	name := n.name("i")
	if _, ok := n.e.gridParam(); ok {
		if !n.e.declared[name] {
			n.e.declare(name, sInt, 0)
			lim := fmt.Sprint(int64(1) << uint(n.e.gridMag()))
			n.e.PC = append(n.e.PC, "(<= (- "+lim+") "+name+")", "(<= "+name+" "+lim+")")
			n.linkNumberViews()
		}
		return sym{sInt, 0, name}
	}
	return n.e.named(name, sBV, 64)
}
// linkNumberViews (exact-grid mode): a number node is ONE JSON number; when it is written as an
// integer, the value a typed integer field receives (i) and the value an untyped or float
// position receives (f) are the same number.  Added once both views exist.
func (n *docNode) linkNumberViews() {
	ni, nf := n.name("i"), n.name("f")
	if !n.e.declared[ni] || !n.e.declared[nf] || n.e.declared["link:"+ni] {
		return
	}
	n.e.declared["link:"+ni] = true
	n.e.PC = append(n.e.PC, "(=> "+n.isint().t+" (= "+nf+" (* "+gridScale().String()+" "+ni+")))")
}

func (n *docNode) isint() sym { return n.e.named(n.name("isint"), sBool, 0) }
func (n *docNode) strv() sym  { return n.e.named(n.name("s"), sStr, 0) }

func (n *docNode) floatv() sym {
	if n.base != nil {
		return n.base.floatv()
	}
	name := n.name("f")
	if g, ok := n.e.gridParam(); ok {
		_ = g
		if !n.e.declared[name] {
			n.e.declare(name, sStr, 0)
			lim := fmt.Sprint(int64(1) << uint(n.e.gridMag()+gridBits))
			n.e.PC = append(n.e.PC, "(<= (- "+lim+") "+name+")", "(<= "+name+" "+lim+")")
			n.linkNumberViews()
		}
		return sym{sReal, 0, name}
	}
	return n.e.named(name, sF64, 0)
}

func (n *docNode) lenv() sym {
	if n.wrapOf != nil {
		return sym{sBV, 64, bvLit(64, 1)}
	}
	if n.base != nil {
		return n.base.lenv()
	}
	name := n.name("len")
	fresh := !n.e.declared[name]
	s := n.e.named(name, sBV, 64)
	if fresh {
		n.e.PC = append(n.e.PC, "(bvule "+s.t+" "+bvLit(64, uint64(n.e.docMaxLen()))+")")
	}
	return s
}

func (n *docNode) kindIs(k int) sym {
	kv := n.kind()
	// cheap propagation: a kind fixed by an earlier conjunct (= var #xNN) needs no solver call
	if c, ok := n.e.knownConst(kv.t); ok {
		if c == bvLit(8, uint64(k)) {
			return mkBool("true")
		}
		return mkBool("false")
	}
	return symEq(kv, sym{sBV, 8, bvLit(8, uint64(k))})
}

func (e *Explorer) gridParam() (int, bool) {
	if e.params == nil {
		return 0, false
	}
	g, ok := e.params["GRID"]
	return g, ok && g >= 0
}

func (e *Explorer) gridMag() int {
	if r := e.params["GRIDMAG"]; r != 0 {
		return r
	}
	return 36
}

func (e *Explorer) docMaxLen() int {
	if n, ok := e.params["N"]; ok {
		return n
	}
	return 3
}

func (e *Explorer) docExtra() int {
	if n, ok := e.params["E"]; ok {
		return n
	}
	return 1
}

// docRef is the interpreter value standing for the bytes (or *yaml.Node) of a document node.
type docRef struct {
	n      *docNode
	isNull bool // a literal "null" handed to an Unmarshaler by the decoder
}

// docVal is a decoded interface{} value whose dynamic type is still symbolic (only
// comparisons with nil are supported without forcing it).
type docVal struct{ n *docNode }

// docMap is the map[string]interface{} view of an object node.
type docMap struct {
	n       *docNode
	deleted map[string]bool
}

func (d *docMap) length() value { panic(unsupported("len of a symbolic document map")) }

func (d *docMap) lookup(commaOk bool, idx value) value {
	k, ok := idx.(string)
	if !ok {
		panic(unsupported("symbolic key into a document map"))
	}
	c := d.n.child(k)
	present := symNot(c.kindIs(kAbsent))
	if d.deleted[k] {
		present = mkBool("false")
	}
	var v value = docVal{c}
	if commaOk {
		return tuple{v, simplifyBool(present)}
	}
	return v
}

// docValIsNil: a raw-map value is nil iff the member is null (or absent: zero value).
func docValIsNil(v docVal) sym {
	return symOr(v.n.kindIs(kNull), v.n.kindIs(kAbsent))
}

// ---- decode ----

type decodeCtx struct {
	i      *interpreter
	fr     *frame
	yaml   bool
	tag    string
	errAcc sym // symbolic "a type error occurred"
}

// jsonUnmarshal models json.Unmarshal(data, &target) / (*yaml.Node).Decode(&target).
func (i *interpreter) docDecode(fr *frame, ref docRef, target iface, yaml bool) value {
	x := i.x
	n := ref.n
	pt, ok := target.t.Underlying().(*types.Pointer)
	if !ok {
		return i.mkError("json: Unmarshal(non-pointer " + typeString(target.t) + ")")
	}
	cell, _ := target.v.(*value)
	if cell == nil {
		return i.mkError("json: Unmarshal(nil " + typeString(target.t) + ")")
	}
	if n.isTop && !yaml {
		mal := x.named(fmt.Sprintf("d%d!malformed", n.canon().doc), sBool, 0)
		if x.decide(mal) {
			return i.mkError("invalid character (malformed JSON)")
		}
	}
	ctx := &decodeCtx{i: i, fr: fr, yaml: yaml, tag: "json", errAcc: mkBool("false")}
	if yaml {
		ctx.tag = "yaml"
	}
	if ref.isNull {
		// literal null handed down by the decoder: like a null node
		ctx.decodeNull(pt.Elem(), cell)
		return iface{}
	}
	if err := ctx.decode(n, pt.Elem(), cell, true); err != nil {
		return err
	}
	if x.decide(ctx.errAcc) {
		return i.mkError("json: cannot unmarshal value into Go value (type mismatch)")
	}
	return iface{}
}

func (c *decodeCtx) decodeNull(t types.Type, cell *value) {
	switch t.Underlying().(type) {
	case *types.Pointer, *types.Slice, *types.Map, *types.Interface:
		*cell = zero(t)
	}
}

// unmarshalerOf returns the custom unmarshal method of *t, if any.
func (c *decodeCtx) unmarshalerOf(t types.Type) *types.Func {
	name := "UnmarshalJSON"
	if c.yaml {
		name = "UnmarshalYAML"
	}
	if _, isNamed := types.Unalias(t).(*types.Named); !isNamed {
		return nil
	}
	ms := c.i.prog.MethodSets.MethodSet(types.NewPointer(t))
	sel := ms.Lookup(nil, name)
	if sel == nil && !c.yaml {
		// encoding.TextUnmarshaler (e.g. netip.Addr): JSON strings go through UnmarshalText
		sel = ms.Lookup(nil, "UnmarshalText")
	}
	if sel == nil {
		return nil
	}
	f, _ := sel.Obj().(*types.Func)
	return f
}

// decode fills *cell (of type t) from node n.  It returns a non-nil interpreter error value
// when a nested custom unmarshaler failed on this path; plain type mismatches are
// accumulated symbolically in c.errAcc.
func (c *decodeCtx) decode(n *docNode, t types.Type, cell *value, top bool) value {
	x := c.i.x
	// custom unmarshalers first (encoding/json's indirect())
	if _, isPtr := t.Underlying().(*types.Pointer); !isPtr {
		if mf := c.unmarshalerOf(t); mf != nil {
			return c.callUnmarshaler(n, t, cell, mf, top)
		}
	}
	switch u := t.Underlying().(type) {
	case *types.Pointer:
		// absent/null -> nil (untouched nil for absent); otherwise allocate and decode
		nilCond := symOr(n.kindIs(kAbsent), n.kindIs(kNull))
		if x.decide(nilCond) {
			if x.decide(n.kindIs(kNull)) {
				*cell = zero(t)
			}
			return nil
		}
		p, _ := (*cell).(*value)
		if p == nil {
			nv := zero(u.Elem())
			p = &nv
			*cell = p
		}
		return c.decode(n, u.Elem(), p, false)
	case *types.Basic:
		c.decodeBasic(n, t, u, cell)
		return nil
	case *types.Interface:
		if !u.Empty() {
			panic(unsupported("decode into non-empty interface " + typeString(t)))
		}
		c.decodeIface(n, cell)
		return nil
	case *types.Slice:
		if b, ok := u.Elem().Underlying().(*types.Basic); ok && b.Kind() == types.Uint8 {
			panic(unsupported("decode into []byte"))
		}
		isArr := n.kindIs(kArray)
		nilCond := symOr(n.kindIs(kAbsent), n.kindIs(kNull))
		if x.decide(nilCond) {
			if x.decide(n.kindIs(kNull)) {
				*cell = zero(t)
			}
			return nil
		}
		if !x.decide(isArr) {
			c.errAcc = mkBool("true")
			return nil
		}
		ln := c.forkLen(n)
		out := make([]value, ln)
		for k := 0; k < ln; k++ {
			out[k] = zero(u.Elem())
			// array elements are never absent
			el := n.child(fmt.Sprint(k))
			x.assumeQuiet(symNot(el.kindIs(kAbsent)))
			if err := c.decode(el, u.Elem(), &out[k], false); err != nil {
				return err
			}
		}
		*cell = out
		return nil
	case *types.Struct:
		skip := symOr(n.kindIs(kAbsent), n.kindIs(kNull))
		if x.decide(skip) {
			return nil
		}
		if !x.decide(n.kindIs(kObject)) {
			c.errAcc = mkBool("true")
			return nil
		}
		st, _ := (*cell).(structure)
		if st == nil {
			st = zero(t).(structure)
			*cell = st
		}
		return c.decodeStruct(n, u, st)
	case *types.Map:
		nilCond := symOr(n.kindIs(kAbsent), n.kindIs(kNull))
		if x.decide(nilCond) {
			if x.decide(n.kindIs(kNull)) {
				*cell = zero(t)
			}
			return nil
		}
		if !x.decide(n.kindIs(kObject)) {
			c.errAcc = mkBool("true")
			return nil
		}
		if kb, ok := u.Key().Underlying().(*types.Basic); !ok || kb.Kind() != types.String {
			panic(unsupported("decode into map with non-string keys"))
		}
		if ie, ok := u.Elem().Underlying().(*types.Interface); ok && ie.Empty() {
			*cell = &docMap{n: n, deleted: map[string]bool{}}
			return nil
		}
		// typed map: E extra members decoded eagerly into a symMap
		sm := &symMap{n: n, elem: u.Elem()}
		for k := 0; k < x.docExtra(); k++ {
			el := n.child(fmt.Sprintf("+%d", k))
			var v value = zero(u.Elem())
			present := symNot(el.kindIs(kAbsent))
			if x.decide(present) {
				if err := c.decode(el, u.Elem(), &v, false); err != nil {
					return err
				}
				sm.keys = append(sm.keys, el)
				sm.vals = append(sm.vals, v)
			}
		}
		*cell = sm
		return nil
	}
	panic(unsupported("decode into " + typeString(t)))
}

// symMap is a decoded map[string]T whose keys are the extra members of an object node.
type symMap struct {
	n    *docNode
	elem types.Type
	keys []*docNode
	vals []value
}

func (c *decodeCtx) forkLen(n *docNode) int {
	x := c.i.x
	ln := n.lenv()
	max := x.docMaxLen()
	for k := 0; k < max; k++ {
		if x.decide(symEq(ln, sym{sBV, 64, bvLit(64, uint64(k))})) {
			return k
		}
	}
	return max
}

func (c *decodeCtx) decodeBasic(n *docNode, t types.Type, b *types.Basic, cell *value) {
	prior := *cell
	untouched := symOr(n.kindIs(kAbsent), n.kindIs(kNull))
	switch {
	case b.Kind() == types.Bool:
		match := n.kindIs(kBool)
		*cell = simplifyBool(symIte(match, n.boolv(), asTerm(prior)))
		c.errAcc = symOr(c.errAcc, symNot(symOr(untouched, match)))
	case b.Kind() == types.String:
		match := n.kindIs(kString)
		r := symIte(match, n.strv(), asTerm(prior))
		*cell = r
		c.errAcc = symOr(c.errAcc, symNot(symOr(untouched, match)))
	case b.Info()&types.IsInteger != 0:
		match := n.kindIs(kNumber)
		_, w, signed, _ := symSortOf(b)
		iv := n.intv()
		// representable in the target type (document integers are int64 values)
		inRange := mkBool("true")
		switch {
		case iv.k == sInt:
			var lo, hi string
			switch {
			case signed:
				lo, hi = fmt.Sprintf("(- %d)", uint64(1)<<uint(w-1)), fmt.Sprint(uint64(1)<<uint(w-1)-1)
			case w < 64:
				lo, hi = "0", fmt.Sprint(uint64(1)<<uint(w)-1)
			default:
				lo, hi = "0", "18446744073709551615"
			}
			inRange = mkBool("(and (<= " + lo + " " + iv.t + ") (<= " + iv.t + " " + hi + "))")
		case signed && w < 64:
			lo := bvLit(64, uint64(-(int64(1) << uint(w-1))))
			hi := bvLit(64, uint64((int64(1)<<uint(w-1))-1))
			inRange = mkBool("(and (bvsle " + lo + " " + iv.t + ") (bvsle " + iv.t + " " + hi + "))")
		case !signed && w < 64:
			hi := bvLit(64, uint64(1)<<uint(w)-1)
			inRange = mkBool("(and (bvsle #x0000000000000000 " + iv.t + ") (bvsle " + iv.t + " " + hi + "))")
		case !signed:
			inRange = mkBool("(bvsle #x0000000000000000 " + iv.t + ")")
		}
		conv := symConv(b, types.Typ[types.Int64], iv).(sym)
		*cell = symIte(match, conv, asTerm(prior))
		okNum := symAnd(match, symAnd(n.isint(), inRange))
		c.errAcc = symOr(c.errAcc, symNot(symOr(untouched, okNum)))
	case b.Kind() == types.Float64 || b.Kind() == types.Float32:
		match := n.kindIs(kNumber)
		*cell = symIte(match, n.floatv(), asTerm(prior))
		c.errAcc = symOr(c.errAcc, symNot(symOr(untouched, match)))
	default:
		panic(unsupported("decode into basic type " + b.Name()))
	}
	_ = t
}

func (c *decodeCtx) decodeIface(n *docNode, cell *value) {
	c.decodeIfaceD(n, cell, 0)
}

// decodeIfaceD: untyped values are explored to a bounded nesting depth (param D, default 1
// level of arrays below an untyped position); deeper containers are outside the bound.
func (c *decodeCtx) decodeIfaceD(n *docNode, cell *value, depth int) {
	x := c.i.x
	maxD := 1
	if v, ok := x.params["D"]; ok {
		maxD = v
	}
	if depth >= maxD {
		// stated bound: no arrays below this nesting depth at untyped positions
		x.assumeQuiet(symNot(n.kindIs(kArray)))
	}
	// the dynamic type is structural: fork on the kind
	switch {
	case x.decide(n.kindIs(kAbsent)):
		// untouched
	case x.decide(n.kindIs(kNull)):
		*cell = iface{}
	case x.decide(n.kindIs(kBool)):
		*cell = iface{t: types.Typ[types.Bool], v: simplifyBool(n.boolv())}
	case x.decide(n.kindIs(kNumber)):
		if c.yaml {
			// yaml.v3 decodes integral scalars into int and others into float64
			if x.decide(n.isint()) {
				*cell = iface{t: types.Typ[types.Int], v: n.intv()}
			} else {
				*cell = iface{t: types.Typ[types.Float64], v: n.floatv()}
			}
		} else {
			*cell = iface{t: types.Typ[types.Float64], v: n.floatv()}
		}
	case x.decide(n.kindIs(kString)):
		*cell = iface{t: types.Typ[types.String], v: n.strv()}
	case x.decide(n.kindIs(kArray)):
		ln := c.forkLen(n)
		out := make([]value, ln)
		for k := 0; k < ln; k++ {
			el := n.child(fmt.Sprint(k))
			x.assumeQuiet(symNot(el.kindIs(kAbsent)))
			out[k] = iface{}
			c.decodeIfaceD(el, &out[k], depth+1)
		}
		*cell = iface{t: c.i.m.sliceOfAny(), v: out}
	default:
		*cell = iface{t: c.i.m.mapOfAny(), v: &docMap{n: n, deleted: map[string]bool{}}}
	}
}

func (c *decodeCtx) decodeStruct(n *docNode, u *types.Struct, st structure) value {
	return c.decodeStructShadow(n, u, st, nil)
}

// decodeStructShadow: shadowed holds the keys taken by shallower fields (encoding/json: of
// several fields with the same key, the one at the shallowest embedding depth wins).
func (c *decodeCtx) decodeStructShadow(n *docNode, u *types.Struct, st structure, shadowed map[string]bool) value {
	own := map[string]bool{}
	for k := 0; k < u.NumFields(); k++ {
		if nm, ok := c.fieldKey(u, k); ok {
			own[nm] = true
		}
	}
	for k := 0; k < u.NumFields(); k++ {
		if nm, ok := c.fieldKey(u, k); ok && shadowed[nm] {
			continue
		}
		f := u.Field(k)
		tag := reflect.StructTag(u.Tag(k)).Get(c.tag)
		if tag == "-" {
			continue
		}
		name := f.Name()
		if c.yaml {
			name = strings.ToLower(name) // yaml.v3 default key
		}
		if tag != "" {
			parts := strings.Split(tag, ",")
			if parts[0] != "" {
				name = parts[0]
			}
			if c.yaml {
				for _, p := range parts[1:] {
					if p == "inline" {
						panic(unsupported("yaml inline field"))
					}
				}
			}
		}
		if f.Anonymous() && tag == "" {
			// embedded (pointer to) struct without a tag: its fields are promoted.  encoding/json
			// allocates an embedded pointer only when one of the promoted keys is present.
			ft := f.Type()
			pt, isPtr := ft.Underlying().(*types.Pointer)
			if isPtr {
				ft = pt.Elem()
			}
			su, isStruct := ft.Underlying().(*types.Struct)
			if !isStruct || c.unmarshalerOf(ft) != nil {
				panic(unsupported("decode into embedded field " + f.Name()))
			}
			if isPtr {
				anyPresent := mkBool("false")
				inner := map[string]bool{}
				for key := range own {
					inner[key] = true
				}
				for key := range shadowed {
					inner[key] = true
				}
				for j := 0; j < su.NumFields(); j++ {
					if nm, ok := c.fieldKey(su, j); ok && !inner[nm] {
						anyPresent = symOr(anyPresent, symNot(n.child(nm).kindIs(kAbsent)))
					}
				}
				if !c.i.x.decide(anyPresent) {
					continue
				}
				p, _ := st[k].(*value)
				if p == nil {
					nv := zero(ft)
					p = &nv
					st[k] = p
				}
				if err := c.decodeStructShadow(n, su, (*p).(structure), inner); err != nil {
					return err
				}
			} else {
				inner := map[string]bool{}
				for key := range own {
					inner[key] = true
				}
				for key := range shadowed {
					inner[key] = true
				}
				if err := c.decodeStructShadow(n, su, st[k].(structure), inner); err != nil {
					return err
				}
			}
			continue
		}
		if !f.Exported() {
			continue
		}
		if err := c.decode(n.child(name), f.Type(), &st[k], false); err != nil {
			return err
		}
	}
	return nil
}

// fieldKey: the document key a struct field binds to (false: not decoded).
func (c *decodeCtx) fieldKey(u *types.Struct, k int) (string, bool) {
	f := u.Field(k)
	tag := reflect.StructTag(u.Tag(k)).Get(c.tag)
	if tag == "-" || !f.Exported() || (f.Anonymous() && tag == "") {
		return "", false
	}
	name := f.Name()
	if c.yaml {
		name = strings.ToLower(name)
	}
	if tag != "" {
		if p := strings.Split(tag, ",")[0]; p != "" {
			name = p
		}
	}
	return name, true
}

// callUnmarshaler runs a custom UnmarshalJSON/UnmarshalYAML on the sub-document.
func (c *decodeCtx) callUnmarshaler(n *docNode, t types.Type, cell *value, mf *types.Func, top bool) value {
	x := c.i.x
	if x.decide(n.kindIs(kAbsent)) {
		return nil
	}
	progMu.RLock()
	fn := c.i.prog.FuncValue(mf)
	progMu.RUnlock()
	if fn == nil {
		panic(unsupported("no SSA for " + mf.FullName()))
	}
	if c.yaml {
		// yaml.v3 does not call UnmarshalYAML for null nodes of non-pointer targets? It does
		// call it (the node is passed); keep the call.
	}
	if *cell == nil {
		*cell = zero(t)
	}
	if !c.i.m.interpreted(fn) {
		return c.externalUnmarshaler(n, t, cell, mf)
	}
	ref := docRef{n: n}
	res := call(c.i, c.fr, 0, fn, []value{cell, ref})
	if e, ok := res.(iface); ok && e.t != nil {
		return e
	}
	return nil
}

// externalUnmarshaler is the contract stub for library types with their own text formats
// (time.Time, netip.Addr): a JSON string that satisfies the format predicate decodes, null
// is a no-op, anything else is an error.  The decoded value is opaque.
func (c *decodeCtx) externalUnmarshaler(n *docNode, t types.Type, cell *value, mf *types.Func) value {
	x := c.i.x
	if x.decide(n.kindIs(kNull)) {
		return nil
	}
	if !x.decide(n.kindIs(kString)) {
		return c.i.mkError("cannot unmarshal non-string into " + typeString(t))
	}
	pred := internPat("format:" + typeString(t))
	ok := mkBool("(" + pred + " " + n.strv().t + ")")
	if !x.decide(ok) {
		return c.i.mkError("cannot parse value as " + typeString(t))
	}
	// mark the opaque value as "decoded from n": keep the struct but remember the source
	c.i.x.opaqueSrc[cell] = n
	return nil
}

func (m *Machine) sliceOfAny() types.Type {
	return types.NewSlice(types.NewInterfaceType(nil, nil).Complete())
}

func (m *Machine) mapOfAny() types.Type {
	return types.NewMap(types.Typ[types.String], types.NewInterfaceType(nil, nil).Complete())
}

// assumeQuiet adds a modelling constraint without a feasibility query.
func (e *Explorer) assumeQuiet(c sym) {
	if c.t != "true" {
		e.PC = append(e.PC, c.t)
	}
}

// canon: the underlying node of a (chain of) view(s).
func (n *docNode) canon() *docNode {
	for n.base != nil || n.wrapOf != nil {
		if n.base != nil {
			n = n.base
		} else {
			n = n.wrapOf
		}
	}
	return n
}

func (n *docNode) collect(out *[]DocNodeInfo) {
	n.collectAs(out, n.doc, "")
}

// collectAs lists the nodes of a (possibly aliased) document under their VIEW paths.
func (n *docNode) collectAs(out *[]DocNodeInfo, doc int, path string) {
	if n.wrapOf != nil {
		*out = append(*out, DocNodeInfo{Doc: doc, Path: path, Wrap: true})
		p := "0"
		if path != "" {
			p = path + "/0"
		}
		n.wrapOf.collectAs(out, doc, p)
		return
	}
	full := n.name("kind")
	*out = append(*out, DocNodeInfo{Doc: doc, Path: path, Prefix: strings.TrimSuffix(full, ".kind")})
	if true {
		var keys []string
		for k := range n.kids {
			keys = append(keys, k)
		}
		sortStrings(keys)
		for _, k := range keys {
			p := k
			if path != "" {
				p = path + "/" + k
			}
			n.kids[k].collectAs(out, doc, p)
		}
		return
	}
	var keys []string
	for k := range n.kids {
		keys = append(keys, k)
	}
	sortStrings(keys)
	for _, k := range keys {
		n.kids[k].collect(out)
	}
}

func sortStrings(s []string) {
	for i := 1; i < len(s); i++ {
		for j := i; j > 0 && s[j] < s[j-1]; j-- {
			s[j], s[j-1] = s[j-1], s[j]
		}
	}
}

// BuildDocJSON renders document doc as JSON text under a solver model.
func BuildDocJSON(nodes []DocNodeInfo, doc int, model map[string]string, grid int) (string, error) {
	byPath := map[string]DocNodeInfo{}
	kidsOf := map[string][]string{}
	for _, n := range nodes {
		if n.Doc != doc {
			continue
		}
		byPath[n.Path] = n
		if n.Path != "" {
			parent := ""
			if i := strings.LastIndex(n.Path, "/"); i >= 0 {
				parent = n.Path[:i]
			}
			kidsOf[parent] = append(kidsOf[parent], n.Path)
		}
	}
	if _, ok := byPath[""]; !ok {
		return "", fmt.Errorf("document %d has no root", doc)
	}
	if mv, ok := modelVal(model, fmt.Sprintf("d%d!malformed", doc)); ok && mv.B {
		return "{\"unterminated\": ", nil
	}
	var render func(path string) (string, bool)
	render = func(path string) (string, bool) {
		n := byPath[path]
		if n.Wrap {
			cp := "0"
			if path != "" {
				cp = path + "/0"
			}
			t, ok := render(cp)
			if !ok {
				t = "null"
			}
			return "[" + t + "]", true
		}
		kind := 0
		if mv, ok := modelVal(model, n.Prefix+".kind"); ok {
			kind = int(mv.U)
		} else if path == "" {
			kind = kObject
		}
		switch kind {
		case kAbsent:
			return "", false
		case kNull:
			return "null", true
		case kBool:
			if mv, ok := modelVal(model, n.Prefix+".b"); ok && mv.B {
				return "true", true
			}
			return "false", true
		case kNumber:
			// which view was used?  prefer the one present in the model
			_, hasI := model[n.Prefix+".i"]
			_, hasF := model[n.Prefix+".f"]
			isInt := true
			if mv, ok := modelVal(model, n.Prefix+".isint"); ok {
				isInt = mv.B
			}
			if hasI && isInt {
				mv, _ := modelVal(model, n.Prefix+".i")
				if mv.Kind == "int" {
					return fmt.Sprint(mv.I), true
				}
				return fmt.Sprint(int64(mv.U)), true
			}
			if hasF {
				mv, _ := modelVal(model, n.Prefix+".f")
				f := mv.F
				if mv.Kind == "int" {
					f = float64(mv.I) / float64(uint64(1)<<uint(grid))
				}
				b, err := jsonMarshal(f)
				if err != nil {
					return "0", true
				}
				return string(b), true
			}
			if hasI {
				// a non-integral number was wanted where only the integer view exists
				mv, _ := modelVal(model, n.Prefix+".i")
				return fmt.Sprintf("%d.5", int64(mv.U)), true
			}
			if !isInt {
				return "0.5", true
			}
			return "0", true
		case kString:
			s := StringForModel(n.Prefix+".s", model)
			b, _ := jsonMarshal(s)
			return string(b), true
		case kArray:
			ln := 0
			if mv, ok := modelVal(model, n.Prefix+".len"); ok {
				ln = int(mv.U)
			}
			var parts []string
			for k := 0; k < ln; k++ {
				cp := fmt.Sprint(k)
				if path != "" {
					cp = path + "/" + cp
				}
				if _, ok := byPath[cp]; ok {
					if t, ok := render(cp); ok {
						parts = append(parts, t)
						continue
					}
				}
				parts = append(parts, "null")
			}
			return "[" + strings.Join(parts, ",") + "]", true
		default: // object
			var parts []string
			for _, cp := range kidsOf[path] {
				key := cp
				if i := strings.LastIndex(cp, "/"); i >= 0 {
					key = cp[i+1:]
				}
				t, ok := render(cp)
				if !ok {
					continue
				}
				if strings.HasPrefix(key, "+") {
					key = "zzextra" + key[1:]
				}
				kb, _ := jsonMarshal(key)
				parts = append(parts, string(kb)+":"+t)
			}
			return "{" + strings.Join(parts, ",") + "}", true
		}
	}
	t, _ := render("")
	return t, nil
}

func modelVal(model map[string]string, name string) (ModelValue, bool) {
	raw, ok := model[name]
	if !ok {
		return ModelValue{}, false
	}
	mv, err := parseModelValue(raw)
	if err != nil {
		return ModelValue{}, false
	}
	return mv, true
}

package interp

// Symbolic documents (stage 2).  Placeholder; see stage2.go.

type docMap struct{}

func (d *docMap) length() value { panic(unsupported("docMap.length")) }

type docNode struct{}

type Stage2 struct{}

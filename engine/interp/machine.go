package interp

// Machine: the SSA program built from /repo's current working tree plus overlay
// harnesses, and the per-path interpreter driver.

import (
	"fmt"
	"go/token"
	"go/types"
	"os"
	"path/filepath"
	"runtime"
	"runtime/debug"
	"sort"
	"strings"
	"sync"
	"time"

	"golang.org/x/tools/go/packages"
	"golang.org/x/tools/go/ssa"
	"golang.org/x/tools/go/ssa/ssautil"

	"github.com/sanity-io/litter"
)

const RepoModule = "github.com/atombender/go-jsonschema"
const ZZ = RepoModule + "/internal/zzvrt"

type Machine struct {
	Prog     *ssa.Program
	Pkgs     []*packages.Package
	Fset     *token.FileSet
	byPath   map[string]*packages.Package
	repoSSA  []*ssa.Package
	LoadTime time.Duration

	errorStringPtr types.Type
	urlType        types.Type

	reflectOnce    sync.Once
	reflectPackage *ssa.Package
	rtypeMethods   methodSet
	errorMethods   methodSet

	s2mu      sync.Mutex
	s2cache   map[string]*Stage2
	s2seq     int
	s2byPkg   sync.Map // *ssa.Package -> *Stage2
	s2extraMu sync.Mutex
	s2extra   map[string]*types.Package

	// FuncsExecuted counts calls per interpreted function (evidence: "functions encoded").
	statMu        sync.Mutex
	FuncsExecuted map[string]int
	Instrs        int64

	fieldsRead map[string]bool

	MapOrderChoice bool // C12: range over a map is a schedule choice
	MapOrderMaxLen int
}

// Load builds the program from /repo (through the engine module's replace directive) with
// every *.go file under harnessDir overlaid into the repository tree:
// harnessDir/<rel/dir>/<file>.go  ->  /repo/<rel/dir>/zz_verif_<file>.go
func Load(engineDir, repoDir, harnessDir string) (*Machine, error) {
	t0 := time.Now()
	overlay := map[string][]byte{}
	err := filepath.Walk(harnessDir, func(p string, info os.FileInfo, err error) error {
		if err != nil || info.IsDir() || !strings.HasSuffix(p, ".go") {
			return err
		}
		rel, _ := filepath.Rel(harnessDir, p)
		if strings.HasPrefix(rel, "_") || strings.Contains(rel, "/_") {
			return nil
		}
		b, err := os.ReadFile(p)
		if err != nil {
			return err
		}
		dst := filepath.Join(repoDir, filepath.Dir(rel), "zz_verif_"+filepath.Base(rel))
		overlay[dst] = b
		return nil
	})
	if err != nil {
		return nil, err
	}
	env := append(os.Environ(), "GOFLAGS=-mod=mod", "GOPROXY=off", "GOSUMDB=off", "GOTOOLCHAIN=local", "GOWORK=off")
	cfg := &packages.Config{
		Mode:       packages.LoadAllSyntax,
		Dir:        engineDir,
		BuildFlags: []string{"-tags=verif"},
		Overlay:    overlay,
		Env:        env,
	}
	pkgs, err := packages.Load(cfg, RepoModule+"/...", "gopkg.in/yaml.v3", "github.com/go-viper/mapstructure/v2",
		"regexp", "net/netip", "time", "math", "encoding/json", "errors", "fmt", "reflect", "strings", "os", "net/url", "unicode/utf8")
	if err != nil {
		return nil, err
	}
	var errs []string
	packages.Visit(pkgs, nil, func(p *packages.Package) {
		for _, e := range p.Errors {
			errs = append(errs, e.Error())
		}
	})
	if len(errs) > 0 {
		return nil, fmt.Errorf("load errors:\n%s", strings.Join(errs, "\n"))
	}
	prog, _ := ssautil.AllPackages(pkgs, ssa.InstantiateGenerics)
	prog.Build()
	m := &Machine{Prog: prog, Pkgs: pkgs, Fset: prog.Fset, byPath: map[string]*packages.Package{},
		s2cache: map[string]*Stage2{}, FuncsExecuted: map[string]int{}}
	packages.Visit(pkgs, nil, func(p *packages.Package) { m.byPath[p.PkgPath] = p })
	for _, p := range prog.AllPackages() {
		if strings.HasPrefix(p.Pkg.Path(), RepoModule) {
			m.repoSSA = append(m.repoSSA, p)
		}
	}
	sort.Slice(m.repoSSA, func(i, j int) bool { return m.repoSSA[i].Pkg.Path() < m.repoSSA[j].Pkg.Path() })
	if ep := prog.ImportedPackage("errors"); ep != nil {
		m.errorStringPtr = types.NewPointer(ep.Type("errorString").Type())
	}
	if up := prog.ImportedPackage("net/url"); up != nil {
		m.urlType = up.Type("URL").Type()
	}
	m.LoadTime = time.Since(t0)
	return m, nil
}

func (m *Machine) interpreted(fn *ssa.Function) bool {
	p := ssaFuncPkgPath(fn)
	if p == "" {
		return true // synthetic wrappers without a package
	}
	return strings.HasPrefix(p, RepoModule) || isEmittedPkg(p) || isInterpretedStd(p)
}

func (m *Machine) lookupFunc(name string) *ssa.Function {
	// name is "<pkg path>.<Func>"
	k := strings.LastIndex(name, ".")
	if k < 0 {
		return nil
	}
	p := m.Prog.ImportedPackage(name[:k])
	if p == nil {
		return nil
	}
	return p.Func(name[k+1:])
}

// Event is an observable effect of the program under test (C18).
type Event struct {
	Kind string `json:"kind"`
	Data string `json:"data"`
}

func (i *interpreter) event(kind, data string) {
	i.events = append(i.events, Event{kind, data})
}

func (m *Machine) stdoutPtr(i *interpreter) value { return i.stdFile("Stdout") }
func (m *Machine) stderrPtr(i *interpreter) value { return i.stdFile("Stderr") }

func (i *interpreter) stdFile(name string) value {
	p := i.prog.ImportedPackage("os")
	if p == nil {
		return nil
	}
	g, _ := p.Members[name].(*ssa.Global)
	if g == nil {
		return nil
	}
	return *i.globalCell(g)
}

// globalCell returns the (lazily allocated) cell of a global.
func (i *interpreter) globalCell(g *ssa.Global) *value {
	if c, ok := i.globals[g]; ok {
		return c
	}
	if g.Pkg != nil && strings.HasPrefix(g.Name(), "ZZH") {
		if s2, ok := i.m.s2byPkg.Load(g.Pkg); ok {
			if u, ok := s2.(*Stage2).Uses[g.Name()]; ok && i.x != nil {
				if hv, ok := i.x.holeValueFor(u); ok {
					i.globals[g] = &hv
					return &hv
				}
				panic(unsupported("hole variable " + g.Name() + " has no term on this path"))
			}
		}
	}
	cell := zero(mustDeref(g.Type()))
	if g.Pkg != nil && g.Pkg.Pkg.Path() == "github.com/sanity-io/litter" && g.Name() == "Config" {
		// the library's package-level default configuration: the code under test can reach and
		// change it (process-wide state), so the interpreter keeps it and the dump bridges read it
		cell = litterOptionsValue(mustDeref(g.Type()), litter.Config)
	}
	if g.Pkg != nil && g.Pkg.Pkg.Path() == "os" {
		switch g.Name() {
		case "Stdin", "Stdout", "Stderr":
			var dummy value = structure{g.Name()}
			cell = &dummy
		}
	}
	i.globals[g] = &cell
	return &cell
}

type pathAbort struct{ outcome, msg string }

// progMu guards the SSA program's package table: stage 2 adds packages (CreatePackage) while
// other workers resolve functions and methods through it.
var progMu sync.RWMutex

func (i *interpreter) methodValue(sel *types.Selection) *ssa.Function {
	progMu.RLock()
	defer progMu.RUnlock()
	return i.prog.MethodValue(sel)
}


// runPath executes the harness once under a decision prefix.
func (m *Machine) runPath(fn *ssa.Function, script []int, sv *Solver, pool *Pool, opts ExploreOpts) (res *PathResult) {
	res = &PathResult{Emits: map[string]string{}, Witnesses: map[string]string{}}
	x := &Explorer{sv: sv, pool: pool, Script: append([]int{}, script...), declared: map[string]bool{},
		evalSet: map[string]bool{}, res: res, maxSteps: opts.MaxSteps, s2: map[string]*Stage2{}, fnFuel: map[string]int{},
		params: opts.Params, opaqueSrc: map[*value]*docNode{}}
	i := &interpreter{
		prog:       m.Prog,
		globals:    make(map[*ssa.Global]*value),
		sizes:      &types.StdSizes{WordSize: 8, MaxAlign: 8},
		goroutines: 1,
		m:          m,
		x:          x,
		params:     opts.Params,
	}
	if rp := m.Prog.ImportedPackage("runtime"); rp != nil {
		i.runtimeErrorString = rp.Type("errorString").Object().Type()
	}
	m.reflectOnce.Do(func() {
		initReflect(i)
		m.reflectPackage, m.rtypeMethods, m.errorMethods = i.reflectPackage, i.rtypeMethods, i.errorMethods
	})
	i.reflectPackage, i.rtypeMethods, i.errorMethods = m.reflectPackage, m.rtypeMethods, m.errorMethods

	defer func() {
		res.Script = x.Script
		res.Steps = i.steps
		for _, d := range x.docs {
			d.collect(&res.Docs)
		}
		res.Decls = x.Decls
		res.PC = x.PC
		res.Evals = x.Evals
		m.statMu.Lock()
		for k, v := range i.funcCalls {
			m.FuncsExecuted[k] += v
		}
		m.Instrs += int64(i.steps)
		m.statMu.Unlock()
		if p := recover(); p != nil {
			res.Stack = append([]string{}, i.panicStack...)
			switch e := p.(type) {
			case infeasibleErr:
				res.Outcome = "infeasible"
			case unsupportedErr:
				res.Outcome, res.Msg = "unsupported", e.msg
			case boundErr:
				res.Outcome, res.Msg = "bound", e.msg
			case targetPanic:
				res.Outcome, res.Msg = "panic", "panic: "+i.panicText(e.v)
			case exitPanic:
				res.Outcome, res.Msg = "exit", fmt.Sprint(int(e))
			case runtime.Error:
				msg := e.Error()
				if strings.Contains(msg, "interp.") {
					if os.Getenv("GOSYM_GOSTACK") != "" {
						fmt.Fprintf(os.Stderr, "%s\n%s\n", msg, debug.Stack())
					}
					res.Outcome, res.Msg = "unsupported", "engine: "+msg
				} else {
					res.Outcome, res.Msg = "panic", "runtime error: "+strings.TrimPrefix(msg, "runtime error: ")
				}
			case string:
				if strings.Contains(e, "interp.") || strings.HasPrefix(e, "no code for function") ||
					strings.HasPrefix(e, "unexpected") || strings.HasPrefix(e, "get: no value") || strings.HasPrefix(e, "oops") {
					res.Outcome, res.Msg = "unsupported", "engine: "+e
				} else {
					res.Outcome, res.Msg = "panic", e
				}
			default:
				res.Outcome, res.Msg = "unsupported", fmt.Sprintf("engine: %T %v", p, p)
			}
			if res.Outcome == "panic" || res.Outcome == "exit" {
				// a model of the path condition makes the panic replayable
				if r, mdl := x.checkEval(true); r == "sat" {
					res.PCModel = mdl
				}
			}
		}
		res.Events = i.events
	}()
	for _, p := range m.repoSSA {
		if f := p.Func("init"); f != nil {
			call(i, nil, token.NoPos, f, nil)
		}
	}
	call(i, nil, token.NoPos, fn, nil)
	res.Outcome = "ok"
	return
}

func (i *interpreter) panicText(v value) string {
	switch x := v.(type) {
	case iface:
		if x.t == nil {
			return "nil"
		}
		if types.Implements(x.t, errorIface) {
			return i.errString(nil, x)
		}
		return fmt.Sprint(i.toNative(nil, x.t, x.v, 0))
	}
	return fmt.Sprint(v)
}


// isEmittedPkg: import paths of materialised (stage-2) packages.
func isEmittedPkg(p string) bool {
	return strings.HasPrefix(p, "zzgen/") || strings.HasPrefix(p, "zzreplay/")
}

// schemaFieldsRead returns the names of fields of pkg/schemas struct types that code in
// pkg/generator, pkg/codegen, internal/x/text or main reads or writes directly (FieldAddr /
// Field instructions), computed from the SSA of the current tree.
func (m *Machine) schemaFieldsRead() map[string]bool {
	m.statMu.Lock()
	defer m.statMu.Unlock()
	if m.fieldsRead != nil {
		return m.fieldsRead
	}
	out := map[string]bool{}
	isSchemaStruct := func(t types.Type) (*types.Struct, bool) {
		if p, ok := t.Underlying().(*types.Pointer); ok {
			t = p.Elem()
		}
		n, ok := types.Unalias(t).(*types.Named)
		if !ok || n.Obj().Pkg() == nil || n.Obj().Pkg().Path() != RepoModule+"/pkg/schemas" {
			return nil, false
		}
		st, ok := n.Underlying().(*types.Struct)
		return st, ok
	}
	var visit func(fn *ssa.Function)
	visit = func(fn *ssa.Function) {
		for _, b := range fn.Blocks {
			for _, ins := range b.Instrs {
				switch x := ins.(type) {
				case *ssa.FieldAddr:
					if st, ok := isSchemaStruct(x.X.Type()); ok {
						out[st.Field(x.Field).Name()] = true
					}
				case *ssa.Field:
					if st, ok := isSchemaStruct(x.X.Type()); ok {
						out[st.Field(x.Field).Name()] = true
					}
				}
			}
		}
		for _, af := range fn.AnonFuncs {
			visit(af)
		}
	}
	for _, p := range m.repoSSA {
		path := p.Pkg.Path()
		if strings.HasSuffix(path, "/pkg/schemas") || strings.Contains(path, "zzvrt") {
			continue
		}
		for _, mem := range p.Members {
			switch x := mem.(type) {
			case *ssa.Function:
				if pos := m.Fset.Position(x.Pos()); strings.Contains(pos.Filename, "zz_verif_") {
					continue
				}
				visit(x)
			case *ssa.Type:
				for _, t := range []types.Type{x.Type(), types.NewPointer(x.Type())} {
					ms := m.Prog.MethodSets.MethodSet(t)
					for k := 0; k < ms.Len(); k++ {
						if f := m.Prog.MethodValue(ms.At(k)); f != nil && f.Pkg == p {
							visit(f)
						}
					}
				}
			}
		}
	}
	m.fieldsRead = out
	return out
}

package interp

// jsonTree renders an interpreter value as the JSON document encoding/json would produce
// for the corresponding Go value (struct tags, omitempty, embedded structs), with symbolic
// leaves kept as {"$sym": term} placeholders to be instantiated from a solver model.

import (
	"fmt"
	"go/types"
	"reflect"
	"strings"
)

type symLeaf struct {
	Sym  string `json:"$sym"`
	Sort string `json:"sort"`
	W    int    `json:"w,omitempty"`
	Sgn  bool   `json:"signed,omitempty"`
	Omit bool   `json:"omitempty,omitempty"`
}

type orderedObj struct {
	Keys []string
	Vals []interface{}
}

func (o orderedObj) MarshalJSON() ([]byte, error) {
	var sb strings.Builder
	sb.WriteByte('{')
	for i, k := range o.Keys {
		if i > 0 {
			sb.WriteByte(',')
		}
		kb, _ := jsonMarshal(k)
		vb, err := jsonMarshal(o.Vals[i])
		if err != nil {
			return nil, err
		}
		sb.Write(kb)
		sb.WriteByte(':')
		sb.Write(vb)
	}
	sb.WriteByte('}')
	return []byte(sb.String()), nil
}

func (i *interpreter) jsonTree(t types.Type, v value, depth int) interface{} {
	if depth > 40 {
		panic(unsupported("jsonTree: too deep (cyclic value?)"))
	}
	if s, ok := v.(sym); ok {
		_, w, sg, _ := symSortOf(t)
		leaf := symLeaf{Sym: s.t, W: w, Sgn: sg}
		switch s.k {
		case sBool:
			leaf.Sort = "bool"
		case sBV:
			leaf.Sort = "bv"
			leaf.W = s.w
		case sF64:
			leaf.Sort = "f64"
		case sStr:
			leaf.Sort = "str"
		}
		return leaf
	}
	switch u := t.Underlying().(type) {
	case *types.Basic:
		return v
	case *types.Pointer:
		p, _ := v.(*value)
		if p == nil {
			return nil
		}
		return i.jsonTree(u.Elem(), *p, depth+1)
	case *types.Interface:
		it := v.(iface)
		if it.t == nil {
			return nil
		}
		return i.jsonTree(it.t, it.v, depth+1)
	case *types.Slice:
		xs, _ := v.([]value)
		if xs == nil {
			return nil
		}
		out := make([]interface{}, len(xs))
		for k, x := range xs {
			out[k] = i.jsonTree(u.Elem(), x, depth+1)
		}
		return out
	case *types.Map:
		if mapIsNil(v) {
			return nil
		}
		ks, vs := mapEntries(v)
		o := orderedObj{}
		for k := range ks {
			o.Keys = append(o.Keys, fmt.Sprint(ks[k]))
			o.Vals = append(o.Vals, i.jsonTree(u.Elem(), vs[k], depth+1))
		}
		return o
	case *types.Struct:
		o := orderedObj{}
		i.jsonStruct(&o, u, v.(structure), depth)
		return o
	}
	panic(unsupported(fmt.Sprintf("jsonTree(%v)", t)))
}

func (i *interpreter) jsonStruct(o *orderedObj, u *types.Struct, st structure, depth int) {
	for k := 0; k < u.NumFields(); k++ {
		f := u.Field(k)
		tag := reflect.StructTag(u.Tag(k)).Get("json")
		if tag == "-" {
			continue
		}
		if f.Anonymous() && tag == "" {
			// embedded struct (or pointer to one): flatten
			ft := f.Type()
			fv := st[k]
			if pt, ok := ft.Underlying().(*types.Pointer); ok {
				p, _ := fv.(*value)
				if p == nil {
					continue
				}
				ft, fv = pt.Elem(), *p
			}
			if su, ok := ft.Underlying().(*types.Struct); ok {
				i.jsonStruct(o, su, fv.(structure), depth+1)
				continue
			}
		}
		if !f.Exported() {
			continue
		}
		name := f.Name()
		omit := false
		if tag != "" {
			parts := strings.Split(tag, ",")
			if parts[0] != "" {
				name = parts[0]
			}
			for _, p := range parts[1:] {
				if p == "omitempty" {
					omit = true
				}
			}
		}
		if omit && isEmptyJSON(st[k]) {
			continue
		}
		tree := i.jsonTree(f.Type(), st[k], depth+1)
		if leaf, ok := tree.(symLeaf); ok {
			leaf.Omit = omit
			tree = leaf
		}
		o.Keys = append(o.Keys, name)
		o.Vals = append(o.Vals, tree)
	}
}

func isEmptyJSON(v value) bool {
	switch x := v.(type) {
	case nil:
		return true
	case bool:
		return !x
	case string:
		return x == ""
	case int:
		return x == 0
	case int64:
		return x == 0
	case int32:
		return x == 0
	case uint:
		return x == 0
	case uint64:
		return x == 0
	case float64:
		return x == 0
	case *value:
		return x == nil
	case iface:
		return x.t == nil
	case []value:
		return len(x) == 0
	case map[value]value:
		return len(x) == 0
	case *hashmap:
		return x == nil || x.len() == 0
	}
	return false
}

package interp

// Model of fmt.Sprintf & friends.  Concrete arguments are converted to native Go values
// and formatted by the real fmt; a symbolic number becomes a *hole*: a fresh identifier
// (ZZH<n>) in the produced text whose term is remembered on the path (DESIGN §3.2, §4).

import (
	"fmt"
	"go/types"
	"sort"
	"strings"

	"github.com/mitchellh/go-wordwrap"
	"github.com/sanity-io/litter"
	"golang.org/x/tools/go/ssa"
)

func wordwrapWrapString(s string, lim uint) string { return wordwrap.WrapString(s, lim) }

// structFmt prints like a Go struct under %v.
type structFmt struct {
	fields []interface{}
	names  []string
}

func (s structFmt) Format(f fmt.State, verb rune) {
	fmt.Fprint(f, "{")
	for i, x := range s.fields {
		if i > 0 {
			fmt.Fprint(f, " ")
		}
		if f.Flag('+') && i < len(s.names) {
			fmt.Fprintf(f, "%s:", s.names[i])
		}
		fmt.Fprintf(f, "%v", x)
	}
	fmt.Fprint(f, "}")
}

type ptrFmt struct{ inner interface{} }

func (p ptrFmt) Format(f fmt.State, verb rune) {
	fmt.Fprint(f, "&")
	fmt.Fprintf(f, "%v", p.inner)
}

type errFmt struct{ msg string }

func (e errFmt) Error() string { return e.msg }

// toNative converts an interpreter value of static/dynamic type t to something fmt prints
// the way the real program would (for the kinds the repository formats).
func (i *interpreter) toNative(fr *frame, t types.Type, v value, depth int) interface{} {
	if depth > 6 {
		return "…"
	}
	switch x := v.(type) {
	case iface:
		if x.t == nil {
			return nil
		}
		if types.Implements(x.t, errorIface) {
			return errFmt{i.errString(fr, x)}
		}
		if m := i.prog.MethodSets.MethodSet(x.t).Lookup(nil, "String"); m != nil {
			if fn := i.methodValue(m); fn != nil && i.m.interpreted(fn) {
				if s, ok := call(i, fr, 0, fn, []value{x.v}).(string); ok {
					return s
				}
			}
		}
		return i.toNative(fr, x.t, x.v, depth)
	case sym:
		return x.String()
	case bstr:
		return x.readable()
	case nil:
		return nil
	case bool, string, int, int8, int16, int32, int64, uint, uint8, uint16, uint32, uint64, uintptr, float32, float64:
		return x
	case []value:
		var et types.Type
		if t != nil {
			if st, ok := t.Underlying().(*types.Slice); ok {
				et = st.Elem()
			}
		}
		out := make([]interface{}, len(x))
		for k, e := range x {
			out[k] = i.toNative(fr, et, e, depth+1)
		}
		return out
	case array:
		out := make([]interface{}, len(x))
		for k, e := range x {
			out[k] = i.toNative(fr, nil, e, depth+1)
		}
		return out
	case map[value]value:
		out := map[string]interface{}{}
		var et types.Type
		if t != nil {
			if mt, ok := t.Underlying().(*types.Map); ok {
				et = mt.Elem()
			}
		}
		for k, e := range x {
			out[fmt.Sprint(k)] = i.toNative(fr, et, e, depth+1)
		}
		return out
	case *hashmap:
		out := map[string]interface{}{}
		for _, e := range x.entries() {
			for ; e != nil; e = e.next {
				out[fmt.Sprint(i.toNative(fr, nil, e.key, depth+1))] = i.toNative(fr, nil, e.value, depth+1)
			}
		}
		return out
	case structure:
		sf := structFmt{}
		var st *types.Struct
		if t != nil {
			st, _ = t.Underlying().(*types.Struct)
		}
		for k, e := range x {
			var ft types.Type
			if st != nil && k < st.NumFields() {
				ft = st.Field(k).Type()
				sf.names = append(sf.names, st.Field(k).Name())
			}
			sf.fields = append(sf.fields, i.toNative(fr, ft, e, depth+1))
		}
		return sf
	case *value:
		if x == nil {
			return nil
		}
		if t != nil {
			if pt, ok := t.Underlying().(*types.Pointer); ok {
				if _, ok := pt.Elem().Underlying().(*types.Struct); ok {
					return ptrFmt{i.toNative(fr, pt.Elem(), *x, depth+1)}
				}
			}
		}
		return fmt.Sprintf("%p", x)
	}
	return fmt.Sprintf("<%T>", v)
}

func typeString(t types.Type) string {
	if t == nil {
		return "<nil>"
	}
	return types.TypeString(t, func(p *types.Package) string { return p.Name() })
}

// sprintf formats with hole support.
func (i *interpreter) sprintf(fr *frame, format string, args []value) string {
	var out strings.Builder
	nat := []interface{}{}
	var nf strings.Builder
	argi := 0
	for p := 0; p < len(format); p++ {
		c := format[p]
		if c != '%' {
			nf.WriteByte(c)
			continue
		}
		// parse a verb
		q := p + 1
		for q < len(format) && strings.ContainsRune("+-# 0123456789.[]*", rune(format[q])) {
			q++
		}
		if q >= len(format) {
			nf.WriteString(format[p:])
			break
		}
		verb := format[q]
		spec := format[p : q+1]
		p = q
		if verb == '%' {
			nf.WriteString("%%")
			continue
		}
		if argi >= len(args) {
			nf.WriteString(spec)
			continue
		}
		a := args[argi]
		argi++
		inner := a
		var dyn types.Type
		if it, ok := a.(iface); ok {
			inner = it.v
			dyn = it.t
		}
		if s, ok := inner.(sym); ok {
			switch {
			case s.k == sStr:
				nf.WriteString("%s")
				nat = append(nat, "‹str›")
			case s.k == sBool:
				b := i.x.decide(s)
				nf.WriteString(spec)
				nat = append(nat, b)
			case i.inStage2(fr):
				// emitted code formatting a document value into an error message: no hole
				nf.WriteString("%s")
				nat = append(nat, "‹num›")
			default:
				if len(spec) != 2 {
					panic(unsupported("format flags on a symbolic number: " + spec))
				}
				nf.WriteString("%s")
				nat = append(nat, i.x.newHole(s, dyn, string(verb)))
			}
			continue
		}
		switch verb {
		case 'T':
			nf.WriteString("%s")
			nat = append(nat, typeString(dyn))
		case 'w':
			nf.WriteString(spec[:len(spec)-1] + "v")
			nat = append(nat, i.toNative(fr, dyn, a, 0))
		default:
			nf.WriteString(spec)
			nat = append(nat, i.toNative(fr, dyn, a, 0))
		}
	}
	fmt.Fprintf(&out, nf.String(), nat...)
	if argi < len(args) {
		// mimic fmt's %!(EXTRA ...) only roughly; the repository never relies on it
		out.WriteString("%!(EXTRA)")
	}
	return out.String()
}

func (i *interpreter) sprint(fr *frame, args []value, ln bool) string {
	nat := make([]interface{}, len(args))
	for k, a := range args {
		inner := a
		var dyn types.Type
		if it, ok := a.(iface); ok {
			inner, dyn = it.v, it.t
		}
		if s, ok := inner.(sym); ok {
			if s.k == sStr {
				nat[k] = "‹str›"
			} else if s.k == sBool {
				nat[k] = i.x.decide(s)
			} else {
				nat[k] = i.x.newHole(s, dyn, "v")
			}
			continue
		}
		nat[k] = i.toNative(fr, dyn, a, 0)
	}
	if ln {
		return fmt.Sprintln(nat...)
	}
	return fmt.Sprint(nat...)
}

// newHole allocates a hole identifier for a symbolic number.
func (e *Explorer) newHole(s sym, dyn types.Type, verb string) string {
	id := fmt.Sprintf("ZZH%d", len(e.holes)+1)
	info := HoleInfo{Ident: id, Term: s.t, Verb: verb}
	typ := ""
	switch s.k {
	case sF64:
		info.Sort = "f64"
		typ = "float64"
	case sReal:
		info.Sort = "grid"
		typ = "float64"
	case sInt:
		info.Sort = "int"
		info.Sgn = true
		typ = "int64"
		if dyn != nil {
			if b, ok := dyn.Underlying().(*types.Basic); ok {
				typ = b.Name()
			}
		}
	case sBV:
		info.Sort = "bv"
		info.W = s.w
		info.Sgn = true
		typ = "int64"
		if dyn != nil {
			_, _, sg, ok := symSortOf(dyn)
			if ok {
				info.Sgn = sg
			}
			if b, ok := dyn.Underlying().(*types.Basic); ok {
				typ = b.Name()
			}
		}
	default:
		panic(unsupported("hole of non-numeric sort"))
	}
	e.holes = append(e.holes, holeRec{info: info, s: s, typ: typ})
	e.res.Holes = append(e.res.Holes, info)
	return id
}

// writerAppend implements Fprintf/Fprint to the writers the repository uses.
func (i *interpreter) writerAppend(fr *frame, w iface, s string) value {
	if w.t == nil {
		panic("Fprintf to nil writer")
	}
	ts := typeString(w.t)
	switch ts {
	case "*strings.Builder":
		builderAppend(w.v, s)
	case "*os.File":
		name := "file"
		switch w.v {
		case i.m.stdoutPtr(i):
			name = "stdout"
			i.os().stdout = append(i.os().stdout, s...)
		case i.m.stderrPtr(i):
			name = "stderr"
			i.os().stderr = append(i.os().stderr, s...)
		}
		i.event("write:"+name, s)
	case "*bytes.Buffer":
		panic(unsupported("Fprintf to bytes.Buffer"))
	default:
		// interpreted writer types: call their Write method
		m := i.prog.MethodSets.MethodSet(w.t).Lookup(nil, "Write")
		if m == nil {
			panic(unsupported("Fprintf to " + ts))
		}
		call(i, fr, 0, i.methodValue(m), []value{w.v, bytesVal([]byte(s))})
	}
	return tuple{len(s), iface{}}
}

func init() {
	natives["fmt.Sprintf"] = func(fr *frame, a []value) value {
		if fr.i.runtimeFmt() {
			return fr.i.sprintfRuntime(fr, a[0].(string), a[1].([]value))
		}
		return fr.i.sprintf(fr, a[0].(string), a[1].([]value))
	}
	natives["fmt.Errorf"] = func(fr *frame, a []value) value {
		format := a[0].(string)
		args, _ := a[1].([]value)
		var wrapped []value
		// collect %w operands
		argi := 0
		for p := 0; p+1 < len(format); p++ {
			if format[p] != '%' {
				continue
			}
			q := p + 1
			for q < len(format) && strings.ContainsRune("+-# 0123456789.", rune(format[q])) {
				q++
			}
			if q < len(format) {
				if format[q] == '%' {
					p = q
					continue
				}
				if format[q] == 'w' && argi < len(args) {
					if it, ok := args[argi].(iface); ok && it.t != nil {
						wrapped = append(wrapped, it)
					}
				}
				argi++
				p = q
			}
		}
		return fr.i.mkError(fr.i.sprintf(fr, format, args), wrapped...)
	}
	natives["fmt.Fprintf"] = func(fr *frame, a []value) value {
		s := fr.i.sprintf(fr, a[1].(string), a[2].([]value))
		return fr.i.writerAppend(fr, a[0].(iface), s)
	}
	natives["fmt.Fprint"] = func(fr *frame, a []value) value {
		return fr.i.writerAppend(fr, a[0].(iface), fr.i.sprint(fr, a[1].([]value), false))
	}
	natives["fmt.Fprintln"] = func(fr *frame, a []value) value {
		return fr.i.writerAppend(fr, a[0].(iface), fr.i.sprint(fr, a[1].([]value), true))
	}
	natives["fmt.Sprint"] = func(fr *frame, a []value) value {
		// Sprint of ONE symbolic string is that string
		if xs := a[0].([]value); len(xs) == 1 {
			if it, ok := xs[0].(iface); ok {
				if sv, ok := it.v.(sym); ok && sv.k == sStr {
					return sv
				}
			}
		}
		return fr.i.sprint(fr, a[0].([]value), false)
	}
	natives["fmt.Sprintln"] = func(fr *frame, a []value) value { return fr.i.sprint(fr, a[0].([]value), true) }
	natives["fmt.Println"] = func(fr *frame, a []value) value {
		fr.i.event("write:stdout", fr.i.sprint(fr, a[0].([]value), true))
		return tuple{0, iface{}}
	}
	natives["fmt.Printf"] = func(fr *frame, a []value) value {
		fr.i.event("write:stdout", fr.i.sprintf(fr, a[0].(string), a[1].([]value)))
		return tuple{0, iface{}}
	}
	natives["github.com/sanity-io/litter.Sdump"] = func(fr *frame, a []value) value {
		return litterSdump(fr, fr.i.litterConfig(), a[0].([]value))
	}
	natives["(github.com/sanity-io/litter.Options).Sdump"] = func(fr *frame, a []value) value {
		return litterSdump(fr, litterOptionsOf(fr.i.litterOptionsType(), a[0].(structure)), a[1].([]value))
	}
	natives["(*github.com/sanity-io/litter.Options).Sdump"] = func(fr *frame, a []value) value {
		return litterSdump(fr, litterOptionsOf(fr.i.litterOptionsType(), (*a[0].(*value)).(structure)), a[1].([]value))
	}
}

// litterOptionsType: the types.Struct of litter.Options in the loaded program.
func (i *interpreter) litterOptionsType() *types.Struct {
	p := i.prog.ImportedPackage("github.com/sanity-io/litter")
	if p == nil {
		panic(unsupported("litter is not part of the program"))
	}
	return p.Type("Options").Type().Underlying().(*types.Struct)
}

// litterConfig: litter.Config as the interpreted program sees it now.
func (i *interpreter) litterConfig() litter.Options {
	p := i.prog.ImportedPackage("github.com/sanity-io/litter")
	if p == nil {
		return litter.Config
	}
	g, _ := p.Members["Config"].(*ssa.Global)
	if g == nil {
		return litter.Config
	}
	return litterOptionsOf(i.litterOptionsType(), (*i.globalCell(g)).(structure))
}

// litterOptionsValue / litterOptionsOf convert litter.Options between the interpreter and the
// real library (booleans and strings by value; the regexp and the two callbacks of the default
// configuration travel as an opaque marker: present or nil).
func litterOptionsValue(t types.Type, o litter.Options) value {
	st := t.Underlying().(*types.Struct)
	out := zero(t).(structure)
	for k := 0; k < st.NumFields(); k++ {
		switch st.Field(k).Name() {
		case "Compact":
			out[k] = o.Compact
		case "StripPackageNames":
			out[k] = o.StripPackageNames
		case "HidePrivateFields":
			out[k] = o.HidePrivateFields
		case "HideZeroValues":
			out[k] = o.HideZeroValues
		case "HomePackage":
			out[k] = o.HomePackage
		case "Separator":
			out[k] = o.Separator
		case "StrictGo":
			out[k] = o.StrictGo
		case "DisablePointerReplacement":
			out[k] = o.DisablePointerReplacement
		case "FormatTime":
			out[k] = o.FormatTime
		case "FieldExclusions":
			if o.FieldExclusions != nil {
				var marker value = structure{"litter.Config.FieldExclusions"}
				out[k] = &marker
			}
		}
	}
	return out
}

func litterOptionsOf(st *types.Struct, v structure) litter.Options {
	var o litter.Options
	for k := 0; k < st.NumFields(); k++ {
		b, _ := v[k].(bool)
		str, _ := v[k].(string)
		switch st.Field(k).Name() {
		case "Compact":
			o.Compact = b
		case "StripPackageNames":
			o.StripPackageNames = b
		case "HidePrivateFields":
			o.HidePrivateFields = b
		case "HideZeroValues":
			o.HideZeroValues = b
		case "HomePackage":
			o.HomePackage = str
		case "Separator":
			o.Separator = str
		case "StrictGo":
			o.StrictGo = b
		case "DisablePointerReplacement":
			o.DisablePointerReplacement = b
		case "FormatTime":
			o.FormatTime = b
		case "FieldExclusions":
			if p, ok := v[k].(*value); ok && p != nil {
				o.FieldExclusions = litter.Config.FieldExclusions
			}
		case "FieldFilter", "DumpFunc":
			if v[k] != nil {
				if c, ok := v[k].(*closure); !ok || c != nil {
					if f, ok := v[k].(*ssa.Function); !ok || f != nil {
						panic(unsupported("litter.Options with a callback"))
					}
				}
			}
		}
	}
	return o
}

func litterSdump(fr *frame, opts litter.Options, xs []value) value {
	{
		nat := make([]interface{}, len(xs))
		for k, x := range xs {
			it := x.(iface)
			if it.t == nil {
				nat[k] = nil
				continue
			}
			if s, ok := it.v.(sym); ok {
				// a symbolic scalar dumped as a literal: hole (typed by its dynamic type)
				if len(xs) == 1 {
					return fr.i.x.newHole(s, it.t, "litter")
				}
				panic(unsupported("litter.Sdump of several values with a symbolic one"))
			}
			nat[k] = fr.i.toReflectIface(it)
		}
		return opts.Sdump(nat...)
	}
}

// sortedKeysOf returns the keys of an interpreter map in canonical order.
func sortedMapKeys(keys []value) {
	sort.SliceStable(keys, func(a, b int) bool { return valueLess(keys[a], keys[b]) })
}

func valueLess(a, b value) bool {
	switch x := a.(type) {
	case string:
		return x < b.(string)
	case int:
		return x < b.(int)
	case int64:
		return x < b.(int64)
	case int32:
		return x < b.(int32)
	case uint:
		return x < b.(uint)
	case uint64:
		return x < b.(uint64)
	case bool:
		return !x && b.(bool)
	case float64:
		return x < b.(float64)
	}
	return fmt.Sprint(a) < fmt.Sprint(b)
}

// inStage2 reports whether the formatting call comes from emitted (stage-2) code.
func (i *interpreter) inStage2(fr *frame) bool {
	for f := fr; f != nil; f = f.caller {
		if f.fn != nil && f.fn.Pkg != nil && isEmittedPkg(f.fn.Pkg.Pkg.Path()) {
			return true
		}
	}
	for k := len(i.callStack) - 1; k >= 0; k-- {
		fn := i.callStack[k]
		if fn.Pkg != nil {
			return isEmittedPkg(fn.Pkg.Pkg.Path())
		}
	}
	return false
}

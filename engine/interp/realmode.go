package interp

// Exact-grid mode for float64 (DESIGN §3.5 addendum).
//
// A symbolic float64 drawn in this mode is n/2^G for an integer n with |n| <= 2^(R+G); with
// R+G <= 48 every such value, every sum/difference of a few of them and of float64
// constants on the same grid, and every Round/Floor/Ceil/Trunc of them is exactly
// representable in float64, so IEEE arithmetic coincides with exact arithmetic and the
// value can be encoded as the SMT integer n (fixed point, scale 2^G).  Only +, -,
// comparisons, Round/Floor/Ceil/Trunc/Abs are admitted (no * or /); a concrete constant
// that is not on the grid makes the operation UNSUPPORTED.  The domain restriction is
// part of the stated bound of every check that uses the mode.  G=2 distinguishes .0,
// .25, .5 and .75, i.e. every qualitatively different case of Round/Floor/Ceil.

import (
	"fmt"
	"go/token"
	"math"
	"math/big"
	"os"
	"strings"
)

// gridBits is G for the exploration in progress (set by Machine.Explore; one exploration
// runs at a time per process).
var gridBits int

func gridScale() *big.Int { return new(big.Int).Lsh(big.NewInt(1), uint(gridBits)) }

func intLit(n *big.Int) string {
	if n.Sign() < 0 {
		return "(- " + new(big.Int).Neg(n).String() + ")"
	}
	return n.String()
}

func realLit(f float64) string {
	if math.IsInf(f, 1) {
		return "1000000000000000000000000000000"
	}
	if math.IsInf(f, -1) {
		return "(- 1000000000000000000000000000000)"
	}
	if math.IsNaN(f) {
		panic(unsupported("NaN constant in exact-grid mode"))
	}
	r := new(big.Rat)
	r.SetFloat64(f)
	r.Mul(r, new(big.Rat).SetInt(gridScale()))
	if !r.IsInt() {
		panic(unsupported(fmt.Sprintf("constant %v is not on the 2^-%d grid (exact-grid mode)", f, gridBits)))
	}
	return intLit(r.Num())
}

func toReal(a sym) sym {
	switch a.k {
	case sReal:
		return a
	case sF64:
		var bits uint64
		if n, _ := fmt.Sscanf(a.t, "((_ to_fp 11 53) #x%016x)", &bits); n == 1 {
			return sym{sReal, 0, realLit(math.Float64frombits(bits))}
		}
		panic(unsupported("mixing FP-mode and exact-grid-mode symbolic floats"))
	}
	panic(unsupported("toReal of a non-float"))
}

func realBinop(op token.Token, a, b sym) value {
	f := ""
	switch op {
	case token.LSS:
		f = "<"
	case token.LEQ:
		f = "<="
	case token.GTR:
		f = ">"
	case token.GEQ:
		f = ">="
	case token.EQL:
		return mkBool("(= " + a.t + " " + b.t + ")")
	case token.NEQ:
		return mkBool("(not (= " + a.t + " " + b.t + "))")
	case token.ADD:
		return sym{sReal, 0, "(+ " + a.t + " " + b.t + ")"}
	case token.SUB:
		return sym{sReal, 0, "(- " + a.t + " " + b.t + ")"}
	}
	if f != "" {
		return mkBool("(" + f + " " + a.t + " " + b.t + ")")
	}
	panic(unsupported(fmt.Sprintf("operator %v on exact-grid floats (only +,-,comparisons are exact)", op)))
}

// f64Const extracts the value of a concrete float64 term.
func f64Const(a sym) (float64, bool) {
	var bits uint64
	if a.k == sF64 {
		if n, _ := fmt.Sscanf(a.t, "((_ to_fp 11 53) #x%016x)", &bits); n == 1 {
			return math.Float64frombits(bits), true
		}
	}
	return 0, false
}

// realCmpOffGrid decides a comparison between a grid value and a finite float64 constant
// that is NOT on the grid, exactly: with A the scaled integer and c*2^G not an integer,
// a<=c <=> A<=floor, a>c <=> A>floor, a<c <=> A<ceil, a>=c <=> A>=ceil, a==c is false.
func realCmpOffGrid(op token.Token, a, b sym) (value, bool) {
	flip := map[token.Token]token.Token{token.LSS: token.GTR, token.LEQ: token.GEQ, token.GTR: token.LSS, token.GEQ: token.LEQ, token.EQL: token.EQL, token.NEQ: token.NEQ}
	if _, ok := flip[op]; !ok {
		return nil, false
	}
	c, isConst := f64Const(b)
	x := a
	if !isConst {
		if c, isConst = f64Const(a); !isConst {
			return nil, false
		}
		x, op = b, flip[op]
	}
	if x.k != sReal || math.IsInf(c, 0) || math.IsNaN(c) {
		return nil, false
	}
	r := new(big.Rat)
	r.SetFloat64(c)
	r.Mul(r, new(big.Rat).SetInt(gridScale()))
	if r.IsInt() {
		return nil, false
	}
	fl := new(big.Int).Div(r.Num(), r.Denom()) // Euclidean division, positive denominator: floor
	ce := new(big.Int).Add(fl, big.NewInt(1))
	switch op {
	case token.LEQ:
		return mkBool("(<= " + x.t + " " + intLit(fl) + ")"), true
	case token.GTR:
		return mkBool("(> " + x.t + " " + intLit(fl) + ")"), true
	case token.LSS:
		return mkBool("(< " + x.t + " " + intLit(ce) + ")"), true
	case token.GEQ:
		return mkBool("(>= " + x.t + " " + intLit(ce) + ")"), true
	case token.EQL:
		return mkBool("false"), true
	case token.NEQ:
		return mkBool("true"), true
	}
	return nil, false
}

// realMod is math.Mod on the grid: truncated remainder with the sign of x (exact: both
// operands are multiples of 2^-G, so the remainder is one too).  A zero divisor gives NaN in
// Go; the caller guards it.
func realMod(x, y string) string {
	absy := realAbs(y)
	return "(ite (>= " + x + " 0) (mod " + x + " " + absy + ") (- (mod (- " + x + ") " + absy + ")))"
}

func realFloor(x string) string {
	if gridBits == 0 {
		return x
	}
	s := gridScale().String()
	return "(* " + s + " (div " + x + " " + s + "))"
}

func realCeil(x string) string {
	if gridBits == 0 {
		return x
	}
	s := gridScale().String()
	return "(- (* " + s + " (div (- " + x + ") " + s + ")))"
}

// realRound is math.Round: half away from zero.
func realRound(x string) string {
	if gridBits == 0 {
		return x
	}
	s := gridScale()
	h := new(big.Int).Rsh(s, 1).String()
	return "(ite (>= " + x + " 0) (* " + s.String() + " (div (+ " + x + " " + h + ") " + s.String() + ")) (- (* " + s.String() + " (div (+ (- " + x + ") " + h + ") " + s.String() + "))))"
}

func realTrunc(x string) string {
	return "(ite (>= " + x + " 0) " + realFloor(x) + " " + realCeil(x) + ")"
}

func realIsInt(x string) string {
	if gridBits == 0 {
		return "true"
	}
	return "(= (mod " + x + " " + gridScale().String() + ") 0)"
}

func realAbs(x string) string {
	if isDigits(x) {
		return x
	}
	if strings.HasPrefix(x, "(- ") && strings.HasSuffix(x, ")") && isDigits(x[3:len(x)-1]) {
		return x[3 : len(x)-1]
	}
	return "(ite (>= " + x + " 0) " + x + " (- " + x + "))"
}

func isDigits(x string) bool {
	if x == "" {
		return false
	}
	for _, c := range x {
		if c < '0' || c > '9' {
			return false
		}
	}
	return true
}

// freshGrid draws an exact-grid float: n/2^G, |n| <= 2^(r+G).
func (e *Explorer) freshGrid(r int) (sym, string) {
	e.nvars++
	n := fmt.Sprintf("g%d", e.nvars)
	e.declare(n, sStr, 0) // Int sort
	lim := new(big.Int).Lsh(big.NewInt(1), uint(r+gridBits))
	e.PC = append(e.PC, "(<= (- "+lim.String()+") "+n+")", "(<= "+n+" "+lim.String()+")")
	return sym{sReal, 0, n}, n
}

// ---- Go integers as SMT Ints (exact-grid mode) ----

func realToIntTrunc(x string) string {
	s := gridScale().String()
	if gridBits == 0 {
		return x
	}
	return "(ite (>= " + x + " 0) (div " + x + " " + s + ") (- (div (- " + x + ") " + s + ")))"
}

// toInt lifts a bit-vector literal to an Int literal.
func toInt(a sym, signed bool) sym {
	switch a.k {
	case sInt:
		return a
	case sBV:
		var u uint64
		if n, _ := fmt.Sscanf(a.t, "#x%x", &u); n == 1 && len(a.t) == 2+a.w/4 {
			v := new(big.Int).SetUint64(u)
			if signed && a.w <= 64 && u>>(uint(a.w)-1) == 1 {
				v.Sub(v, new(big.Int).Lsh(big.NewInt(1), uint(a.w)))
			}
			return sym{sInt, 0, intLit(v)}
		}
		panic(unsupported("mixing bit-vector and Int-encoded integers"))
	}
	panic(unsupported("toInt of a non-integer"))
}

// bvOfInt / intOfBV: an Int-encoded Go integer as the 64-bit pattern Go computes bit operations
// on, and back (two's complement for signed operands).
func bvOfInt(t string) string { return "((_ int2bv 64) " + t + ")" }

func intOfBV(t string, signed bool) string {
	u := "(bv2int " + t + ")"
	if !signed {
		return u
	}
	return "(ite (>= " + u + " 9223372036854775808) (- " + u + " 18446744073709551616) " + u + ")"
}

func intBinop(op token.Token, a, b sym, signed bool) value {
	f := ""
	switch op {
	case token.AND, token.OR, token.XOR, token.AND_NOT, token.SHR:
		if os.Getenv("GOSYM_INTBITS") == "" {
			// (int2bv/bv2int queries take z3 minutes each -- measured on a seeded change --, so
			// the exact-grid mode declines bit operations; the thorough tier's bit-vector mode has them)
			break
		}
		// bit operations: on the 64-bit two's-complement pattern (sign extension makes the result
		// right for every narrower Go type as well; none of these can leave the operand type's range)
		x, y := bvOfInt(a.t), bvOfInt(b.t)
		bop := map[token.Token]string{token.AND: "bvand", token.OR: "bvor", token.XOR: "bvxor"}[op]
		switch op {
		case token.AND_NOT:
			return sym{sInt, 0, intOfBV("(bvand "+x+" (bvnot "+y+"))", signed)}
		case token.SHR:
			if signed {
				return sym{sInt, 0, intOfBV("(bvashr "+x+" "+y+")", true)}
			}
			return sym{sInt, 0, intOfBV("(bvlshr "+x+" "+y+")", false)}
		}
		return sym{sInt, 0, intOfBV("("+bop+" "+x+" "+y+")", signed)}
	case token.LSS:
		f = "<"
	case token.LEQ:
		f = "<="
	case token.GTR:
		f = ">"
	case token.GEQ:
		f = ">="
	case token.EQL:
		return mkBool("(= " + a.t + " " + b.t + ")")
	case token.NEQ:
		return mkBool("(not (= " + a.t + " " + b.t + "))")
	case token.ADD:
		return sym{sInt, 0, "(+ " + a.t + " " + b.t + ")"}
	case token.SUB:
		return sym{sInt, 0, "(- " + a.t + " " + b.t + ")"}
	case token.REM:
		// Go's %: truncated division, sign of the dividend.  For a zero divisor Go panics;
		// the non-zero-divisor obligation is generated at materialisation.
		absb := realAbs(b.t)
		return sym{sInt, 0, "(ite (>= " + a.t + " 0) (mod " + a.t + " " + absb + ") (- (mod (- " + a.t + ") " + absb + ")))"}
	}
	if f != "" {
		return mkBool("(" + f + " " + a.t + " " + b.t + ")")
	}
	panic(unsupported(fmt.Sprintf("operator %v on Int-encoded integers", op)))
}

// freshInt draws an Int-encoded integer with |n| <= 2^r.
func (e *Explorer) freshInt(prefix string, r int) sym {
	e.nvars++
	n := fmt.Sprintf("%s%d", prefix, e.nvars)
	e.declare(n, sInt, 0)
	lim := new(big.Int).Lsh(big.NewInt(1), uint(r))
	e.PC = append(e.PC, "(<= (- "+lim.String()+") "+n+")", "(<= "+n+" "+lim.String()+")")
	return sym{sInt, 0, n}
}

package interp

// CompareDecls: structural comparison of two emitted files at the declaration level (C16).

import (
	"bytes"
	"fmt"
	"go/ast"
	"go/parser"
	"go/printer"
	"go/token"
	"sort"
	"strings"
)

type fileDecls struct {
	types   map[string]string
	funcs   map[string]string
	vars    map[string]string
	consts  map[string]string
	imports []string
}

func printNode(fset *token.FileSet, n ast.Node) string {
	var b bytes.Buffer
	_ = printer.Fprint(&b, fset, n)
	return b.String()
}

func collectDecls(src string, eraseTags bool) (*fileDecls, error) {
	fset := token.NewFileSet()
	f, err := parser.ParseFile(fset, "x.go", src, 0)
	if err != nil {
		return nil, err
	}
	if eraseTags {
		ast.Inspect(f, func(n ast.Node) bool {
			if fl, ok := n.(*ast.Field); ok {
				fl.Tag = nil
			}
			return true
		})
	}
	d := &fileDecls{types: map[string]string{}, funcs: map[string]string{}, vars: map[string]string{}, consts: map[string]string{}}
	for _, decl := range f.Decls {
		switch x := decl.(type) {
		case *ast.FuncDecl:
			name := x.Name.Name
			if x.Recv != nil && len(x.Recv.List) > 0 {
				name = printNode(fset, x.Recv.List[0].Type) + "." + name
			}
			d.funcs[name] = printNode(fset, x)
		case *ast.GenDecl:
			for _, sp := range x.Specs {
				switch s := sp.(type) {
				case *ast.TypeSpec:
					d.types[s.Name.Name] = printNode(fset, s)
				case *ast.ValueSpec:
					for _, n := range s.Names {
						if x.Tok == token.CONST {
							d.consts[n.Name] = printNode(fset, s)
						} else {
							d.vars[n.Name] = printNode(fset, s)
						}
					}
				case *ast.ImportSpec:
					d.imports = append(d.imports, s.Path.Value)
				}
			}
		}
	}
	sort.Strings(d.imports)
	return d, nil
}

func diffMaps(what string, a, b map[string]string) string {
	var keys []string
	for k := range a {
		keys = append(keys, k)
	}
	for k := range b {
		if _, ok := a[k]; !ok {
			keys = append(keys, k)
		}
	}
	sort.Strings(keys)
	for _, k := range keys {
		va, oka := a[k]
		vb, okb := b[k]
		switch {
		case !oka:
			return fmt.Sprintf("%s %s only in the second output", what, k)
		case !okb:
			return fmt.Sprintf("%s %s only in the first output", what, k)
		case va != vb:
			return fmt.Sprintf("%s %s differs", what, k)
		}
	}
	return ""
}

// compareDecls returns "" when the two outputs relate as mode prescribes.
func compareDecls(a, b, mode string) string {
	erase := mode == "tags"
	da, err := collectDecls(a, erase)
	if err != nil {
		return "first output does not parse: " + err.Error()
	}
	db, err := collectDecls(b, erase)
	if err != nil {
		return "second output does not parse: " + err.Error()
	}
	switch mode {
	case "only-models": // a = full run, b = --only-models
		if d := diffMaps("type", da.types, db.types); d != "" {
			return d
		}
		if len(db.funcs) > 0 {
			return "--only-models output declares functions/methods"
		}
		if len(db.vars) > 0 {
			return "--only-models output declares variables"
		}
	case "tags": // only struct tags may differ
		for _, p := range [][3]interface{}{{"type", da.types, db.types}, {"func", da.funcs, db.funcs}, {"var", da.vars, db.vars}, {"const", da.consts, db.consts}} {
			if d := diffMaps(p[0].(string), p[1].(map[string]string), p[2].(map[string]string)); d != "" {
				return d
			}
		}
		if strings.Join(da.imports, ",") != strings.Join(db.imports, ",") {
			return "imports differ"
		}
	case "no-yaml": // a = with --extra-imports, b = without
		if d := diffMaps("type", da.types, db.types); d != "" {
			return d
		}
		for k := range db.funcs {
			if strings.Contains(k, "YAML") {
				return "YAML method " + k + " without --extra-imports"
			}
		}
		for _, imp := range db.imports {
			if strings.Contains(imp, "yaml") {
				return "yaml import without --extra-imports"
			}
		}
		ja := map[string]string{}
		for k, v := range da.funcs {
			if !strings.Contains(k, "YAML") {
				ja[k] = v
			}
		}
		if d := diffMaps("func", ja, db.funcs); d != "" {
			return d
		}
		if d := diffMaps("var", da.vars, db.vars); d != "" {
			return d
		}
		if d := diffMaps("const", da.consts, db.consts); d != "" {
			return d
		}
	default:
		return "unknown comparison mode " + mode
	}
	return ""
}

func init() {
	natives[zz("CompareDecls")] = func(fr *frame, a []value) value {
		x := fr.i.x
		norm := func(s string) string {
			// hole identifiers are numbered along the path: compare by term
			for k := len(x.holes) - 1; k >= 0; k-- {
				h := x.holes[k]
				s = strings.ReplaceAll(s, h.info.Ident, "HOLE_"+fmt.Sprintf("%x", hashString(h.s.t)))
			}
			return s
		}
		r := compareDecls(norm(a[0].(string)), norm(a[1].(string)), a[2].(string))
		x.logVal("acc:CompareDecls", r)
		return r
	}
}

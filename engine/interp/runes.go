package interp

// Symbolic runes and rune strings (C14, DESIGN §8).
//
// A symbolic rune r is a BitVec-32 variable with a class variable cls!r ranging over the
// REALIZABLE attribute vectors of Go's Unicode tables, computed at start-up by scanning all
// 0x110000 code points: <IsLower, IsUpper, IsLetter, IsNumber, IsDigit, r=='_', r=='*',
// IsSpace, IsPunct, IsSymbol, IsMark, IsControl> for
// r itself and for ToUpper(r), ToTitle(r), ToLower(r), plus "map(r) == r".  unicode.Is* on a
// symbolic rune is a table lookup over cls; ToUpper/ToTitle/ToLower return the derived rune
// (up r) / (title r) / (low r) whose attributes come from the same vector.  A witness code
// point per vector makes every model replayable.

import (
	"fmt"
	"go/token"
	"go/types"
	"sort"
	"strings"
	"sync"
	"unicode"
)

type runeStr []value // each element: rune (int32) or sym BV32

var runeAttrNames = []string{"lower", "upper", "letter", "number", "digit", "underscore", "star", "space", "punct", "symbol", "mark", "control"}
var runeMaps = []string{"", "up", "title", "low"}

type runeClasses struct {
	vectors  [][]bool // per class: len(runeMaps)*len(attr)+len(runeMaps) bits
	witness  []rune
	colIndex map[string]int
}

var (
	rcOnce sync.Once
	rc     *runeClasses
)

func runeVector(r rune) []bool {
	var v []bool
	maps := []rune{r, unicode.ToUpper(r), unicode.ToTitle(r), unicode.ToLower(r)}
	for _, m := range maps {
		v = append(v, unicode.IsLower(m), unicode.IsUpper(m), unicode.IsLetter(m), unicode.IsNumber(m), unicode.IsDigit(m), m == '_', m == '*',
			unicode.IsSpace(m), unicode.IsPunct(m), unicode.IsSymbol(m), unicode.IsMark(m), unicode.IsControl(m))
	}
	for _, m := range maps {
		v = append(v, m == r)
	}
	return v
}

func getRuneClasses() *runeClasses {
	rcOnce.Do(func() {
		c := &runeClasses{colIndex: map[string]int{}}
		col := 0
		for _, m := range runeMaps {
			for _, a := range runeAttrNames {
				c.colIndex[m+":"+a] = col
				col++
			}
		}
		for _, m := range runeMaps {
			c.colIndex[m+":eq"] = col
			col++
		}
		seen := map[string]int{}
		for r := rune(0); r <= unicode.MaxRune; r++ {
			if r >= 0xD800 && r <= 0xDFFF {
				continue
			}
			v := runeVector(r)
			var sb strings.Builder
			for _, b := range v {
				if b {
					sb.WriteByte('1')
				} else {
					sb.WriteByte('0')
				}
			}
			k := sb.String()
			if _, ok := seen[k]; !ok {
				seen[k] = len(c.vectors)
				c.vectors = append(c.vectors, v)
				c.witness = append(c.witness, r)
			}
		}
		rc = c
	})
	return rc
}

// classPred: the SMT predicate "class variable cls has attribute col".
func classPred(cls string, col int) string {
	c := getRuneClasses()
	var idx []string
	for k, v := range c.vectors {
		if v[col] {
			idx = append(idx, fmt.Sprintf("(= %s %d)", cls, k))
		}
	}
	switch len(idx) {
	case 0:
		return "false"
	case 1:
		return idx[0]
	}
	return "(or " + strings.Join(idx, " ") + ")"
}

// splitRuneTerm: "r3" -> ("", "r3"); "(up r3)" -> ("up", "r3").
func splitRuneTerm(t string) (string, string, bool) {
	for _, m := range runeMaps[1:] {
		p := "(" + m + " "
		if strings.HasPrefix(t, p) && strings.HasSuffix(t, ")") {
			inner := t[len(p) : len(t)-1]
			if !strings.ContainsAny(inner, " ()") {
				return m, inner, true
			}
			return "", "", false
		}
	}
	if !strings.ContainsAny(t, " ()") {
		return "", t, true
	}
	return "", "", false
}

func (e *Explorer) freshRune() sym {
	s := e.fresh("r", sBV, 32)
	cls := "cls!" + s.t
	e.declare(cls, sInt, 0)
	n := len(getRuneClasses().vectors)
	e.PC = append(e.PC, fmt.Sprintf("(<= 0 %s)", cls), fmt.Sprintf("(< %s %d)", cls, n))
	c := getRuneClasses()
	// tie the few code points the code compares with to the class
	e.PC = append(e.PC,
		"(= (= "+s.t+" #x0000005f) "+classPred(cls, c.colIndex[":underscore"])+")",
		"(= (= "+s.t+" #x0000002a) "+classPred(cls, c.colIndex[":star"])+")")
	// ASCII code points (the ones code compares runes with, e.g. keywords) determine the class
	for _, rg := range asciiClassRanges() {
		e.PC = append(e.PC, fmt.Sprintf("(=> (and (bvuge %s #x%08x) (bvule %s #x%08x)) (= %s %d))", s.t, rg[0], s.t, rg[1], cls, rg[2]))
	}
	for _, m := range runeMaps[1:] {
		e.PC = append(e.PC,
			"(= (= ("+m+" "+s.t+") "+s.t+") "+classPred(cls, c.colIndex[m+":eq"])+")",
			"(= (= ("+m+" "+s.t+") #x0000005f) "+classPred(cls, c.colIndex[m+":underscore"])+")")
	}
	return s
}

func (i *interpreter) symRunePred(name string, s sym) value {
	m, base, ok := splitRuneTerm(s.t)
	if !ok || !i.x.declared["cls!"+base] {
		panic(unsupported("unicode predicate on a symbolic rune that is not a class rune: " + s.t))
	}
	col, ok := getRuneClasses().colIndex[m+":"+name]
	if !ok {
		panic(unsupported("unicode predicate " + name + " has no class column"))
	}
	return simplifyBool(mkBool(classPred("cls!"+base, col)))
}

func (i *interpreter) symRuneMap(name string, s sym) value {
	m, base, ok := splitRuneTerm(s.t)
	if !ok || m != "" || !i.x.declared["cls!"+base] {
		panic(unsupported("unicode case mapping of a derived symbolic rune: " + s.t))
	}
	fn := map[string]string{"toupper": "up", "totitle": "title", "tolower": "low"}[name]
	if fn == "" {
		panic(unsupported("rune map " + name))
	}
	return sym{sBV, 32, "(" + fn + " " + base + ")"}
}

// ---- rune strings ----

func toRuneStr(v value) (runeStr, bool) {
	switch x := v.(type) {
	case runeStr:
		return x, true
	case string:
		var out runeStr
		for _, r := range x {
			out = append(out, r)
		}
		return out, true
	}
	return nil, false
}

func runeStrHasSym(rs []value) bool {
	for _, r := range rs {
		if isSym(r) {
			return true
		}
	}
	return false
}

func runeStrConcat(a, b value) value {
	ra, ok1 := toRuneStr(a)
	rb, ok2 := toRuneStr(b)
	if !ok1 || !ok2 {
		panic(unsupported("concatenation with a rune string"))
	}
	out := append(append(runeStr{}, ra...), rb...)
	return normRuneStr(out)
}

func normRuneStr(rs runeStr) value {
	if runeStrHasSym(rs) {
		return rs
	}
	var sb strings.Builder
	for _, r := range rs {
		sb.WriteRune(r.(rune))
	}
	return sb.String()
}

// runeStrEq: equality of a rune string with another (rune) string.
func runeStrEq(a, b value) sym {
	ra, _ := toRuneStr(a)
	rb, _ := toRuneStr(b)
	if len(ra) != len(rb) {
		return mkBool("false")
	}
	res := mkBool("true")
	for k := range ra {
		res = symAnd(res, symEq(asTerm(ra[k]), asTerm(rb[k])))
	}
	return res
}

func init() {
	reg := func(name string, f natfn) { natives[zz(name)] = f }
	reg("RuneString", func(fr *frame, a []value) value {
		n := a[0].(int)
		out := make(runeStr, n)
		var terms []string
		for k := range out {
			s := fr.i.x.freshRune()
			out[k] = s
			terms = append(terms, s.t)
		}
		fr.i.x.res.Draws = append(fr.i.x.res.Draws, Draw{Kind: "runestr", N: n, Term: strings.Join(terms, ",")})
		if n == 0 {
			return ""
		}
		return out
	})
	reg("RuneCount", func(fr *frame, a []value) value {
		rs, ok := toRuneStr(a[0])
		if !ok {
			panic(unsupported("RuneCount"))
		}
		return len(rs)
	})
	reg("RuneAt", func(fr *frame, a []value) value {
		rs, ok := toRuneStr(a[0])
		if !ok {
			panic(unsupported("RuneAt"))
		}
		return rs[a[1].(int)]
	})
	reg("RuneSource", func(fr *frame, a []value) value {
		if s, ok := a[0].(sym); ok {
			if _, base, ok := splitRuneTerm(s.t); ok {
				return sym{sBV, 32, base}
			}
		}
		return a[0]
	})
	natives["unicode.ToTitle"] = func(fr *frame, a []value) value { return runeMap(fr, "totitle", unicode.ToTitle, a[0]) }
}

// RuneWitness returns the witness code point of class k and its derived mappings.
func RuneWitness(k int) rune {
	c := getRuneClasses()
	if k < 0 || k >= len(c.witness) {
		return 'x'
	}
	return c.witness[k]
}

// RuneClassOf returns the class index of a code point (-1 for surrogates / out of range).
func RuneClassOf(r rune) int {
	if r < 0 || r > unicode.MaxRune || (r >= 0xD800 && r <= 0xDFFF) {
		return -1
	}
	c := getRuneClasses()
	v := runeVector(r)
next:
	for k, w := range c.vectors {
		for j := range w {
			if w[j] != v[j] {
				continue next
			}
		}
		return k
	}
	return -1
}

var (
	asciiOnce   sync.Once
	asciiRanges [][3]int
)

// asciiClassRanges: maximal runs [lo,hi] of ASCII code points sharing one class.
func asciiClassRanges() [][3]int {
	asciiOnce.Do(func() {
		lo, cur := 0, RuneClassOf(0)
		for r := 1; r <= 128; r++ {
			k := -2
			if r < 128 {
				k = RuneClassOf(rune(r))
			}
			if k != cur {
				asciiRanges = append(asciiRanges, [3]int{lo, r - 1, cur})
				lo, cur = r, k
			}
		}
	})
	return asciiRanges
}

var goKeywords = []string{"break", "case", "chan", "const", "continue", "default", "defer", "else", "fallthrough", "for", "func", "go", "goto", "if", "import", "interface", "map", "package", "range", "return", "select", "struct", "switch", "type", "var"}

// tokenNatives: go/token's identifier predicates on (rune) strings.
func init() {
	isKeyword := func(v value) value {
		if s, ok := v.(string); ok {
			return token.IsKeyword(s)
		}
		rs, ok := toRuneStr(v)
		if !ok {
			panic(unsupported("go/token predicate on a symbolic string atom"))
		}
		res := mkBool("false")
		for _, kw := range goKeywords {
			res = symOr(res, runeStrEq(rs, kw))
		}
		return simplifyBool(res)
	}
	natives["go/token.IsKeyword"] = func(fr *frame, a []value) value { return isKeyword(a[0]) }
	natives["go/token.IsExported"] = func(fr *frame, a []value) value {
		if s, ok := a[0].(string); ok {
			return token.IsExported(s)
		}
		rs, ok := toRuneStr(a[0])
		if !ok {
			panic(unsupported("go/token predicate on a symbolic string atom"))
		}
		if len(rs) == 0 {
			return false
		}
		return runePred(fr, "upper", unicode.IsUpper, rs[0])
	}
	natives["go/token.IsIdentifier"] = func(fr *frame, a []value) value {
		if s, ok := a[0].(string); ok {
			return token.IsIdentifier(s)
		}
		rs, ok := toRuneStr(a[0])
		if !ok {
			panic(unsupported("go/token predicate on a symbolic string atom"))
		}
		if len(rs) == 0 {
			return false
		}
		res := symNot(asTerm(isKeyword(rs)))
		for k, r := range rs {
			ok := symOr(asTerm(runePred(fr, "letter", unicode.IsLetter, r)), symEq(asTerm(r), asTerm(rune('_'))))
			if k > 0 {
				ok = symOr(ok, asTerm(runePred(fr, "digit", unicode.IsDigit, r)))
			}
			res = symAnd(res, ok)
		}
		return simplifyBool(res)
	}
}

// RuneClassCount is the number of realizable attribute vectors (evidence).
func RuneClassCount() int { return len(getRuneClasses().vectors) }

var _ = sort.Strings
var _ types.Type

package interp

// Stage 2: the Go text emitted by the (symbolically executed) generator is parsed,
// type-checked against the real dependency packages and turned into SSA inside the same
// program, so that the emitted methods can be executed symbolically too (DESIGN §4).
//
// Symbolic numbers that were formatted into the text appear as identifiers ZZH<n>.  Pass 1
// type-checks the text with those identifiers declared as untyped constants (so that they
// are legal wherever a literal is, and go/types tells us the type each use is converted
// to).  Pass 2 replaces every use by a package-level variable of that type, whose cell the
// interpreter fills with the hole's term.  What the sentinel hides from the compiler is
// turned into explicit obligations: the value must fit the type of its context, and a
// divisor must not be zero.

import (
	"bytes"
	"fmt"
	"go/ast"
	"go/format"
	"go/parser"
	"go/token"
	"go/types"
	"regexp"
	"sort"
	"strings"

	"golang.org/x/tools/go/ast/astutil"
	"golang.org/x/tools/go/ssa"
)

type holeUse struct {
	Ident string // ZZH3
	Basic *types.Basic
	Var   string // ZZH3_int8
}

type obligation struct {
	Ident string
	Kind  string // fits | nonzero
	Basic *types.Basic
}

type Stage2 struct {
	Src       string
	Path      string
	PkgName   string
	ParseErr  string
	TypeErrs  []string
	FmtStable bool
	FmtErr    string
	Pkg       *ssa.Package
	TPkg      *types.Package
	Uses      map[string]holeUse // var name -> use
	Oblig     []obligation
	File      *ast.File
	HoleIdents []string
}

func (s *Stage2) OK() bool { return s.ParseErr == "" && len(s.TypeErrs) == 0 && s.Pkg != nil }

var holeIdentRE = regexp.MustCompile(`^ZZH\d+$`)

type mapImporter struct{ m *Machine }

func (mi mapImporter) Import(path string) (*types.Package, error) {
	if p, ok := mi.m.byPath[path]; ok && p.Types != nil {
		return p.Types, nil
	}
	mi.m.s2extraMu.Lock()
	defer mi.m.s2extraMu.Unlock()
	if p, ok := mi.m.s2extra[path]; ok {
		return p, nil
	}
	return nil, fmt.Errorf("package %q is not available to the emitted code (not among the loaded dependency packages)", path)
}

func newInfo() *types.Info {
	return &types.Info{
		Types: map[ast.Expr]types.TypeAndValue{}, Defs: map[*ast.Ident]types.Object{}, Uses: map[*ast.Ident]types.Object{},
		Implicits: map[ast.Node]types.Object{}, Scopes: map[ast.Node]*types.Scope{}, Selections: map[*ast.SelectorExpr]*types.Selection{},
		Instances: map[*ast.Ident]types.Instance{}, FileVersions: map[*ast.File]string{},
	}
}

// materialise builds (or fetches) the stage-2 package for emitted text.  holeSorts maps a
// hole identifier to "int" | "float" | "typed:<basic>" (how it must be declared in pass 1).
func (m *Machine) materialise(src string, holeSorts map[string]string, importPath string) *Stage2 {
	key := src
	var ids []string
	for id := range holeSorts {
		ids = append(ids, id)
	}
	sort.Strings(ids)
	for _, id := range ids {
		key += "\x00" + id + "=" + holeSorts[id]
	}
	key += "\x00path=" + importPath
	m.s2mu.Lock()
	defer m.s2mu.Unlock()
	if s, ok := m.s2cache[key]; ok {
		return s
	}
	m.s2seq++
	s := &Stage2{Src: src, Path: fmt.Sprintf("zzgen/p%d", m.s2seq), Uses: map[string]holeUse{}}
	m.s2cache[key] = s
	m.build2(s, holeSorts, importPath)
	return s
}

func (m *Machine) build2(s *Stage2, holeSorts map[string]string, importPath string) {
	fset := m.Fset
	fname := fmt.Sprintf("zzgen_p%d.go", m.s2seq)
	f, err := parser.ParseFile(fset, fname, s.Src, parser.ParseComments|parser.SkipObjectResolution)
	if err != nil {
		s.ParseErr = err.Error()
		return
	}
	s.File = f
	s.PkgName = f.Name.Name
	// gofmt stability (C01): formatting the text again changes nothing
	if out, err := format.Source([]byte(s.Src)); err != nil {
		s.FmtErr = err.Error()
	} else {
		s.FmtStable = bytes.Equal(out, []byte(s.Src))
	}
	// holes that actually occur as identifiers
	used := map[string]bool{}
	ast.Inspect(f, func(n ast.Node) bool {
		if id, ok := n.(*ast.Ident); ok && holeIdentRE.MatchString(id.Name) {
			used[id.Name] = true
		}
		return true
	})
	for id := range used {
		if _, ok := holeSorts[id]; !ok {
			s.TypeErrs = append(s.TypeErrs, "identifier "+id+" in emitted text does not belong to a hole of this path")
			return
		}
		s.HoleIdents = append(s.HoleIdents, id)
	}
	sort.Strings(s.HoleIdents)
	// holes that were formatted but do not occur as identifiers ended up inside a string
	// literal or a comment: harmless for behaviour; they simply are not materialised.

	// ---- pass 1: constants ----
	var pre bytes.Buffer
	fmt.Fprintf(&pre, "package %s\n\n", s.PkgName)
	for _, id := range s.HoleIdents {
		switch hs := holeSorts[id]; {
		case hs == "int":
			fmt.Fprintf(&pre, "const %s = 41\n", id)
		case hs == "float":
			fmt.Fprintf(&pre, "const %s = 41.5\n", id)
		case strings.HasPrefix(hs, "typed:"):
			t := strings.TrimPrefix(hs, "typed:")
			if strings.HasPrefix(t, "float") {
				fmt.Fprintf(&pre, "const %s %s = 41.5\n", id, t)
			} else {
				fmt.Fprintf(&pre, "const %s %s = 41\n", id, t)
			}
		}
	}
	pf, err := parser.ParseFile(fset, "zzholes_"+fname, pre.Bytes(), parser.SkipObjectResolution)
	if err != nil {
		s.TypeErrs = append(s.TypeErrs, "internal: prelude: "+err.Error())
		return
	}
	path := s.Path
	if importPath != "" {
		path = importPath
	}
	var terrs []string
	conf := &types.Config{Importer: mapImporter{m}, Error: func(err error) { terrs = append(terrs, err.Error()) }}
	info := newInfo()
	tpkg := types.NewPackage(path, s.PkgName)
	_ = types.NewChecker(conf, fset, tpkg, info).Files([]*ast.File{f, pf})
	if len(terrs) > 0 {
		for _, e := range terrs {
			// positions mention the virtual file; keep message text only after the position
			s.TypeErrs = append(s.TypeErrs, e)
		}
		return
	}
	// unused imports are reported by go/types as errors already ("imported and not used").

	// ---- pass 2: variables ----
	type repl struct {
		id  *ast.Ident
		typ types.Type
	}
	var repls []repl
	parentOf := map[ast.Node]ast.Node{}
	var stack []ast.Node
	ast.Inspect(f, func(n ast.Node) bool {
		if n == nil {
			stack = stack[:len(stack)-1]
			return true
		}
		if len(stack) > 0 {
			parentOf[n] = stack[len(stack)-1]
		}
		stack = append(stack, n)
		if id, ok := n.(*ast.Ident); ok && used[id.Name] {
			tv, ok := info.Types[id]
			if !ok {
				s.TypeErrs = append(s.TypeErrs, "internal: no type recorded for "+id.Name)
				return true
			}
			repls = append(repls, repl{id, tv.Type})
		}
		return true
	})
	if len(s.TypeErrs) > 0 {
		return
	}
	varDecl := map[string]string{}
	replaceBy := map[*ast.Ident]ast.Expr{}
	for _, r := range repls {
		b, ok := r.typ.Underlying().(*types.Basic)
		if !ok || b.Info()&types.IsNumeric == 0 {
			s.TypeErrs = append(s.TypeErrs, fmt.Sprintf("hole %s used at non-numeric type %v", r.id.Name, r.typ))
			return
		}
		if b.Info()&types.IsUntyped != 0 {
			b = types.Default(b).(*types.Basic)
		}
		vn := r.id.Name + "_" + b.Name()
		varDecl[vn] = b.Name()
		s.Uses[vn] = holeUse{Ident: r.id.Name, Basic: b, Var: vn}
		s.Oblig = append(s.Oblig, obligation{r.id.Name, "fits", b})
		if be, ok := parentOf[r.id].(*ast.BinaryExpr); ok && be.Y == r.id && (be.Op == token.REM || be.Op == token.QUO) && b.Info()&types.IsInteger != 0 {
			s.Oblig = append(s.Oblig, obligation{r.id.Name, "nonzero", b})
		}
		var e ast.Expr = &ast.Ident{NamePos: r.id.NamePos, Name: vn}
		if n, ok := r.typ.(*types.Named); ok {
			e = &ast.CallExpr{Fun: &ast.Ident{NamePos: r.id.NamePos, Name: n.Obj().Name()}, Args: []ast.Expr{e}}
		} else if _, isBasic := r.typ.(*types.Basic); !isBasic {
			if _, isAlias := r.typ.(*types.Alias); !isAlias {
				s.TypeErrs = append(s.TypeErrs, fmt.Sprintf("hole %s used at unsupported type %v", r.id.Name, r.typ))
				return
			}
		}
		replaceBy[r.id] = e
	}
	astutil.Apply(f, func(c *astutil.Cursor) bool {
		if id, ok := c.Node().(*ast.Ident); ok {
			if e, ok := replaceBy[id]; ok {
				c.Replace(e)
			}
		}
		return true
	}, nil)
	var pre2 bytes.Buffer
	fmt.Fprintf(&pre2, "package %s\n\n", s.PkgName)
	var vns []string
	for vn := range varDecl {
		vns = append(vns, vn)
	}
	sort.Strings(vns)
	for _, vn := range vns {
		fmt.Fprintf(&pre2, "var %s %s\n", vn, varDecl[vn])
	}
	pf2, err := parser.ParseFile(fset, "zzvars_"+fname, pre2.Bytes(), parser.SkipObjectResolution)
	if err != nil {
		s.TypeErrs = append(s.TypeErrs, "internal: prelude 2: "+err.Error())
		return
	}
	terrs = nil
	info2 := newInfo()
	tpkg2 := types.NewPackage(path, s.PkgName)
	_ = types.NewChecker(conf, fset, tpkg2, info2).Files([]*ast.File{f, pf2})
	if len(terrs) > 0 {
		for _, e := range terrs {
			s.TypeErrs = append(s.TypeErrs, "internal (pass 2): "+e)
		}
		return
	}
	s.TPkg = tpkg2
	progMu.Lock()
	sp := m.Prog.CreatePackage(tpkg2, []*ast.File{f, pf2}, info2, false)
	progMu.Unlock()
	sp.Build()
	s.Pkg = sp
	m.s2byPkg.Store(sp, s)
	if importPath != "" {
		m.s2extraMu.Lock()
		if m.s2extra == nil {
			m.s2extra = map[string]*types.Package{}
		}
		m.s2extra[importPath] = tpkg2
		m.s2extraMu.Unlock()
	}
}

// holeValueFor returns the term a materialised hole variable holds on the current path.
func (e *Explorer) holeValueFor(u holeUse) (value, bool) {
	for _, h := range e.holes {
		if h.info.Ident == u.Ident {
			return convertHole(h, u.Basic), true
		}
	}
	return nil, false
}

func holeSrcType(h holeRec) types.Type {
	switch h.s.k {
	case sF64, sReal:
		return types.Typ[types.Float64]
	}
	if h.info.Sgn {
		return types.Typ[types.Int64]
	}
	return types.Typ[types.Uint64]
}

func convertHole(h holeRec, b *types.Basic) value {
	return symConv(b, holeSrcType(h), h.s)
}

// fitsTerm is the obligation "the hole's value is representable in b".
func fitsTerm(h holeRec, b *types.Basic) sym {
	k, w, signed, ok := symSortOf(b)
	if !ok {
		return mkBool("true")
	}
	switch h.s.k {
	case sInt:
		if k == sF64 {
			return mkBool("true")
		}
		var lo, hi string
		switch {
		case signed:
			lo, hi = fmt.Sprintf("(- %d)", uint64(1)<<uint(w-1)), fmt.Sprint(uint64(1)<<uint(w-1)-1)
		case w < 64:
			lo, hi = "0", fmt.Sprint(uint64(1)<<uint(w)-1)
		default:
			lo, hi = "0", "18446744073709551615"
		}
		return mkBool("(and (<= " + lo + " " + h.s.t + ") (<= " + h.s.t + " " + hi + "))")
	case sBV:
		if k == sF64 {
			return mkBool("true")
		}
		if k != sBV {
			return mkBool("false")
		}
		if h.s.w != 64 {
			return mkBool("true")
		}
		if w == 64 && signed == h.info.Sgn {
			return mkBool("true")
		}
		var lo, hi string
		if h.info.Sgn {
			if signed {
				lo = bvLit(64, uint64(-(int64(1) << uint(w-1))))
				hi = bvLit(64, uint64((int64(1)<<uint(w-1))-1))
			} else {
				lo = bvLit(64, 0)
				if w == 64 {
					hi = bvLit(64, uint64(1<<63-1))
				} else {
					hi = bvLit(64, uint64(1)<<uint(w)-1)
				}
			}
			return mkBool("(and (bvsle " + lo + " " + h.s.t + ") (bvsle " + h.s.t + " " + hi + "))")
		}
		// unsigned hole
		if signed {
			hi = bvLit(64, uint64((int64(1)<<uint(w-1))-1))
		} else {
			hi = bvLit(64, uint64(1)<<uint(w)-1)
		}
		return mkBool("(bvule " + h.s.t + " " + hi + ")")
	case sF64, sReal:
		if k == sF64 {
			return mkBool("true")
		}
		return mkBool("false") // a float literal in an integer context is rejected in pass 1
	}
	return mkBool("true")
}

func nonzeroTerm(h holeRec) sym {
	switch h.s.k {
	case sInt:
		return mkBool("(not (= " + h.s.t + " 0))")
	case sBV:
		return symNot(symEq(h.s, sym{sBV, h.s.w, bvLit(h.s.w, 0)}))
	}
	return mkBool("true")
}

// obligationsTerm conjoins the obligations of a materialised package on this path.
func (e *Explorer) obligationsTerm(s *Stage2) sym {
	res := mkBool("true")
	for _, ob := range s.Oblig {
		for _, h := range e.holes {
			if h.info.Ident != ob.Ident {
				continue
			}
			switch ob.Kind {
			case "fits":
				res = symAnd(res, fitsTerm(h, ob.Basic))
			case "nonzero":
				res = symAnd(res, nonzeroTerm(h))
			}
		}
	}
	return res
}

// holeSortsFor tells materialise how to declare each hole of this path in pass 1.
func (e *Explorer) holeSortsFor() map[string]string {
	out := map[string]string{}
	for _, h := range e.holes {
		switch {
		case h.info.Verb == "litter":
			out[h.info.Ident] = "typed:" + h.typ
		case h.s.k == sF64 || h.s.k == sReal:
			out[h.info.Ident] = "float"
		case h.s.k == sInt:
			out[h.info.Ident] = "int"
		default:
			out[h.info.Ident] = "int"
		}
	}
	return out
}


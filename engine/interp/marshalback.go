package interp

// Marshal-back (C02, C08): "marshalling the decoded value back reproduces every non-empty
// declared value of the input unchanged".
//
// marshalKeeps walks the decoded Go value (typed) and the document node it was decoded from
// side by side, following encoding/json's marshalling rules (json tags, omitempty, embedded
// structs, pointer/slice/map/interface, MarshalJSON methods with pointer receivers on
// addressable values -- the value is marshalled through a pointer, json.Marshal(&v)), and
// returns the condition under which the emitted JSON reproduces the node:
//
//   * a key the output carries must equal the document member (same JSON kind and value);
//     a member the document does not have may appear in the output (defaults, zero values);
//   * a key the output omits (omitempty on an empty value, nil pointer) must be absent, null
//     or empty in the document;
//   * document members the Go type has no field for are outside the statement (undeclared).
//
// Generated MarshalJSON methods are interpreted; their json.Marshal(j.Value) call returns a
// token that the walk continues on.  Library types with their own text format (time.Time,
// netip.Addr, the pkg/types wrappers around them) are opaque: no statement (true).

import (
	"fmt"
	"go/types"
	"reflect"
	"strings"
)

// marshalTok stands for the bytes json.Marshal(v) returns inside an interpreted MarshalJSON.
type marshalTok struct {
	t types.Type
	v value
}

type marshalWalk struct {
	i  *interpreter
	fr *frame
}

func tt() sym { return mkBool("true") }
func ff() sym { return mkBool("false") }

// docEmpty: the member is absent, null, or an empty value of its kind (what omitempty drops).
func docEmpty(n *docNode) sym {
	zeroNum := symOr(
		symAnd(n.isint(), symEq(n.intv(), asTermLike(n.intv(), 0))),
		symAnd(symNot(n.isint()), symEq(n.floatv(), asTermLikeF(n.floatv(), 0))))
	emptyStr := mkBool("(= (blen " + n.strv().t + ") #x0000000000000000)")
	emptyArr := symEq(n.lenv(), sym{sBV, 64, bvLit(64, 0)})
	return symOr(n.kindIs(kAbsent), symOr(n.kindIs(kNull),
		symOr(symAnd(n.kindIs(kNumber), zeroNum),
			symOr(symAnd(n.kindIs(kString), emptyStr),
				symOr(symAnd(n.kindIs(kBool), symNot(n.boolv())), symAnd(n.kindIs(kArray), emptyArr))))))
}

func asTermLike(like sym, c int64) sym {
	if like.k == sInt {
		return sym{sInt, 0, fmt.Sprint(c)}
	}
	return sym{sBV, like.w, bvLit(like.w, uint64(c))}
}

func asTermLikeF(like sym, c float64) sym {
	if like.k == sReal {
		return sym{sReal, 0, realLit(c)}
	}
	return sym{sF64, 0, f64Lit(c)}
}

// emptyGo: the Go value is "empty" in omitempty's sense (symbolic for symbolic leaves).
func emptyGo(t types.Type, v value) sym {
	if s, ok := v.(sym); ok {
		switch s.k {
		case sBool:
			return symNot(s)
		case sStr:
			return mkBool("(= (blen " + s.t + ") #x0000000000000000)")
		case sInt:
			return symEq(s, sym{sInt, 0, "0"})
		case sReal:
			return symEq(s, sym{sReal, 0, "0"})
		case sF64:
			return mkBool("(fp.isZero " + s.t + ")")
		case sBV:
			return symEq(s, sym{sBV, s.w, bvLit(s.w, 0)})
		}
		return ff()
	}
	switch x := v.(type) {
	case *symMap:
		if x == nil || len(x.keys) == 0 {
			return tt()
		}
		return ff()
	case *docMap:
		if x == nil {
			return tt()
		}
		return ff() // an object with an unknown number of members: not treated as empty
	}
	if isEmptyJSON(v) {
		return tt()
	}
	return ff()
}

func (w *marshalWalk) marshalerOf(t types.Type) *types.Func {
	if _, isNamed := types.Unalias(t).(*types.Named); !isNamed {
		return nil
	}
	sel := w.i.prog.MethodSets.MethodSet(types.NewPointer(t)).Lookup(nil, "MarshalJSON")
	if sel == nil {
		return nil
	}
	f, _ := sel.Obj().(*types.Func)
	return f
}

// keeps: the JSON emitted for the value in *cell (type t) reproduces node n (n is present and
// non-null unless stated otherwise by the caller).
func (w *marshalWalk) keeps(t types.Type, cell *value, n *docNode, depth int) sym {
	// a null in the input is an empty value: nothing to reproduce
	return symOr(n.kindIs(kNull), w.keepsNonNull(t, cell, n, depth))
}

func (w *marshalWalk) keepsNonNull(t types.Type, cell *value, n *docNode, depth int) sym {
	if depth > 30 {
		panic(unsupported("marshal-back: value too deep"))
	}
	v := *cell
	if src, ok := w.i.x.opaqueSrc[cell]; ok && src != nil {
		return tt()
	}
	if nt, ok := types.Unalias(t).(*types.Named); ok && nt.Obj().Pkg() != nil && strings.HasSuffix(nt.Obj().Pkg().Path(), "/pkg/types") {
		return tt() // wrappers around library text formats: opaque (their decode is a stub, too)
	}
	if _, isPtr := t.Underlying().(*types.Pointer); !isPtr {
		if mf := w.marshalerOf(t); mf != nil {
			progMu.RLock()
			fn := w.i.prog.FuncValue(mf)
			progMu.RUnlock()
			if fn == nil || !w.i.m.interpreted(fn) {
				return tt() // library type with its own text format: opaque
			}
			recv := value(cell)
			if _, ptrRecv := mf.Type().(*types.Signature).Recv().Type().(*types.Pointer); !ptrRecv {
				recv = v
			}
			w.i.x.inMarshalBack++
			res := call(w.i, w.fr, 0, fn, []value{recv})
			w.i.x.inMarshalBack--
			tup, ok := res.(tuple)
			if !ok || len(tup) != 2 {
				panic(unsupported("marshal-back: MarshalJSON result"))
			}
			if e, isErr := tup[1].(iface); isErr && e.t != nil {
				return ff() // marshalling a decoded value fails
			}
			switch b := tup[0].(type) {
			case marshalTok:
				if b.t == nil {
					return symOr(n.kindIs(kNull), n.kindIs(kAbsent))
				}
				var inner value = b.v
				return w.keeps(b.t, &inner, n, depth+1)
			}
			return tt() // concrete or library-produced bytes (wrappers of library types): opaque
		}
	}
	if src, ok := w.i.x.opaqueSrc[cell]; ok && src != nil {
		return tt()
	}
	switch u := t.Underlying().(type) {
	case *types.Pointer:
		p, _ := v.(*value)
		if p == nil {
			return symOr(n.kindIs(kNull), n.kindIs(kAbsent))
		}
		return w.keeps(u.Elem(), p, n, depth+1)
	case *types.Interface:
		it, _ := v.(iface)
		if it.t == nil {
			return symOr(n.kindIs(kNull), n.kindIs(kAbsent))
		}
		inner := it.v
		return w.keeps(it.t, &inner, n, depth+1)
	case *types.Basic:
		return w.basic(u, v, n)
	case *types.Slice:
		xs, _ := v.([]value)
		if xs == nil {
			return symOr(n.kindIs(kNull), n.kindIs(kAbsent))
		}
		res := symAnd(n.kindIs(kArray), symEq(n.lenv(), sym{sBV, 64, bvLit(64, uint64(len(xs)))}))
		for k := range xs {
			res = symAnd(res, w.keeps(u.Elem(), &xs[k], n.child(fmt.Sprint(k)), depth+1))
		}
		return res
	case *types.Map:
		switch m := v.(type) {
		case *docMap:
			if m == nil {
				return symOr(n.kindIs(kNull), n.kindIs(kAbsent))
			}
			// an untyped object kept as a view of its document node
			if m.n.canon() == n.canon() && len(m.deleted) == 0 {
				return n.kindIs(kObject)
			}
			return ff()
		case *symMap:
			if m == nil {
				return symOr(n.kindIs(kNull), n.kindIs(kAbsent))
			}
			res := n.kindIs(kObject)
			for k, key := range m.keys {
				// the key node IS the document member: same name by construction
				if !isChildOf(key.canon(), n.canon()) {
					return ff()
				}
				res = symAnd(res, w.keeps(u.Elem(), &m.vals[k], key, depth+1))
			}
			return res
		}
		if mapIsNil(v) {
			return symOr(n.kindIs(kNull), n.kindIs(kAbsent))
		}
		// a concrete Go map (e.g. the empty map a generated method installs): its keys are names
		ks, vs := mapEntries(v)
		res := n.kindIs(kObject)
		for k := range ks {
			name, ok := ks[k].(string)
			if !ok {
				panic(unsupported("marshal-back: map with non-string keys"))
			}
			res = symAnd(res, w.keeps(u.Elem(), &vs[k], n.child(name), depth+1))
		}
		return res
	case *types.Struct:
		return symAnd(n.kindIs(kObject), w.structKeeps(u, v.(structure), n, depth))
	}
	panic(unsupported("marshal-back: " + typeString(t)))
}

func (w *marshalWalk) structKeeps(u *types.Struct, st structure, n *docNode, depth int) sym {
	res := tt()
	for k := 0; k < u.NumFields(); k++ {
		f := u.Field(k)
		tag := reflect.StructTag(u.Tag(k)).Get("json")
		if tag == "-" {
			continue
		}
		if f.Anonymous() && tag == "" {
			ft, fv := f.Type(), st[k]
			if pt, ok := ft.Underlying().(*types.Pointer); ok {
				p, _ := fv.(*value)
				if p == nil {
					continue
				}
				ft, fv = pt.Elem(), *p
			}
			if su, ok := ft.Underlying().(*types.Struct); ok && w.marshalerOf(ft) == nil {
				res = symAnd(res, w.structKeeps(su, fv.(structure), n, depth+1))
				continue
			}
		}
		if !f.Exported() {
			continue
		}
		name, omit := f.Name(), false
		if tag != "" {
			parts := strings.Split(tag, ",")
			if parts[0] != "" {
				name = parts[0]
			}
			for _, p := range parts[1:] {
				if p == "omitempty" {
					omit = true
				}
			}
		}
		child := n.child(name)
		// a member the document does not have may appear in the output
		present := symNot(child.kindIs(kAbsent))
		same := w.keeps(f.Type(), &st[k], child, depth+1)
		if omit {
			e := emptyGo(f.Type(), st[k])
			// omitted key: the document member must itself be empty/absent/null (an object all of
			// whose members were seen to be absent -- a map decoded to zero entries -- is empty)
			de := docEmpty(child)
			if sm, ok := st[k].(*symMap); ok && sm != nil && len(sm.keys) == 0 {
				de = symOr(de, child.kindIs(kObject))
			}
			same = symOr(symAnd(e, de), symAnd(symNot(e), same))
		}
		res = symAnd(res, symOr(symNot(present), same))
	}
	return res
}

func (w *marshalWalk) basic(b *types.Basic, v value, n *docNode) sym {
	switch {
	case b.Kind() == types.String:
		return symAnd(n.kindIs(kString), symEq(asTerm(v), n.strv()))
	case b.Kind() == types.Bool:
		return symAnd(n.kindIs(kBool), symEq(asTerm(v), n.boolv()))
	case b.Info()&types.IsFloat != 0:
		// a number written as an integer reaches a float field as the same number (linked views)
		return symAnd(n.kindIs(kNumber), symEq(asTerm(v), n.floatv()))
	case b.Info()&types.IsInteger != 0:
		return symAnd(n.kindIs(kNumber), symAnd(n.isint(), symEq(asTerm(v), n.intv())))
	}
	panic(unsupported("marshal-back: basic type " + b.Name()))
}

// isChildOf: c is a direct member of n (same document).
func isChildOf(c, n *docNode) bool {
	if c.doc != n.doc {
		return false
	}
	prefix := ""
	if n.path != "" {
		prefix = n.path + "/"
	}
	return strings.HasPrefix(c.path, prefix) && !strings.Contains(c.path[len(prefix):], "/")
}

// extrasCollected: the map at goPath of the decoded value holds exactly the undeclared members
// of the document node at docPath (the E extra members that are present), with their values.
func (w *marshalWalk) extrasCollected(r *S2Result, goPath string, n *docNode) sym {
	v, t, ok := w.i.navigate(*r.Recv, r.RecvType, goPath)
	if !ok {
		// a nil pointer on the way: nothing was collected; fine iff no extra member is present
		res := tt()
		for k := 0; k < w.i.x.docExtra(); k++ {
			res = symAnd(res, n.child(fmt.Sprintf("+%d", k)).kindIs(kAbsent))
		}
		return res
	}
	mt, isMap := t.Underlying().(*types.Map)
	if !isMap {
		panic(unsupported("RExtrasCollected: " + goPath + " is not a map"))
	}
	sm, _ := v.(*symMap)
	has := func(el *docNode) (int, bool) {
		if sm == nil {
			return 0, false
		}
		for k, key := range sm.keys {
			if key.canon() == el.canon() {
				return k, true
			}
		}
		return 0, false
	}
	res := tt()
	for k := 0; k < w.i.x.docExtra(); k++ {
		el := n.child(fmt.Sprintf("+%d", k))
		if idx, in := has(el); in {
			res = symAnd(res, symAnd(symNot(el.kindIs(kAbsent)), w.keeps(mt.Elem(), &sm.vals[idx], el, 0)))
		} else {
			res = symAnd(res, el.kindIs(kAbsent))
		}
	}
	if sm != nil {
		for _, key := range sm.keys {
			if !strings.HasPrefix(key.canon().path[strings.LastIndex(key.canon().path, "/")+1:], "+") {
				return ff() // a declared member was collected
			}
		}
	}
	return res
}

func init() {
	reg := func(name string, f natfn) { natives[zz(name)] = f }
	reg("RExtrasCollected", func(fr *frame, a []value) value {
		x := fr.i.x
		r := x.s2results[a[0].(int)]
		n := x.docs[a[2].(int)].at(a[3].(string))
		w := &marshalWalk{i: fr.i, fr: fr}
		v := simplifyBool(w.extrasCollected(r, a[1].(string), n))
		x.logVal("acc:RExtrasCollected", v)
		return v
	})
	// RMarshalBack(r, doc): json.Marshal(&decoded) reproduces every non-empty declared value of doc.
	reg("RMarshalBack", func(fr *frame, a []value) value {
		x := fr.i.x
		r := x.s2results[a[0].(int)]
		n := x.docs[a[1].(int)]
		w := &marshalWalk{i: fr.i, fr: fr}
		c := w.keeps(r.RecvType, r.Recv, n, 0)
		v := simplifyBool(c)
		x.logVal("acc:RMarshalBack", v)
		return v
	})
}

package interp

// Structural equality over interpreter values (reflect.DeepEqual, cmp.Equal with the
// repository's options) and typed conversion to real reflect values (for litter).

import (
	"fmt"
	"go/types"
	"reflect"
	"strings"
)

// deepEqualIface models reflect.DeepEqual(x, y) on two interface-boxed values.  The result
// is a Go bool, or a symbolic Bool when symbolic leaves are compared.
func (i *interpreter) deepEqualIface(x, y iface) value {
	if x.t == nil || y.t == nil {
		return x.t == nil && y.t == nil
	}
	if !types.Identical(x.t, y.t) {
		return false
	}
	r := i.deepEq(x.t, x.v, y.v, map[[2]*value]bool{}, nil)
	if r.t == "true" {
		return true
	}
	if r.t == "false" {
		return false
	}
	return r
}

type fieldFilter func(st *types.Struct, idx int, owner types.Type) bool // true = ignore

func (i *interpreter) deepEq(t types.Type, x, y value, seen map[[2]*value]bool, ignore fieldFilter) sym {
	tt := mkBool("true")
	ff := mkBool("false")
	b2s := func(b bool) sym {
		if b {
			return tt
		}
		return ff
	}
	if sx, ok := x.(sym); ok {
		return symEq(sx, asTerm(y))
	}
	if sy, ok := y.(sym); ok {
		return symEq(asTerm(x), sy)
	}
	switch u := t.Underlying().(type) {
	case *types.Basic:
		return b2s(equals(t, x, y))
	case *types.Pointer:
		px, py := x.(*value), y.(*value)
		if px == nil || py == nil {
			return b2s(px == py)
		}
		if px == py {
			return tt
		}
		k := [2]*value{px, py}
		if seen[k] {
			return tt
		}
		seen[k] = true
		return i.deepEq(u.Elem(), *px, *py, seen, ignore)
	case *types.Struct:
		sx, sy := x.(structure), y.(structure)
		res := tt
		for k := 0; k < u.NumFields(); k++ {
			if ignore != nil && ignore(u, k, t) {
				continue
			}
			res = symAnd(res, i.deepEq(u.Field(k).Type(), sx[k], sy[k], seen, ignore))
			if res.t == "false" {
				return ff
			}
		}
		return res
	case *types.Slice:
		ax, _ := x.([]value)
		ay, _ := y.([]value)
		if (ax == nil) != (ay == nil) || len(ax) != len(ay) {
			return ff
		}
		res := tt
		for k := range ax {
			res = symAnd(res, i.deepEq(u.Elem(), ax[k], ay[k], seen, ignore))
			if res.t == "false" {
				return ff
			}
		}
		return res
	case *types.Array:
		ax, ay := x.(array), y.(array)
		res := tt
		for k := range ax {
			res = symAnd(res, i.deepEq(u.Elem(), ax[k], ay[k], seen, ignore))
		}
		return res
	case *types.Interface:
		ix, iy := x.(iface), y.(iface)
		if ix.t == nil || iy.t == nil {
			return b2s(ix.t == nil && iy.t == nil)
		}
		if !types.Identical(ix.t, iy.t) {
			return ff
		}
		return i.deepEq(ix.t, ix.v, iy.v, seen, ignore)
	case *types.Map:
		if dx, ok := x.(*docMap); ok {
			dy, ok := y.(*docMap)
			return b2s(ok && (dx == nil) == (dy == nil) && (dx == nil || dx.n.canon() == dy.n.canon()))
		}
		if sx, ok := x.(*symMap); ok {
			sy, ok := y.(*symMap)
			if !ok || (sx == nil) != (sy == nil) {
				return ff
			}
			if sx == nil {
				return tt
			}
			if len(sx.keys) != len(sy.keys) {
				return ff
			}
			res := tt
			for k := range sx.keys {
				if sx.keys[k].canon() != sy.keys[k].canon() {
					return ff
				}
				res = symAnd(res, i.deepEq(u.Elem(), sx.vals[k], sy.vals[k], seen, ignore))
			}
			return res
		}
		if _, ok := y.(*docMap); ok {
			return b2s(mapIsNil(x) && y.(*docMap) == nil)
		}
		if _, ok := y.(*symMap); ok {
			return b2s(mapIsNil(x) && y.(*symMap) == nil)
		}
		kx, vx := mapEntries(x)
		ky, vy := mapEntries(y)
		if (kx == nil) != (ky == nil) || len(kx) != len(ky) {
			// nil map vs empty map differ under DeepEqual
			if mapIsNil(x) != mapIsNil(y) || len(kx) != len(ky) {
				return ff
			}
		}
		res := tt
		for a, k := range kx {
			found := false
			for b, k2 := range ky {
				if equals(u.Key(), k, k2) {
					res = symAnd(res, i.deepEq(u.Elem(), vx[a], vy[b], seen, ignore))
					found = true
					break
				}
			}
			if !found {
				return ff
			}
		}
		return res
	case *types.Signature:
		return b2s(funcIsNil(x) && funcIsNil(y))
	}
	panic(unsupported(fmt.Sprintf("deepEq on %v", t)))
}

func funcIsNil(v value) bool {
	switch f := v.(type) {
	case nil:
		return true
	case *closure:
		return f == nil
	case interface{ Name() string }:
		return reflect.ValueOf(f).IsNil()
	}
	return false
}

func mapIsNil(v value) bool {
	switch m := v.(type) {
	case map[value]value:
		return m == nil
	case *hashmap:
		return m == nil
	case nil:
		return true
	}
	return false
}

func mapEntries(v value) (keys, vals []value) {
	switch m := v.(type) {
	case map[value]value:
		for k := range m {
			keys = append(keys, k)
		}
		sortedMapKeys(keys)
		for _, k := range keys {
			vals = append(vals, m[k])
		}
	case *hashmap:
		if m == nil {
			return
		}
		type kv struct{ k, v value }
		var all []kv
		for _, e := range m.entries() {
			for ; e != nil; e = e.next {
				all = append(all, kv{e.key, e.value})
			}
		}
		for _, e := range all {
			keys = append(keys, e.k)
			vals = append(vals, e.v)
		}
	}
	return
}

// cmp.Equal(a, b, opts...) with the options the repository builds in pkg/cmputil:
// cmpopts.IgnoreUnexported(T...) and cmpopts.IgnoreFields(T, names...).  The options are
// honoured as given (a change to the option list changes the comparison), for struct types
// T; dotted field paths and other options are UNSUPPORTED.  (cmp.Equal treats nil and empty
// slices/maps as different, like DeepEqual; it panics on unexported fields that no option
// covers -- modelled as UNSUPPORTED.)
type cmpOpt struct {
	unexported bool
	typ        types.Type
	names      []string
}

func (i *interpreter) cmpEqual(x, y iface, opts []cmpOpt) value {
	if x.t == nil || y.t == nil {
		return x.t == nil && y.t == nil
	}
	if !types.Identical(x.t, y.t) {
		return false
	}
	ignore := func(st *types.Struct, idx int, owner types.Type) bool {
		f := st.Field(idx)
		covered := false
		for _, o := range opts {
			if !types.Identical(o.typ, owner) {
				continue
			}
			if o.unexported {
				if !f.Exported() {
					return true
				}
				continue
			}
			for _, n := range o.names {
				if n == f.Name() {
					return true
				}
			}
		}
		if !f.Exported() && !covered {
			panic(unsupported("cmp.Equal on an unexported field not covered by IgnoreUnexported (it panics): " + f.Name()))
		}
		return false
	}
	r := i.deepEq(x.t, x.v, y.v, map[[2]*value]bool{}, ignore)
	if r.t == "true" {
		return true
	}
	if r.t == "false" {
		return false
	}
	return r
}

func init() {
	natives["github.com/google/go-cmp/cmp.Equal"] = func(fr *frame, a []value) value {
		var opts []cmpOpt
		if xs, ok := a[2].([]value); ok {
			for _, o := range xs {
				it, ok := o.(iface)
				if !ok {
					panic(unsupported("cmp.Equal option"))
				}
				co, ok := it.v.(cmpOpt)
				if !ok {
					panic(unsupported(fmt.Sprintf("cmp.Equal option %T", it.v)))
				}
				opts = append(opts, co)
			}
		}
		return fr.i.cmpEqual(a[0].(iface), a[1].(iface), opts)
	}
	optType := types.NewNamed(types.NewTypeName(0, nil, "cmpOption", nil), types.NewStruct(nil, nil), nil)
	natives["github.com/google/go-cmp/cmp/cmpopts.IgnoreUnexported"] = func(fr *frame, a []value) value {
		xs, _ := a[0].([]value)
		if len(xs) != 1 {
			panic(unsupported("cmpopts.IgnoreUnexported with other than one type"))
		}
		return iface{t: optType, v: cmpOpt{unexported: true, typ: xs[0].(iface).t}}
	}
	natives["github.com/google/go-cmp/cmp/cmpopts.IgnoreFields"] = func(fr *frame, a []value) value {
		var names []string
		xs, _ := a[1].([]value)
		for _, n := range xs {
			s, ok := n.(string)
			if !ok || strings.Contains(s, ".") {
				panic(unsupported("cmpopts.IgnoreFields with a symbolic or dotted name"))
			}
			names = append(names, s)
		}
		return iface{t: optType, v: cmpOpt{typ: a[0].(iface).t, names: names}}
	}
}

// ---- typed conversion to real Go values (litter.Sdump) ----

func rtypeOf(t types.Type) reflect.Type {
	switch u := t.(type) {
	case *types.Basic:
		switch u.Kind() {
		case types.Bool:
			return reflect.TypeOf(false)
		case types.String:
			return reflect.TypeOf("")
		case types.Int:
			return reflect.TypeOf(int(0))
		case types.Int8:
			return reflect.TypeOf(int8(0))
		case types.Int16:
			return reflect.TypeOf(int16(0))
		case types.Int32:
			return reflect.TypeOf(int32(0))
		case types.Int64:
			return reflect.TypeOf(int64(0))
		case types.Uint:
			return reflect.TypeOf(uint(0))
		case types.Uint8:
			return reflect.TypeOf(uint8(0))
		case types.Uint16:
			return reflect.TypeOf(uint16(0))
		case types.Uint32:
			return reflect.TypeOf(uint32(0))
		case types.Uint64:
			return reflect.TypeOf(uint64(0))
		case types.Float64:
			return reflect.TypeOf(float64(0))
		case types.Float32:
			return reflect.TypeOf(float32(0))
		}
	case *types.Interface:
		if u.Empty() {
			return reflect.TypeOf((*interface{})(nil)).Elem()
		}
	case *types.Slice:
		return reflect.SliceOf(rtypeOf(u.Elem()))
	case *types.Map:
		return reflect.MapOf(rtypeOf(u.Key()), rtypeOf(u.Elem()))
	case *types.Alias:
		return rtypeOf(types.Unalias(u))
	}
	panic(unsupported(fmt.Sprintf("rtypeOf(%v)", t)))
}

func toReflect(t types.Type, v value) reflect.Value {
	t = types.Unalias(t)
	rt := rtypeOf(t)
	switch u := t.(type) {
	case *types.Basic:
		if _, ok := v.(sym); ok {
			panic(unsupported("symbolic value inside a litter dump"))
		}
		return reflect.ValueOf(v).Convert(rt)
	case *types.Interface:
		it := v.(iface)
		if it.t == nil {
			return reflect.Zero(rt)
		}
		out := reflect.New(rt).Elem()
		out.Set(toReflect(it.t, it.v))
		return out
	case *types.Slice:
		xs, _ := v.([]value)
		if xs == nil {
			return reflect.Zero(rt)
		}
		out := reflect.MakeSlice(rt, len(xs), len(xs))
		for k, x := range xs {
			out.Index(k).Set(toReflect(u.Elem(), x))
		}
		return out
	case *types.Map:
		if mapIsNil(v) {
			return reflect.Zero(rt)
		}
		out := reflect.MakeMap(rt)
		ks, vs := mapEntries(v)
		for k := range ks {
			out.SetMapIndex(toReflect(u.Key(), ks[k]), toReflect(u.Elem(), vs[k]))
		}
		return out
	}
	panic(unsupported("toReflect"))
}

func (i *interpreter) toReflectIface(it iface) interface{} {
	return toReflect(it.t, it.v).Interface()
}

package interp

// Solver layer: one persistent solver process per worker, SMT-LIB2 text over a pipe.
// Every query is self-contained ((reset) + declarations + assertions); any "(error"
// line makes the answer inconclusive.

import (
	"bufio"
	"fmt"
	"io"
	"math"
	"os"
	"os/exec"
	"strconv"
	"strings"
	"time"
	"unicode/utf8"
)

type Solver struct {
	Name    string
	cmd     *exec.Cmd
	in      io.WriteCloser
	out     *bufio.Reader
	Timeout time.Duration

	Queries  int
	Sat      int
	Unsat    int
	Unknown  int
	Errors   int
	Wall     time.Duration
	MaxQuery time.Duration
	Restarts int // solver processes killed by the watchdog (or lost) and replaced
}

// NewSolver starts a solver: "z3" (4.8.12), "z3-new" (5.1.0) or "cvc5".
func NewSolver(name string, timeout time.Duration) (*Solver, error) {
	s := &Solver{Name: name, Timeout: timeout}
	if err := s.start(); err != nil {
		return nil, err
	}
	return s, nil
}

// start (re)starts the solver process.
func (s *Solver) start() error {
	name, timeout := s.Name, s.Timeout
	var cmd *exec.Cmd
	switch name {
	case "z3", "z3-new":
		cmd = exec.Command(name, "-in")
	case "cvc5":
		cmd = exec.Command("cvc5", "--incremental", "--produce-models", "--lang=smt2", fmt.Sprintf("--tlimit-per=%d", timeout.Milliseconds()))
	default:
		return fmt.Errorf("unknown solver %q", name)
	}
	in, err := cmd.StdinPipe()
	if err != nil {
		return err
	}
	out, err := cmd.StdoutPipe()
	if err != nil {
		return err
	}
	cmd.Stderr = cmd.Stdout
	if err := cmd.Start(); err != nil {
		return err
	}
	s.cmd, s.in, s.out = cmd, in, bufio.NewReaderSize(out, 1<<16)
	return nil
}

func (s *Solver) Close() {
	if s == nil || s.cmd == nil {
		return
	}
	s.in.Close()
	s.cmd.Process.Kill()
	s.cmd.Wait()
}

const endMarker = "~~END~~"

// Run sends a script and returns the output lines up to the end marker.
func (s *Solver) run(script string) ([]string, error) {
	if s.cmd == nil {
		if err := s.start(); err != nil {
			return nil, err
		}
	}
	// watchdog: z3 does not always honour (set-option :timeout): a query that has not answered
	// well after its cap gets its process killed; the answer is then inconclusive ("error",
	// never a verdict) and the next query starts a fresh process
	proc := s.cmd.Process
	wd := time.AfterFunc(s.Timeout+30*time.Second, func() { _ = proc.Kill() })
	defer wd.Stop()
	fail := func(lines []string, err error) ([]string, error) {
		s.in.Close()
		_ = proc.Kill()
		_ = s.cmd.Wait()
		s.cmd = nil
		s.Restarts++
		return lines, err
	}
	if _, err := io.WriteString(s.in, script+"\n(echo \""+endMarker+"\")\n"); err != nil {
		return fail(nil, err)
	}
	var lines []string
	for {
		l, err := s.out.ReadString('\n')
		if err != nil {
			return fail(lines, err)
		}
		l = strings.TrimSpace(l)
		if l == endMarker || l == "\""+endMarker+"\"" {
			return lines, nil
		}
		if l != "" {
			lines = append(lines, l)
		}
	}
}

// Check decides satisfiability of decls+asserts.  If evals is non-empty and the answer is
// sat, the values of those terms are returned (raw SMT-LIB text keyed by term).
func (s *Solver) Check(decls []string, asserts []string, evals []string) (string, map[string]string) {
	t0 := time.Now()
	var sb strings.Builder
	sb.WriteString("(reset)\n")
	if s.Name != "cvc5" {
		fmt.Fprintf(&sb, "(set-option :timeout %d)\n", s.Timeout.Milliseconds())
	} else {
		sb.WriteString("(set-logic ALL)\n")
	}
	body := strings.Join(decls, "\n") + "\n" + strings.Join(asserts, "\n")
	if len(evals) > 0 {
		body += "\n" + strings.Join(evals, "\n")
	}
	sb.WriteString("(declare-fun blen (Int) (_ BitVec 64))\n(declare-fun rlen (Int) (_ BitVec 64))\n")
	if strings.Contains(body, "cls!") {
		sb.WriteString("(declare-fun up ((_ BitVec 32)) (_ BitVec 32))\n(declare-fun title ((_ BitVec 32)) (_ BitVec 32))\n(declare-fun low ((_ BitVec 32)) (_ BitVec 32))\n")
	}
	sb.WriteString(tokenPreamble(body))
	for _, d := range decls {
		sb.WriteString(d)
		sb.WriteByte('\n')
	}
	for _, a := range asserts {
		sb.WriteString("(assert ")
		sb.WriteString(a)
		sb.WriteString(")\n")
	}
	sb.WriteString("(check-sat)\n")
	lines, err := s.run(sb.String())
	res := "error"
	if err == nil {
		res = ""
		for _, l := range lines {
			if strings.HasPrefix(l, "(error") {
				res = "error"
				LastSolverError = l + "\n" + sb.String()
				break
			}
			if l == "sat" || l == "unsat" || l == "unknown" || l == "timeout" {
				res = l
			}
		}
		if res == "" {
			res = "error"
			LastSolverError = strings.Join(lines, "\n") + "\n" + sb.String()
		}
		if res == "timeout" {
			res = "unknown"
		}
	}
	var vals map[string]string
	if res == "sat" && len(evals) > 0 {
		vals = map[string]string{}
		// ask in chunks so one bad term does not lose everything
		const chunk = 40
		for i := 0; i < len(evals); i += chunk {
			j := i + chunk
			if j > len(evals) {
				j = len(evals)
			}
			ls, err := s.run("(get-value (" + strings.Join(evals[i:j], " ") + "))")
			if err != nil {
				break
			}
			txt := strings.Join(ls, " ")
			if strings.Contains(txt, "(error") {
				continue
			}
			sx, _, err := parseSexp(txt, 0)
			if err != nil {
				continue
			}
			for k, pair := range sx.list {
				if len(pair.list) == 2 && i+k < len(evals) {
					vals[evals[i+k]] = pair.list[1].String()
				}
			}
		}
	}
	d := time.Since(t0)
	if dumpDir != "" && d > 2*time.Second {
		dumpSeq++
		_ = os.WriteFile(fmt.Sprintf("%s/q%d_%s_%dms.smt2", dumpDir, dumpSeq, res, d.Milliseconds()), []byte(sb.String()), 0o644)
	}
	s.Queries++
	s.Wall += d
	if d > s.MaxQuery {
		s.MaxQuery = d
	}
	switch res {
	case "sat":
		s.Sat++
	case "unsat":
		s.Unsat++
	case "unknown":
		s.Unknown++
	default:
		s.Errors++
	}
	return res, vals
}

var LastSolverError string

var dumpDir = os.Getenv("GOSYM_DUMPQ")
var dumpSeq int

// ---- tiny s-expression reader ----

type sexp struct {
	atom string
	list []*sexp
	isL  bool
}

func (s *sexp) String() string {
	if !s.isL {
		return s.atom
	}
	parts := make([]string, len(s.list))
	for i, e := range s.list {
		parts[i] = e.String()
	}
	return "(" + strings.Join(parts, " ") + ")"
}

func parseSexp(t string, i int) (*sexp, int, error) {
	for i < len(t) && (t[i] == ' ' || t[i] == '\n' || t[i] == '\t') {
		i++
	}
	if i >= len(t) {
		return nil, i, fmt.Errorf("eof")
	}
	if t[i] == '(' {
		i++
		n := &sexp{isL: true}
		for {
			for i < len(t) && (t[i] == ' ' || t[i] == '\n' || t[i] == '\t') {
				i++
			}
			if i >= len(t) {
				return nil, i, fmt.Errorf("eof in list")
			}
			if t[i] == ')' {
				return n, i + 1, nil
			}
			c, j, err := parseSexp(t, i)
			if err != nil {
				return nil, j, err
			}
			n.list = append(n.list, c)
			i = j
		}
	}
	if t[i] == '"' {
		j := i + 1
		for j < len(t) && t[j] != '"' {
			j++
		}
		return &sexp{atom: t[i : j+1]}, j + 1, nil
	}
	j := i
	for j < len(t) && t[j] != ' ' && t[j] != ')' && t[j] != '(' && t[j] != '\n' {
		j++
	}
	return &sexp{atom: t[i:j]}, j, nil
}

func bitsOf(atom string) (string, bool) {
	if strings.HasPrefix(atom, "#b") {
		return atom[2:], true
	}
	if strings.HasPrefix(atom, "#x") {
		var sb strings.Builder
		for _, c := range atom[2:] {
			v, err := strconv.ParseUint(string(c), 16, 8)
			if err != nil {
				return "", false
			}
			fmt.Fprintf(&sb, "%04b", v)
		}
		return sb.String(), true
	}
	return "", false
}

// ModelValue is a decoded solver value.
type ModelValue struct {
	Kind string // bool, bv, f64, int
	B    bool
	U    uint64 // bit pattern for bv
	W    int
	F    float64
	I    int64
}

func parseModelValue(txt string) (ModelValue, error) {
	sx, _, err := parseSexp(txt, 0)
	if err != nil {
		return ModelValue{}, err
	}
	if !sx.isL {
		switch sx.atom {
		case "true":
			return ModelValue{Kind: "bool", B: true}, nil
		case "false":
			return ModelValue{Kind: "bool"}, nil
		}
		if b, ok := bitsOf(sx.atom); ok {
			u, err := strconv.ParseUint(b, 2, 64)
			return ModelValue{Kind: "bv", U: u, W: len(b)}, err
		}
		n, err := strconv.ParseInt(sx.atom, 10, 64)
		if err == nil {
			return ModelValue{Kind: "int", I: n}, nil
		}
		return ModelValue{}, fmt.Errorf("unparsed value %q", txt)
	}
	if len(sx.list) == 2 && sx.list[0].atom == "-" {
		n, err := strconv.ParseInt(sx.list[1].atom, 10, 64)
		return ModelValue{Kind: "int", I: -n}, err
	}
	if len(sx.list) == 4 && sx.list[0].atom == "fp" {
		var all string
		for _, p := range sx.list[1:] {
			b, ok := bitsOf(p.atom)
			if !ok {
				return ModelValue{}, fmt.Errorf("fp part %q", p.atom)
			}
			all += b
		}
		if len(all) != 64 {
			return ModelValue{}, fmt.Errorf("fp width %d", len(all))
		}
		u, _ := strconv.ParseUint(all, 2, 64)
		return ModelValue{Kind: "f64", F: math.Float64frombits(u)}, nil
	}
	if len(sx.list) == 4 && sx.list[0].atom == "_" {
		switch sx.list[1].atom {
		case "+zero":
			return ModelValue{Kind: "f64", F: 0}, nil
		case "-zero":
			return ModelValue{Kind: "f64", F: math.Copysign(0, -1)}, nil
		case "+oo":
			return ModelValue{Kind: "f64", F: math.Inf(1)}, nil
		case "-oo":
			return ModelValue{Kind: "f64", F: math.Inf(-1)}, nil
		case "NaN":
			return ModelValue{Kind: "f64", F: math.NaN()}, nil
		}
	}
	if len(sx.list) == 3 && sx.list[0].atom == "_" && strings.HasPrefix(sx.list[1].atom, "bv") {
		u, err := strconv.ParseUint(sx.list[1].atom[2:], 10, 64)
		w, _ := strconv.Atoi(sx.list[2].atom)
		return ModelValue{Kind: "bv", U: u, W: w}, err
	}
	return ModelValue{}, fmt.Errorf("unparsed value %q", txt)
}

// ReadableModel decodes raw solver values for display.
func ReadableModel(m map[string]string) map[string]interface{} {
	out := map[string]interface{}{}
	for k, v := range m {
		mv, err := parseModelValue(v)
		if err != nil {
			out[k] = v
			continue
		}
		switch mv.Kind {
		case "bool":
			out[k] = mv.B
		case "f64":
			out[k] = mv.F
		case "int":
			out[k] = mv.I
		case "bv":
			if mv.W == 64 {
				out[k] = fmt.Sprintf("%d (u %d)", int64(mv.U), mv.U)
			} else {
				out[k] = mv.U
			}
		}
	}
	return out
}

func ParseModelValue(txt string) (ModelValue, error) { return parseModelValue(txt) }
func Float64bits(f float64) uint64                   { return math.Float64bits(f) }

// StringForModel builds a concrete string for a symbolic string from its model facts.
func StringForModel(term string, model map[string]string) string {
	get := func(k string) (uint64, bool) {
		raw, ok := model[k]
		if !ok {
			return 0, false
		}
		mv, err := parseModelValue(raw)
		if err != nil {
			return 0, false
		}
		return mv.U, true
	}
	bl, _ := get("(blen " + term + ")")
	rl, _ := get("(rlen " + term + ")")
	// if the string equals an interned literal in the model (same id AND same lengths: ids of
	// literals not mentioned in the query carry no facts), use it
	if raw, ok := model[term]; ok {
		if mv, err := parseModelValue(raw); err == nil && mv.Kind == "int" && mv.I >= 0 {
			internMu.Lock()
			if int(mv.I) < len(litByID) {
				s := litByID[mv.I]
				internMu.Unlock()
				if uint64(len(s)) == bl && uint64(utf8.RuneCountInString(s)) == rl {
					return s
				}
			} else {
				internMu.Unlock()
			}
		}
	}
	// simple anchored patterns ("^a"): honour the model's match outcome
	internMu.Lock()
	pats := append([]string{}, patByID...)
	internMu.Unlock()
	for k, p := range pats {
		if len(p) == 2 && p[0] == '^' {
			raw, ok := model[fmt.Sprintf("(M!%d %s)", k, term)]
			if ok {
				if mv, err := parseModelValue(raw); err == nil && mv.B && rl >= 1 {
					return string(p[1]) + synthString(int(bl)-1, int(rl)-1)
				}
			}
		}
	}
	return synthString(int(bl), int(rl))
}

// synthString returns a string with the given byte and rune lengths (rl <= bl <= 4*rl).
func synthString(bl, rl int) string {
	if rl <= 0 || bl < rl {
		return ""
	}
	extra := bl - rl
	var sb strings.Builder
	for i := 0; i < rl; i++ {
		switch {
		case extra >= 3:
			sb.WriteString("𝄞")
			extra -= 3
		case extra == 2:
			sb.WriteString("日")
			extra -= 2
		case extra == 1:
			sb.WriteString("é")
			extra--
		default:
			sb.WriteString("q")
		}
	}
	return sb.String()
}

// SolveModel returns a model of the conjunction of pc (for native twins).
func SolveModel(solver string, decls, pc, evals []string) (map[string]string, error) {
	if solver == "" {
		solver = "z3"
	}
	sv, err := NewSolver(solver, 20*time.Second)
	if err != nil {
		return nil, err
	}
	defer sv.Close()
	r, m := sv.Check(decls, pc, evals)
	if r != "sat" {
		return nil, fmt.Errorf("path condition is %s", r)
	}
	return m, nil
}

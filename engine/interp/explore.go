package interp

// Path exploration by re-execution with decision prefixes.

import (
	"fmt"
	"math"
	"regexp"
	"sort"
	"strings"
	"sync"
	"time"
)

// CheckResult is the outcome of one zzvrt.Check on one path.
type CheckResult struct {
	ID       string            `json:"id"`
	Status   string            `json:"status"` // pass | violated | deviation | unknown
	Dev      string            `json:"dev,omitempty"`
	Model    map[string]string `json:"model,omitempty"`
	Note     string            `json:"note,omitempty"`
	Concrete bool              `json:"concrete,omitempty"`
}

// Draw is one nondeterministic value handed to the harness (for native replay).
type Draw struct {
	Kind  string `json:"kind"` // bool choice f64 i64 int rune sbool str + accessor kinds
	Term  string `json:"term,omitempty"`
	N     int    `json:"n,omitempty"`
	Val   int    `json:"val"`
	Const string `json:"const,omitempty"` // concrete value (decimal bit pattern / text)
	Sort  string `json:"sort,omitempty"`
}

// logVal records a value handed to the harness by an accessor intrinsic, so that a native
// replay can hand out the same (concretised) value.
func (e *Explorer) logVal(kind string, v value) {
	d := Draw{Kind: kind}
	switch x := v.(type) {
	case sym:
		d.Term = x.t
		switch x.k {
		case sBool:
			d.Sort = "bool"
		case sBV:
			d.Sort = "bv"
		case sF64:
			d.Sort = "f64"
		case sReal:
			d.Sort = "grid"
			d.N = gridBits + 1
		case sInt:
			d.Sort = "int"
		case sStr:
			d.Sort = "str"
		}
		e.addEval(x.t)
		if x.k == sStr {
			e.addEval("(blen " + x.t + ")")
			e.addEval("(rlen " + x.t + ")")
			e.strEvals(x.t)
		}
	case bool:
		d.Sort = "bool"
		if x {
			d.Const = "1"
		} else {
			d.Const = "0"
		}
	case string:
		d.Sort = "str"
		d.Const = x
	case float64:
		d.Sort = "f64"
		d.Const = fmt.Sprint(math.Float64bits(x))
	default:
		if iv, ok := tryInt64(x); ok {
			d.Sort = "bv"
			d.Const = fmt.Sprint(uint64(iv))
		} else {
			d.Sort = "opaque"
		}
	}
	e.res.Draws = append(e.res.Draws, d)
}

func tryInt64(v value) (n int64, ok bool) {
	defer func() {
		if recover() != nil {
			ok = false
		}
	}()
	switch v.(type) {
	case int, int8, int16, int32, int64, uint, uint8, uint16, uint32, uint64, uintptr:
		return asInt64(v), true
	}
	return 0, false
}

// strEvals registers the match predicates mentioned so far for a string term.
func (e *Explorer) strEvals(term string) {
	internMu.Lock()
	n := len(patByID)
	internMu.Unlock()
	for k := 0; k < n; k++ {
		e.addEval(fmt.Sprintf("(M!%d %s)", k, term))
	}
}

// PathResult describes one explored path.
type PathResult struct {
	// Dirty: some check of the path (of ANY property) did not simply pass (deviation, violation,
	// unknown): such a path is not sampled as a native twin of another property's unit
	Dirty bool `json:"-"`
	Script    []int             `json:"script"`
	Outcome   string            `json:"outcome"` // ok | panic | unsupported | infeasible | bound
	Msg       string            `json:"msg,omitempty"`
	Stack     []string          `json:"stack,omitempty"`
	Checks    []CheckResult     `json:"checks,omitempty"`
	Covers    []string          `json:"covers,omitempty"`
	Emits     map[string]string `json:"emits,omitempty"`
	Notes     []string          `json:"notes,omitempty"`
	Draws     []Draw            `json:"draws,omitempty"`
	Holes     []HoleInfo        `json:"holes,omitempty"`
	Forks     int               `json:"forks"`
	Steps     int               `json:"steps"`
	PCModel   map[string]string `json:"pc_model,omitempty"`
	Decls     []string          `json:"-"`
	PC        []string          `json:"-"`
	Evals     []string          `json:"-"`
	Witnesses map[string]string `json:"witnesses,omitempty"`
	Events    []Event           `json:"events,omitempty"`
	Docs      []DocNodeInfo     `json:"docs,omitempty"`
}

// DocNodeInfo names the solver variables of one document node (for replay).
type DocNodeInfo struct {
	Doc    int    `json:"doc"`
	Path   string `json:"path"`
	Prefix string `json:"prefix"`
	Wrap   bool   `json:"wrap,omitempty"` // this node is the one-element array around its child "0"
}

// HoleInfo records a symbolic number that was formatted into emitted text.
type HoleInfo struct {
	Ident string `json:"ident"`
	Term  string `json:"term"`
	Sort  string `json:"sort"`
	Verb  string `json:"verb"`
	W     int    `json:"w,omitempty"`
	Sgn   bool   `json:"signed,omitempty"`
}

// Explorer carries the per-path symbolic state.
type Explorer struct {
	nParse int // time.Parse calls approximated on this path (names their symbols)
	sv       *Solver
	pool     *Pool
	Script   []int
	Pos      int
	Decls    []string
	declared map[string]bool
	PC       []string
	Evals    []string
	evalSet  map[string]bool
	nvars    int
	res      *PathResult
	unknowns int
	maxSteps int
	holes    []holeRec
	docs     []*docNode
	s2       map[string]*Stage2
	fnFuel   map[string]int
	pcDirty  bool
	params   map[string]int
	known    map[string]string // variable -> literal, from conjuncts of the form (= var lit)
	knownPos int
	s2list    []*Stage2
	s2results []*S2Result
	opaqueSrc map[*value]*docNode
	inMarshalBack int
}

type holeRec struct {
	info HoleInfo
	s    sym
	typ  string
}

func (e *Explorer) declare(name string, k skind, w int) {
	if e.declared[name] {
		return
	}
	e.declared[name] = true
	e.Decls = append(e.Decls, fmt.Sprintf("(declare-const %s %s)", name, sortText(k, w)))
	e.addEval(name)
}

func (e *Explorer) addEval(term string) {
	if !e.evalSet[term] {
		e.evalSet[term] = true
		e.Evals = append(e.Evals, term)
	}
}

func (e *Explorer) fresh(prefix string, k skind, w int) sym {
	e.nvars++
	n := fmt.Sprintf("%s%d", prefix, e.nvars)
	e.declare(n, k, w)
	s := sym{k, w, n}
	if k == sF64 {
		e.PC = append(e.PC, "(not (fp.isNaN "+n+"))", "(not (fp.isInfinite "+n+"))")
	}
	if k == sStr {
		e.strFacts(n)
	}
	return s
}

// named returns a variable with a stable, path-independent name.
func (e *Explorer) named(name string, k skind, w int) sym {
	if !e.declared[name] {
		e.declare(name, k, w)
		if k == sF64 {
			e.PC = append(e.PC, "(not (fp.isNaN "+name+"))", "(not (fp.isInfinite "+name+"))")
		}
		if k == sStr {
			e.strFacts(name)
		}
	}
	return sym{k, w, name}
}

func (e *Explorer) strFacts(n string) {
	// 0 <= rlen <= blen <= 4*rlen, blen < 2^20; symbolic strings are valid UTF-8.
	e.PC = append(e.PC,
		"(bvule (rlen "+n+") (blen "+n+"))",
		"(bvule (blen "+n+") (bvmul #x0000000000000004 (rlen "+n+")))",
		"(bvult (blen "+n+") #x0000000000100000)")
	e.addEval("(blen " + n + ")")
	e.addEval("(rlen " + n + ")")
}

func (e *Explorer) check(extra ...string) (string, map[string]string) {
	return e.checkEval(false, extra...)
}

func (e *Explorer) checkEval(model bool, extra ...string) (string, map[string]string) {
	asserts := append(append([]string{}, e.PC...), extra...)
	var evals []string
	if model {
		evals = e.Evals
	}
	return e.sv.Check(e.Decls, asserts, evals)
}

// decide takes a branch on a symbolic condition.
func (e *Explorer) decide(c sym) bool {
	if c.t == "true" {
		return true
	}
	if c.t == "false" {
		return false
	}
	if e.Pos < len(e.Script) {
		d := e.Script[e.Pos] != 0
		e.Pos++
		e.push(c, d)
		return d
	}
	e.settle()
	e.res.Forks++
	rt, _ := e.check(c.t)
	var d bool
	switch rt {
	case "unsat":
		d = false
	default:
		if rt != "sat" {
			e.unknowns++
		}
		rf, _ := e.check("(not " + c.t + ")")
		if rf == "unsat" {
			d = true
		} else {
			if rf != "sat" {
				e.unknowns++
			}
			alt := append(append([]int{}, e.Script...), 0)
			e.pool.push(alt)
			d = true
		}
	}
	dv := 0
	if d {
		dv = 1
	}
	e.Script = append(e.Script, dv)
	e.Pos++
	e.push(c, d)
	return d
}

// choose is a free n-way nondeterministic choice (no solver call).
func (e *Explorer) choose(n int) int {
	if n <= 1 {
		return 0
	}
	if e.Pos < len(e.Script) {
		d := e.Script[e.Pos]
		e.Pos++
		return d
	}
	e.res.Forks++
	for k := n - 1; k >= 1; k-- {
		alt := append(append([]int{}, e.Script...), k)
		e.pool.push(alt)
	}
	e.Script = append(e.Script, 0)
	e.Pos++
	return 0
}

func (e *Explorer) push(c sym, d bool) {
	if d {
		e.PC = append(e.PC, c.t)
	} else {
		e.PC = append(e.PC, symNot(c).t)
	}
}

func (e *Explorer) assume(c sym) {
	if c.t == "true" {
		return
	}
	e.PC = append(e.PC, c.t)
	if c.t == "false" {
		panic(infeasibleErr{})
	}
	// The path must stay feasible; feasibility is re-established lazily (one query for a
	// run of consecutive assumptions) before the next fork, check or cover.
	e.pcDirty = true
}

// settle verifies that the path condition is still satisfiable after assumptions.
func (e *Explorer) settle() {
	if !e.pcDirty {
		return
	}
	e.pcDirty = false
	if r, _ := e.check(); r == "unsat" {
		panic(infeasibleErr{})
	}
}

// Dev is a behavioural deviation offered to a check.
type devCond struct {
	name string
	cond sym
}

func (e *Explorer) checkProp(id string, cond sym, devs []devCond) {
	e.settle()
	cr := CheckResult{ID: id}
	defer func() { e.res.Checks = append(e.res.Checks, cr) }()
	if cond.t == "true" {
		cr.Status = "pass"
		cr.Concrete = true
		return
	}
	neg := symNot(cond).t
	r, _ := e.check(neg)
	if r == "unsat" {
		cr.Status = "pass"
		return
	}
	if r != "sat" {
		cr.Status = "unknown"
		cr.Note = r
		return
	}
	// violated for some values: is it explained by an offered deviation?
	var notDevs []string
	for _, d := range devs {
		notDevs = append(notDevs, symNot(d.cond).t)
	}
	if len(devs) > 0 {
		r2, m2 := e.checkEval(true, append([]string{neg}, notDevs...)...)
		switch r2 {
		case "sat":
			cr.Status = "violated"
			cr.Model = m2
			return
		case "unsat":
			// every counterexample matches one of the deviations; report each feasible one
			first := true
			for _, d := range devs {
				r3, m3 := e.checkEval(true, neg, d.cond.t)
				if r3 == "sat" {
					c := CheckResult{ID: id, Status: "deviation", Dev: d.name, Model: m3}
					if first {
						cr = c
						first = false
					} else {
						e.res.Checks = append(e.res.Checks, c)
					}
				}
			}
			if first {
				cr.Status = "unknown"
				cr.Note = "deviation split inconclusive"
			}
			return
		default:
			cr.Status = "unknown"
			cr.Note = "residual query: " + r2
			return
		}
	}
	_, m := e.checkEval(true, neg)
	cr.Status = "violated"
	cr.Model = m
}

// ---- pool of workers ----

type Pool struct {
	mu      sync.Mutex
	cond    *sync.Cond
	queue   [][]int
	active  int
	Results []*PathResult
	MaxPath int
	Dropped int
	Started time.Time
	Budget  time.Duration
	OutOfTime bool
}

func (p *Pool) push(s []int) {
	p.mu.Lock()
	p.queue = append(p.queue, s)
	p.mu.Unlock()
	p.cond.Signal()
}

func (p *Pool) pop() ([]int, bool) {
	p.mu.Lock()
	defer p.mu.Unlock()
	for {
		if len(p.queue) > 0 {
			if p.Budget > 0 && time.Since(p.Started) > p.Budget {
				p.OutOfTime = true
				p.Dropped += len(p.queue)
				p.queue = nil
				continue
			}
			if p.MaxPath > 0 && len(p.Results)+p.active >= p.MaxPath {
				p.Dropped += len(p.queue)
				p.queue = nil
				continue
			}
			s := p.queue[len(p.queue)-1]
			p.queue = p.queue[:len(p.queue)-1]
			p.active++
			return s, true
		}
		if p.active == 0 {
			p.cond.Broadcast()
			return nil, false
		}
		p.cond.Wait()
	}
}

func (p *Pool) done(r *PathResult) {
	p.mu.Lock()
	p.Results = append(p.Results, r)
	p.active--
	p.mu.Unlock()
	p.cond.Broadcast()
}

// SolverStats aggregates solver counters over workers.
type SolverStats struct {
	Queries, Sat, Unsat, Unknown, Errors int
	Wall, MaxQuery                       time.Duration
}

// ExploreOpts configures one exploration.
type ExploreOpts struct {
	Workers  int
	Solver   string
	Timeout  time.Duration
	MaxPaths int
	MaxSteps int
	Budget   time.Duration
	Params   map[string]int // exposed to harnesses through zzvrt.Param
}

// Explore runs fn (a niladic harness function) over all paths.
func (m *Machine) Explore(fnName string, opts ExploreOpts) (*Pool, SolverStats, error) {
	fn := m.lookupFunc(fnName)
	if fn == nil {
		return nil, SolverStats{}, fmt.Errorf("harness function %s not found", fnName)
	}
	if opts.Workers <= 0 {
		opts.Workers = 8
	}
	if opts.Solver == "" {
		opts.Solver = "z3"
	}
	if opts.Timeout == 0 {
		opts.Timeout = 10 * time.Second
	}
	if opts.MaxSteps == 0 {
		opts.MaxSteps = 3_000_000
	}
	gridBits = 0
	if g, ok := opts.Params["GRID"]; ok && g >= 0 {
		gridBits = g
	}
	p := &Pool{MaxPath: opts.MaxPaths, Started: time.Now(), Budget: opts.Budget}
	p.cond = sync.NewCond(&p.mu)
	p.queue = [][]int{{}}
	var wg sync.WaitGroup
	var statsMu sync.Mutex
	var st SolverStats
	var firstErr error
	for w := 0; w < opts.Workers; w++ {
		wg.Add(1)
		go func() {
			defer wg.Done()
			sv, err := NewSolver(opts.Solver, opts.Timeout)
			if err != nil {
				statsMu.Lock()
				firstErr = err
				statsMu.Unlock()
				return
			}
			defer sv.Close()
			for {
				sc, ok := p.pop()
				if !ok {
					break
				}
				r := m.runPath(fn, sc, sv, p, opts)
				p.done(r)
			}
			statsMu.Lock()
			st.Queries += sv.Queries
			st.Sat += sv.Sat
			st.Unsat += sv.Unsat
			st.Unknown += sv.Unknown
			st.Errors += sv.Errors
			st.Wall += sv.Wall
			if sv.MaxQuery > st.MaxQuery {
				st.MaxQuery = sv.MaxQuery
			}
			statsMu.Unlock()
		}()
	}
	wg.Wait()
	sort.Slice(p.Results, func(i, j int) bool { return scriptLess(p.Results[i].Script, p.Results[j].Script) })
	return p, st, firstErr
}

func scriptLess(a, b []int) bool {
	for i := 0; i < len(a) && i < len(b); i++ {
		if a[i] != b[i] {
			return a[i] < b[i]
		}
	}
	return len(a) < len(b)
}

func scriptKey(s []int) string {
	var sb strings.Builder
	for _, d := range s {
		fmt.Fprintf(&sb, "%d.", d)
	}
	return sb.String()
}

// patFacts adds what is known about a match predicate for the pattern shapes the harnesses
// use ("^c": the string starts with the one-byte rune c).
func (e *Explorer) patFacts(pat string, s sym) {
	if s.k != sStr || len(pat) != 2 || pat[0] != '^' {
		return
	}
	key := "patfact:" + pat + ":" + s.t
	if e.declared[key] {
		return
	}
	e.declared[key] = true
	m := "(" + internPat(pat) + " " + s.t + ")"
	e.PC = append(e.PC, "(=> "+m+" (and (bvuge (rlen "+s.t+") #x0000000000000001) (bvule (bvsub (blen "+s.t+") #x0000000000000001) (bvmul #x0000000000000004 (bvsub (rlen "+s.t+") #x0000000000000001)))))")
	e.addEval(m)
}

var eqLitRE = regexp.MustCompile(`^\(= ([^ ()]+) (#x[0-9a-f]+)\)$`)

// knownConst scans new path-condition conjuncts of the form (= var #x..) and answers whether
// a variable is already fixed to a literal.
func (e *Explorer) knownConst(v string) (string, bool) {
	if e.known == nil {
		e.known = map[string]string{}
	}
	for ; e.knownPos < len(e.PC); e.knownPos++ {
		if m := eqLitRE.FindStringSubmatch(e.PC[e.knownPos]); m != nil {
			e.known[m[1]] = m[2]
		}
	}
	c, ok := e.known[v]
	return c, ok
}

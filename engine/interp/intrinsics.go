package interp

// Harness intrinsics: package internal/zzvrt (bodiless declarations, overlay only).

import (
	"encoding/json"
	"fmt"
	"path/filepath"
)

func zz(name string) string { return ZZ + "." + name }

func boolTerm(v value) sym {
	s := asTerm(v)
	if s.k != sBool {
		panic(unsupported("boolean intrinsic on a non-bool"))
	}
	return s
}

func simplifyBool(s sym) value {
	switch s.t {
	case "true":
		return true
	case "false":
		return false
	}
	return s
}

func init() {
	reg := func(name string, f natfn) { natives[zz(name)] = f }

	reg("Bool", func(fr *frame, a []value) value {
		d := fr.i.x.choose(2)
		fr.i.x.res.Draws = append(fr.i.x.res.Draws, Draw{Kind: "bool", Val: d})
		return d == 1
	})
	reg("Choice", func(fr *frame, a []value) value {
		n := a[0].(int)
		d := fr.i.x.choose(n)
		fr.i.x.res.Draws = append(fr.i.x.res.Draws, Draw{Kind: "choice", N: n, Val: d})
		return d
	})
	reg("SymBool", func(fr *frame, a []value) value {
		s := fr.i.x.fresh("b", sBool, 0)
		fr.i.x.res.Draws = append(fr.i.x.res.Draws, Draw{Kind: "sbool", Term: s.t})
		return s
	})
	reg("Float64", func(fr *frame, a []value) value {
		if g, ok := fr.i.params["GRID"]; ok && g >= 0 {
			r := fr.i.params["GRIDMAG"]
			if r == 0 {
				r = 36
			}
			s, n := fr.i.x.freshGrid(r)
			fr.i.x.res.Draws = append(fr.i.x.res.Draws, Draw{Kind: "f64", Term: n, N: g + 1})
			return s
		}
		s := fr.i.x.fresh("f", sF64, 0)
		fr.i.x.res.Draws = append(fr.i.x.res.Draws, Draw{Kind: "f64", Term: s.t})
		return s
	})
	reg("Int64", func(fr *frame, a []value) value {
		if _, ok := fr.i.x.gridParam(); ok {
			s := fr.i.x.freshInt("i", fr.i.x.gridMag())
			fr.i.x.res.Draws = append(fr.i.x.res.Draws, Draw{Kind: "i64", Term: s.t})
			return s
		}
		s := fr.i.x.fresh("i", sBV, 64)
		fr.i.x.res.Draws = append(fr.i.x.res.Draws, Draw{Kind: "i64", Term: s.t})
		return s
	})
	reg("Int", func(fr *frame, a []value) value {
		s := fr.i.x.fresh("n", sBV, 64)
		fr.i.x.res.Draws = append(fr.i.x.res.Draws, Draw{Kind: "int", Term: s.t})
		return s
	})
	reg("Uint64", func(fr *frame, a []value) value {
		s := fr.i.x.fresh("u", sBV, 64)
		fr.i.x.res.Draws = append(fr.i.x.res.Draws, Draw{Kind: "u64", Term: s.t})
		return s
	})
	reg("Rune", func(fr *frame, a []value) value {
		s := fr.i.x.fresh("r", sBV, 32)
		fr.i.x.res.Draws = append(fr.i.x.res.Draws, Draw{Kind: "rune", Term: s.t})
		return s
	})
	reg("Str", func(fr *frame, a []value) value {
		s := fr.i.x.fresh("s", sStr, 0)
		fr.i.x.res.Draws = append(fr.i.x.res.Draws, Draw{Kind: "str", Term: s.t})
		return s
	})
	reg("Assume", func(fr *frame, a []value) value {
		fr.i.x.assume(boolTerm(a[0]))
		return nil
	})
	reg("And", func(fr *frame, a []value) value { return simplifyBool(symAnd(boolTerm(a[0]), boolTerm(a[1]))) })
	reg("Or", func(fr *frame, a []value) value { return simplifyBool(symOr(boolTerm(a[0]), boolTerm(a[1]))) })
	reg("Not", func(fr *frame, a []value) value { return simplifyBool(symNot(boolTerm(a[0]))) })
	reg("Implies", func(fr *frame, a []value) value {
		return simplifyBool(symOr(symNot(boolTerm(a[0])), boolTerm(a[1])))
	})
	reg("Iff", func(fr *frame, a []value) value { return simplifyBool(symEq(boolTerm(a[0]), boolTerm(a[1]))) })
	reg("IteF", func(fr *frame, a []value) value {
		r := symIte(boolTerm(a[0]), asTerm(a[1]), asTerm(a[2]))
		return r
	})
	reg("IteI", func(fr *frame, a []value) value {
		return symIte(boolTerm(a[0]), asTerm(a[1]), asTerm(a[2]))
	})
	reg("IsIntegral", func(fr *frame, a []value) value {
		f := asTerm(a[0])
		if f.k == sReal {
			return simplifyBool(mkBool(realIsInt(f.t)))
		}
		return simplifyBool(mkBool("(fp.eq " + f.t + " (fp.roundToIntegral RTZ " + f.t + "))"))
	})
	// exact comparisons between an int64 and a float64 (reference-model helpers):
	// IntGeF(x, b) = x >= b over the reals.
	reg("IntGeF", func(fr *frame, a []value) value { return simplifyBool(intCmpF(asTerm(a[0]), asTerm(a[1]), "ge")) })
	reg("IntGtF", func(fr *frame, a []value) value { return simplifyBool(intCmpF(asTerm(a[0]), asTerm(a[1]), "gt")) })
	reg("IntLeF", func(fr *frame, a []value) value { return simplifyBool(intCmpF(asTerm(a[0]), asTerm(a[1]), "le")) })
	reg("IntLtF", func(fr *frame, a []value) value { return simplifyBool(intCmpF(asTerm(a[0]), asTerm(a[1]), "lt")) })
	reg("UintLeF", func(fr *frame, a []value) value { return simplifyBool(uintCmpF(asTerm(a[0]), asTerm(a[1]), "le")) })
	reg("UintGeF", func(fr *frame, a []value) value { return simplifyBool(uintCmpF(asTerm(a[0]), asTerm(a[1]), "ge")) })
	reg("UintLtF", func(fr *frame, a []value) value { return simplifyBool(uintCmpF(asTerm(a[0]), asTerm(a[1]), "lt")) })
	reg("UintGtF", func(fr *frame, a []value) value { return simplifyBool(uintCmpF(asTerm(a[0]), asTerm(a[1]), "gt")) })

	reg("CeilI", func(fr *frame, a []value) value {
		return sym{sBV, 64, "((_ fp.to_sbv 64) RTP " + asTerm(a[0]).t + ")"}
	})
	reg("FloorI", func(fr *frame, a []value) value {
		return sym{sBV, 64, "((_ fp.to_sbv 64) RTN " + asTerm(a[0]).t + ")"}
	})
	reg("Check", func(fr *frame, a []value) value {
		var devs []devCond
		if len(a) > 2 {
			ds, _ := a[2].([]value)
			for _, d := range ds {
				st := d.(structure)
				devs = append(devs, devCond{st[0].(string), boolTerm(st[1])})
			}
		}
		fr.i.x.checkProp(a[0].(string), boolTerm(a[1]), devs)
		return nil
	})
	reg("Cover", func(fr *frame, a []value) value {
		fr.i.x.settle()
		fr.i.x.res.Covers = append(fr.i.x.res.Covers, a[0].(string))
		return nil
	})
	reg("SchedulesDone", func(fr *frame, a []value) value {
		fr.i.mapOrderFrozen = true
		return nil
	})
	reg("Emit", func(fr *frame, a []value) value {
		fr.i.x.res.Emits[a[0].(string)] = a[1].(string)
		return nil
	})
	reg("Note", func(fr *frame, a []value) value {
		fr.i.x.res.Notes = append(fr.i.x.res.Notes, a[0].(string))
		return nil
	})
	reg("Param", func(fr *frame, a []value) value {
		if v, ok := fr.i.params[a[0].(string)]; ok {
			return v
		}
		return a[1].(int)
	})
	reg("Symbolic", func(fr *frame, a []value) value { return true })
	reg("Witness", func(fr *frame, a []value) value {
		it := a[1].(iface)
		var tree interface{}
		if it.t != nil {
			tree = fr.i.jsonTree(it.t, it.v, 0)
		}
		b, err := json.Marshal(tree)
		if err != nil {
			panic(unsupported("Witness: " + err.Error()))
		}
		fr.i.x.res.Witnesses[a[0].(string)] = string(b)
		return nil
	})
	reg("Events", func(fr *frame, a []value) value {
		out := make([]value, len(fr.i.events))
		for k, e := range fr.i.events {
			out[k] = e.Kind + "|" + e.Data
		}
		return out
	})
	reg("VFile", func(fr *frame, a []value) value {
		fr.i.x.declared["vfile:"+filepath.Clean(a[0].(string))] = true
		return nil
	})
	reg("Unreachable", func(fr *frame, a []value) value {
		panic(unsupported("harness reached Unreachable: " + fmt.Sprint(a[0])))
	})
}

// intCmpF compares a signed 64-bit integer x with a finite float64 b exactly (over the
// reals), without rounding x to float64.
func intCmpF(x, b sym, op string) sym {
	if x.k == sInt || b.k == sReal {
		xi := toInt(x, true)
		br := toReal(b)
		xs := "(* " + gridScale().String() + " " + xi.t + ")"
		rel := map[string]string{"ge": ">=", "gt": ">", "le": "<=", "lt": "<"}[op]
		return mkBool("(" + rel + " " + xs + " " + br.t + ")")
	}
	if x.k != sBV || x.w != 64 || b.k != sF64 {
		panic(unsupported("intCmpF sorts"))
	}
	lo := f64Lit(-9223372036854775808.0)
	hi := f64Lit(9223372036854775808.0)
	below := "(fp.lt " + b.t + " " + lo + ")" // b < -2^63: every x is greater
	above := "(fp.geq " + b.t + " " + hi + ")" // b >= 2^63: every x is smaller
	ceil := "((_ fp.to_sbv 64) RTP " + b.t + ")"
	floor := "((_ fp.to_sbv 64) RTN " + b.t + ")"
	var core, ifBelow, ifAbove string
	switch op {
	case "ge": // x >= b  <=>  x >= ceil(b)
		core, ifBelow, ifAbove = "(bvsge "+x.t+" "+ceil+")", "true", "false"
	case "gt": // x > b  <=>  x > floor(b)
		core, ifBelow, ifAbove = "(bvsgt "+x.t+" "+floor+")", "true", "false"
	case "le": // x <= b  <=>  x <= floor(b)
		core, ifBelow, ifAbove = "(bvsle "+x.t+" "+floor+")", "false", "true"
	case "lt": // x < b  <=>  x < ceil(b)
		core, ifBelow, ifAbove = "(bvslt "+x.t+" "+ceil+")", "false", "true"
	}
	return mkBool("(ite " + below + " " + ifBelow + " (ite " + above + " " + ifAbove + " " + core + "))")
}

func uintCmpF(x, b sym, op string) sym {
	if x.k != sBV || x.w != 64 || b.k != sF64 {
		panic(unsupported("uintCmpF sorts"))
	}
	lo := f64Lit(0)
	hi := f64Lit(18446744073709551616.0)
	below := "(fp.lt " + b.t + " " + lo + ")"
	above := "(fp.geq " + b.t + " " + hi + ")"
	ceil := "((_ fp.to_ubv 64) RTP " + b.t + ")"
	floor := "((_ fp.to_ubv 64) RTN " + b.t + ")"
	var core, ifBelow, ifAbove string
	switch op {
	case "ge":
		core, ifBelow, ifAbove = "(bvuge "+x.t+" "+ceil+")", "true", "false"
	case "gt":
		core, ifBelow, ifAbove = "(bvugt "+x.t+" "+floor+")", "true", "false"
	case "le":
		core, ifBelow, ifAbove = "(bvule "+x.t+" "+floor+")", "false", "true"
	case "lt":
		core, ifBelow, ifAbove = "(bvult "+x.t+" "+ceil+")", "false", "true"
	}
	return mkBool("(ite " + below + " " + ifBelow + " (ite " + above + " " + ifAbove + " " + core + "))")
}

package interp

import (
	"fmt"
	"go/token"
	"go/types"
	"reflect"
	"strings"

	"golang.org/x/tools/go/ssa"
)

// S2Result is the outcome of running an emitted unmarshal method on a symbolic document.
type S2Result struct {
	Status   int // 0 accepted, 1 rejected with error, 2 panicked
	Msg      string
	Recv     *value
	RecvType types.Type
	Prior    value
	ErrText  string
}

func init() {
	natives["encoding/json.Unmarshal"] = func(fr *frame, a []value) value {
		ref, ok := a[0].(docRef)
		if !ok {
			if data, isConcrete := concreteBytes(a[0]); isConcrete {
				return fr.i.jsonUnmarshalConcrete(fr, data, a[1].(iface))
			}
			panic(unsupported("json.Unmarshal of bytes with symbolic elements"))
		}
		return fr.i.docDecode(fr, ref, a[1].(iface), false)
	}
	natives["(*gopkg.in/yaml.v3.Node).Decode"] = func(fr *frame, a []value) value {
		ref, ok := a[0].(docRef)
		if !ok {
			panic(unsupported("yaml Decode of a concrete node"))
		}
		return fr.i.docDecode(fr, ref, a[1].(iface), true)
	}
	natives["(reflect.StructTag).Get"] = func(fr *frame, a []value) value {
		return reflect.StructTag(a[0].(string)).Get(a[1].(string))
	}
	natives["(reflect.StructTag).Lookup"] = func(fr *frame, a []value) value {
		v, ok := reflect.StructTag(a[0].(string)).Lookup(a[1].(string))
		return tuple{v, ok}
	}
	natives["github.com/go-viper/mapstructure/v2.Decode"] = func(fr *frame, a []value) value {
		src, ok := a[0].(iface)
		if !ok {
			// one member of a symbolic document, as handed out by a range over the raw map
			src = iface{t: a[1].(iface).t, v: a[0]}
		}
		return fr.i.mapstructureDecode(fr, src, a[1].(iface))
	}

	reg0 := func(name string, f natfn) { natives[zz(name)] = f }
	// accessor intrinsics log what they return (for native replay)
	reg := func(name string, f natfn) {
		natives[zz(name)] = func(fr *frame, a []value) value {
			v := f(fr, a)
			switch name {
			case "Stage2", "Stage2As", "NewDoc", "Unmarshal":
				// handles are recomputed natively
			default:
				lv := v
				if it, ok := v.(iface); ok {
					lv = it.v
				}
				fr.i.x.logVal("acc:"+name, lv)
			}
			return v
		}
	}
	_ = reg0
	reg("Stage2", func(fr *frame, a []value) value {
		x := fr.i.x
		src := a[0].(string)
		s := fr.i.m.materialise(src, x.holeSortsFor(), "")
		x.s2list = append(x.s2list, s)
		return len(x.s2list) - 1
	})
	reg("Stage2As", func(fr *frame, a []value) value {
		x := fr.i.x
		s := fr.i.m.materialise(a[0].(string), x.holeSortsFor(), a[1].(string))
		x.s2list = append(x.s2list, s)
		return len(x.s2list) - 1
	})
	reg("S2OK", func(fr *frame, a []value) value { return fr.i.x.s2list[a[0].(int)].OK() })
	reg("S2Errors", func(fr *frame, a []value) value {
		s := fr.i.x.s2list[a[0].(int)]
		var all []string
		if s.ParseErr != "" {
			all = append(all, "parse: "+s.ParseErr)
		}
		all = append(all, s.TypeErrs...)
		return strings.Join(all, "\n")
	})
	reg("S2FmtStable", func(fr *frame, a []value) value {
		s := fr.i.x.s2list[a[0].(int)]
		return s.FmtErr == "" && s.FmtStable
	})
	reg("S2Fits", func(fr *frame, a []value) value {
		s := fr.i.x.s2list[a[0].(int)]
		return simplifyBool(fr.i.x.obligationsTerm(s))
	})
	reg("S2HasType", func(fr *frame, a []value) value {
		s := fr.i.x.s2list[a[0].(int)]
		return s.OK() && s.Pkg.Type(a[1].(string)) != nil
	})
	reg("S2HasMethod", func(fr *frame, a []value) value {
		s := fr.i.x.s2list[a[0].(int)]
		if !s.OK() {
			return false
		}
		tm := s.Pkg.Type(a[1].(string))
		if tm == nil {
			return false
		}
		return fr.i.prog.MethodSets.MethodSet(types.NewPointer(tm.Type())).Lookup(s.TPkg, a[2].(string)) != nil
	})
	reg("NewDoc", func(fr *frame, a []value) value {
		n := fr.i.x.newDoc()
		return n.doc
	})
	reg0("DocBytes", func(fr *frame, a []value) value {
		return docRef{n: fr.i.x.docs[a[0].(int)].at(a[1].(string))}
	})
	reg0("DocAlias", func(fr *frame, a []value) value {
		x := fr.i.x
		base := x.docs[a[0].(int)]
		pairs, _ := a[1].([]value)
		v := &docNode{e: x, doc: len(x.docs), kids: map[string]*docNode{}, isTop: true, base: base,
			rename: map[string]string{}, away: map[string]bool{}}
		v.root = v
		for k := 0; k+1 < len(pairs); k += 2 {
			v.rename[pairs[k].(string)] = pairs[k+1].(string) // view key -> base key
			v.away[pairs[k+1].(string)] = true
		}
		x.docs = append(x.docs, v)
		return v.doc
	})
	reg0("DocWrapArray", func(fr *frame, a []value) value {
		x := fr.i.x
		inner := x.docs[a[0].(int)].at(a[1].(string))
		v := &docNode{e: x, doc: len(x.docs), kids: map[string]*docNode{}, isTop: true, wrapOf: inner}
		v.root = v
		x.docs = append(x.docs, v)
		return v.doc
	})
	reg("SameParsed", func(fr *frame, a []value) value {
		ia, ib := a[0].(iface), a[1].(iface)
		ign := map[string]bool{}
		if xs, ok := a[2].([]value); ok {
			for _, x := range xs {
				ign[x.(string)] = true
			}
		}
		if ia.t == nil || ib.t == nil || !types.Identical(ia.t, ib.t) {
			return false
		}
		var read map[string]bool
		if ign["@generator-reads"] {
			read = fr.i.m.schemaFieldsRead()
			var names []string
			for k := range read {
				names = append(names, k)
			}
			sortStrings(names)
			fr.i.x.res.Notes = append(fr.i.x.res.Notes, "fields-read-by-generator="+strings.Join(names, ","))
		}
		filter := func(st *types.Struct, idx int, owner types.Type) bool {
			name := st.Field(idx).Name()
			if ign[name] {
				return true
			}
			if read != nil {
				if n, ok := types.Unalias(owner).(*types.Named); ok && n.Obj().Pkg() != nil && strings.HasSuffix(n.Obj().Pkg().Path(), "/pkg/schemas") {
					return !read[name] && st.Field(idx).Exported() || !st.Field(idx).Exported()
				}
			}
			return false
		}
		r := fr.i.deepEq(ia.t, ia.v, ib.v, map[[2]*value]bool{}, filter)
		if r.t != "true" {
			// name the top-level fields that are not syntactically equal (diagnostics)
			if st, ok := ia.t.Underlying().(*types.Struct); ok {
				var diff []string
				sa, sb := ia.v.(structure), ib.v.(structure)
				for k := 0; k < st.NumFields(); k++ {
					if filter(st, k, ia.t) {
						continue
					}
					if fr.i.deepEq(st.Field(k).Type(), sa[k], sb[k], map[[2]*value]bool{}, filter).t != "true" {
						diff = append(diff, st.Field(k).Name())
					}
				}
				fr.i.x.res.Notes = append(fr.i.x.res.Notes, "fields-not-identical="+strings.Join(diff, ","))
			}
		}
		return simplifyBool(r)
	})
	reg("Unmarshal", func(fr *frame, a []value) value {
		x := fr.i.x
		s := x.s2list[a[0].(int)]
		if !s.OK() {
			panic(unsupported("Unmarshal on a package that did not materialise: " + strings.Join(s.TypeErrs, "; ") + s.ParseErr))
		}
		tm := s.Pkg.Type(a[1].(string))
		if tm == nil {
			panic(unsupported("emitted package has no type " + a[1].(string)))
		}
		T := tm.Type()
		fr.i.initStage2(fr, s)
		method := "UnmarshalJSON"
		if a[2].(string) == "yaml" {
			method = "UnmarshalYAML"
		}
		var fn *ssa.Function
		if sel := fr.i.prog.MethodSets.MethodSet(types.NewPointer(T)).Lookup(s.TPkg, method); sel != nil {
			fn = fr.i.methodValue(sel)
		}
		doc := x.docs[a[3].(int)]
		res := &S2Result{RecvType: T}
		var cell value = fr.i.priorValue(T)
		res.Prior = copyVal(cell)
		res.Recv = &cell
		x.s2results = append(x.s2results, res)
		h := len(x.s2results) - 1
		if fn == nil {
			// no custom method: plain encoding/json decode into the type
			errv := fr.i.docDecode(fr, docRef{n: doc}, iface{t: types.NewPointer(T), v: &cell}, method == "UnmarshalYAML")
			if e, ok := errv.(iface); ok && e.t != nil {
				res.Status, res.ErrText = 1, fr.i.errString(fr, e)
			}
			return h
		}
		func() {
			defer func() {
				if p := recover(); p != nil {
					switch e := p.(type) {
					case infeasibleErr, unsupportedErr, boundErr, exitPanic:
						panic(p)
					case targetPanic:
						res.Status, res.Msg = 2, "panic: "+fr.i.panicText(e.v)
					case error:
						msg := e.Error()
						if strings.Contains(msg, "interp.") {
							panic(p)
						}
						res.Status, res.Msg = 2, msg
					case string:
						if strings.Contains(e, "interp.") || strings.HasPrefix(e, "no code for function") || strings.HasPrefix(e, "unexpected") {
							panic(p)
						}
						res.Status, res.Msg = 2, e
					default:
						panic(p)
					}
					// unwind the interpreter's call stack bookkeeping
					fr.i.panicStack = nil
				}
			}()
			depth := len(fr.i.callStack)
			r := call(fr.i, fr, token.NoPos, fn, []value{&cell, docRef{n: doc}})
			fr.i.callStack = fr.i.callStack[:depth]
			if e, ok := r.(iface); ok && e.t != nil {
				res.Status, res.ErrText = 1, fr.i.errString(fr, e)
			}
		}()
		return h
	})
	reg("RStatus", func(fr *frame, a []value) value { return fr.i.x.s2results[a[0].(int)].Status })
	reg("RMsg", func(fr *frame, a []value) value {
		r := fr.i.x.s2results[a[0].(int)]
		return r.Msg + r.ErrText
	})
	reg("REqual", func(fr *frame, a []value) value {
		r1, r2 := fr.i.x.s2results[a[0].(int)], fr.i.x.s2results[a[1].(int)]
		if !types.Identical(r1.RecvType, r2.RecvType) {
			return false
		}
		r := fr.i.deepEq(r1.RecvType, *r1.Recv, *r2.Recv, map[[2]*value]bool{}, nil)
		return simplifyBool(r)
	})
	reg("RUnchanged", func(fr *frame, a []value) value {
		r := fr.i.x.s2results[a[0].(int)]
		return sameVal(*r.Recv, r.Prior)
	})

	// document accessors
	node := func(fr *frame, a []value) *docNode { return fr.i.x.docs[a[0].(int)].at(a[1].(string)) }
	reg("DIs", func(fr *frame, a []value) value { return simplifyBool(node(fr, a).kindIs(a[2].(int))) })
	reg("DBool", func(fr *frame, a []value) value { return node(fr, a).boolv() })
	reg("DInt", func(fr *frame, a []value) value { return node(fr, a).intv() })
	reg("DIsInt", func(fr *frame, a []value) value { return node(fr, a).isint() })
	reg("DFloat", func(fr *frame, a []value) value { return node(fr, a).floatv() })
	reg("DStr", func(fr *frame, a []value) value { return node(fr, a).strv() })
	reg("DLen", func(fr *frame, a []value) value { return node(fr, a).lenv() })
	reg("DMalformed", func(fr *frame, a []value) value {
		return fr.i.x.named(fmt.Sprintf("d%d!malformed", a[0].(int)), sBool, 0)
	})
	reg("RuneLen", func(fr *frame, a []value) value {
		if s, ok := a[0].(sym); ok && s.k == sStr {
			return sym{sBV, 64, "(rlen " + s.t + ")"}
		}
		return len([]rune(a[0].(string)))
	})
	reg("Matches", func(fr *frame, a []value) value {
		pat := a[1].(string)
		if s, ok := a[0].(sym); ok && s.k == sStr {
			fr.i.x.patFacts(pat, s)
			return mkBool("(" + internPat(pat) + " " + s.t + ")")
		}
		panic(unsupported("Matches on a concrete string"))
	})
	// decoded-value accessors: path of field names / indices below the receiver
	reg("OGet", func(fr *frame, a []value) value {
		r := fr.i.x.s2results[a[0].(int)]
		v, t, ok := fr.i.navigate(*r.Recv, r.RecvType, a[1].(string))
		if !ok {
			panic(unsupported("OGet: no such path " + a[1].(string)))
		}
		return iface{t: t, v: v}
	})
	reg("OIsNil", func(fr *frame, a []value) value {
		r := fr.i.x.s2results[a[0].(int)]
		v, _, ok := fr.i.navigateRaw(*r.Recv, r.RecvType, a[1].(string))
		if !ok {
			panic(unsupported("OIsNil: no such path " + a[1].(string)))
		}
		switch p := v.(type) {
		case *value:
			return p == nil
		case []value:
			return p == nil
		case iface:
			return p.t == nil
		case *docMap:
			return p == nil
		case *symMap:
			return p == nil
		case map[value]value:
			return p == nil
		}
		return false
	})
	reg("OKind", func(fr *frame, a []value) value {
		r := fr.i.x.s2results[a[0].(int)]
		v, _, ok := fr.i.navigate(*r.Recv, r.RecvType, a[1].(string))
		if !ok {
			return 0
		}
		it, isI := v.(iface)
		if !isI {
			return 4
		}
		if it.t == nil {
			return 0
		}
		if b, ok := it.t.Underlying().(*types.Basic); ok {
			switch {
			case b.Kind() == types.Bool:
				return 1
			case b.Info()&types.IsNumeric != 0:
				return 2
			case b.Kind() == types.String:
				return 3
			}
		}
		return 4
	})
	reg("OInt", func(fr *frame, a []value) value { return fr.i.outScalar(a, sBV) })
	reg("OFloat", func(fr *frame, a []value) value { return fr.i.outScalar(a, sF64) })
	reg("OStr", func(fr *frame, a []value) value { return fr.i.outScalar(a, sStr) })
	reg("OBool", func(fr *frame, a []value) value { return fr.i.outScalar(a, sBool) })
	reg("OLen", func(fr *frame, a []value) value {
		r := fr.i.x.s2results[a[0].(int)]
		v, _, ok := fr.i.navigate(*r.Recv, r.RecvType, a[1].(string))
		if !ok {
			panic(unsupported("OLen: no such path " + a[1].(string)))
		}
		switch s := v.(type) {
		case []value:
			return len(s)
		case *symMap:
			if s == nil {
				return 0
			}
			return len(s.keys)
		}
		panic(unsupported(fmt.Sprintf("OLen of %T", v)))
	})
}

// outScalar fetches a decoded scalar, widened to int64 / float64 for the harness.
func (i *interpreter) outScalar(a []value, want skind) value {
	r := i.x.s2results[a[0].(int)]
	v, t, ok := i.navigate(*r.Recv, r.RecvType, a[1].(string))
	if !ok {
		panic(unsupported("out accessor: no such path " + a[1].(string)))
	}
	if it, isI := v.(iface); isI {
		if it.t == nil {
			panic(unsupported("out accessor: nil interface at " + a[1].(string)))
		}
		v, t = it.v, it.t
	}
	switch want {
	case sBV:
		return conv(types.Typ[types.Int64], t, v)
	case sF64:
		// a whole-number literal assigned to an untyped field arrives as an int
		if b, ok := t.Underlying().(*types.Basic); ok && b.Info()&types.IsInteger != 0 {
			return conv(types.Typ[types.Float64], t, v)
		}
		return v
	case sStr, sBool:
		return v
	}
	return v
}

// navigate walks a decoded Go value along a path of field names and indices, dereferencing
// pointers on the way.
func (i *interpreter) navigate(v value, t types.Type, path string) (value, types.Type, bool) {
	v, t, ok := i.navigateRaw(v, t, path)
	if !ok {
		return nil, nil, false
	}
	for {
		pt, isPtr := t.Underlying().(*types.Pointer)
		if !isPtr {
			break
		}
		p, _ := v.(*value)
		if p == nil {
			return nil, nil, false
		}
		v, t = *p, pt.Elem()
	}
	return v, t, true
}

func (i *interpreter) navigateRaw(v value, t types.Type, path string) (value, types.Type, bool) {
	if path == "" {
		return v, t, true
	}
	for _, seg := range strings.Split(path, "/") {
		for {
			pt, isPtr := t.Underlying().(*types.Pointer)
			if !isPtr {
				break
			}
			p, _ := v.(*value)
			if p == nil {
				return nil, nil, false
			}
			v, t = *p, pt.Elem()
		}
		switch u := t.Underlying().(type) {
		case *types.Struct:
			found := false
			for k := 0; k < u.NumFields(); k++ {
				if u.Field(k).Name() == seg {
					v, t = v.(structure)[k], u.Field(k).Type()
					found = true
					break
				}
			}
			if !found {
				return nil, nil, false
			}
		case *types.Slice:
			var idx int
			if _, err := fmt.Sscanf(seg, "%d", &idx); err != nil {
				return nil, nil, false
			}
			xs, _ := v.([]value)
			if idx >= len(xs) {
				return nil, nil, false
			}
			v, t = xs[idx], u.Elem()
		case *types.Map:
			sm, ok := v.(*symMap)
			if !ok || sm == nil {
				return nil, nil, false
			}
			var idx int
			if _, err := fmt.Sscanf(seg, "%d", &idx); err != nil || idx >= len(sm.vals) {
				return nil, nil, false
			}
			v, t = sm.vals[idx], u.Elem()
		case *types.Interface:
			it := v.(iface)
			if it.t == nil {
				return nil, nil, false
			}
			return i.navigateRaw(it.v, it.t, seg)
		default:
			return nil, nil, false
		}
	}
	return v, t, true
}

// priorValue builds an arbitrary prior value of type t: scalar leaves are fresh symbols,
// reference-typed leaves are nil (C19 "destination unchanged on error").
func (i *interpreter) priorValue(t types.Type) value {
	switch u := t.Underlying().(type) {
	case *types.Basic:
		k, w, _, ok := symSortOf(u)
		if !ok {
			return zero(t)
		}
		if _, grid := i.x.gridParam(); grid {
			if k == sF64 {
				s, _ := i.x.freshGrid(i.x.gridMag())
				return s
			}
			if k == sBV {
				return i.x.freshInt("prior", 62)
			}
		}
		return i.x.fresh("prior", k, w)
	case *types.Struct:
		st := zero(t).(structure)
		for k := 0; k < u.NumFields(); k++ {
			st[k] = i.priorValue(u.Field(k).Type())
		}
		return st
	}
	return zero(t)
}

func copyVal(v value) value {
	switch x := v.(type) {
	case structure:
		out := make(structure, len(x))
		for k, e := range x {
			out[k] = copyVal(e)
		}
		return out
	case array:
		out := make(array, len(x))
		for k, e := range x {
			out[k] = copyVal(e)
		}
		return out
	}
	return v
}

// sameVal: syntactic identity of two interpreter values (symbols compared by term).
func sameVal(a, b value) bool {
	switch x := a.(type) {
	case structure:
		y, ok := b.(structure)
		if !ok || len(x) != len(y) {
			return false
		}
		for k := range x {
			if !sameVal(x[k], y[k]) {
				return false
			}
		}
		return true
	case array:
		y, ok := b.(array)
		if !ok || len(x) != len(y) {
			return false
		}
		for k := range x {
			if !sameVal(x[k], y[k]) {
				return false
			}
		}
		return true
	case sym:
		y, ok := b.(sym)
		return ok && x.t == y.t
	case []value:
		y, ok := b.([]value)
		return ok && (x == nil) == (y == nil) && len(x) == len(y) && (len(x) == 0 || &x[0] == &y[0])
	case *value:
		y, ok := b.(*value)
		return ok && x == y
	case iface:
		y, ok := b.(iface)
		if !ok {
			return false
		}
		if x.t == nil || y.t == nil {
			return x.t == nil && y.t == nil
		}
		return types.Identical(x.t, y.t) && sameVal(x.v, y.v)
	case *docMap:
		y, ok := b.(*docMap)
		return ok && x == y
	case *symMap:
		y, ok := b.(*symMap)
		return ok && x == y
	case map[value]value:
		y, ok := b.(map[value]value)
		return ok && (x == nil) == (y == nil) && len(x) == len(y) && len(x) == 0
	case *hashmap:
		y, ok := b.(*hashmap)
		return ok && x == y
	}
	defer func() { _ = recover() }()
	return a == b
}

// mapstructureDecode models mapstructure.Decode(raw, &m) as the emitted code uses it: raw is
// the document's raw map after the declared keys were deleted; m is a map[string]T.  The
// remaining (extra) members are decoded into m with mapstructure's non-weak rules.
func (i *interpreter) mapstructureDecode(fr *frame, src, dst iface) value {
	x := i.x
	if dv, isDoc := src.v.(docVal); isDoc {
		// a single member decoded into a typed value
		pt, ok := dst.t.Underlying().(*types.Pointer)
		if !ok {
			return i.mkError("mapstructure: result must be a pointer")
		}
		v, errv := i.mapstructureValue(dv.n, pt.Elem())
		if errv != nil {
			return errv
		}
		*dst.v.(*value) = v
		return iface{}
	}
	dm, ok := src.v.(*docMap)
	if !ok {
		if mapIsNil(src.v) {
			return iface{} // a nil map (the raw map of a null document): nothing to decode
		}
		panic(unsupported(fmt.Sprintf("mapstructure.Decode from %T", src.v)))
	}
	pt, ok := dst.t.Underlying().(*types.Pointer)
	if !ok {
		return i.mkError("mapstructure: result must be a pointer")
	}
	mt, ok := pt.Elem().Underlying().(*types.Map)
	if !ok {
		panic(unsupported("mapstructure.Decode into " + typeString(pt.Elem())))
	}
	cell := dst.v.(*value)
	if dm == nil {
		return iface{} // nil input: nothing to do
	}
	sm := &symMap{n: dm.n, elem: mt.Elem()}
	// what is left in the raw map: every member that was not deleted -- the E extra members and
	// any DECLARED member the emitted code failed to delete (names the decode has touched)
	var names []string
	for name := range dm.n.kids {
		if !strings.HasPrefix(name, "+") && !dm.deleted[name] {
			names = append(names, name)
		}
	}
	sortStrings(names)
	for k := 0; k < x.docExtra(); k++ {
		names = append(names, fmt.Sprintf("+%d", k))
	}
	for _, name := range names {
		el := dm.n.child(name)
		present := symNot(el.kindIs(kAbsent))
		if !x.decide(present) {
			continue
		}
		v, errv := i.mapstructureValue(el, mt.Elem())
		if errv != nil {
			return errv
		}
		sm.keys = append(sm.keys, el)
		sm.vals = append(sm.vals, v)
	}
	*cell = sm
	return iface{}
}

// mapstructureValue converts one raw (interface{}) member into the map's element type.
func (i *interpreter) mapstructureValue(el *docNode, t types.Type) (value, value) {
	x := i.x
	fail := func() (value, value) {
		return nil, i.mkError("mapstructure: '" + el.path + "' expected type '" + typeString(t) + "', got unconvertible type")
	}
	switch u := t.Underlying().(type) {
	case *types.Interface:
		var v value = iface{}
		c := &decodeCtx{i: i, tag: "json", errAcc: mkBool("false")}
		c.decodeIface(el, &v)
		return v, nil
	case *types.Basic:
		switch {
		case u.Kind() == types.String:
			if x.decide(el.kindIs(kString)) {
				return el.strv(), nil
			}
			if x.decide(el.kindIs(kNull)) {
				return "", nil
			}
			return fail()
		case u.Kind() == types.Bool:
			if x.decide(el.kindIs(kBool)) {
				return el.boolv(), nil
			}
			if x.decide(el.kindIs(kNull)) {
				return false, nil
			}
			return fail()
		case u.Kind() == types.Float64:
			if x.decide(el.kindIs(kNumber)) {
				return el.floatv(), nil
			}
			if x.decide(el.kindIs(kNull)) {
				return float64(0), nil
			}
			return fail()
		case u.Info()&types.IsInteger != 0:
			// raw numbers are float64; mapstructure converts with int64(f) (truncation)
			if x.decide(el.kindIs(kNumber)) {
				f := el.floatv()
				return symConv(t, types.Typ[types.Float64], f), nil
			}
			if x.decide(el.kindIs(kNull)) {
				return zero(t), nil
			}
			return fail()
		}
	case *types.Slice:
		if x.decide(el.kindIs(kArray)) {
			var v value = iface{}
			c := &decodeCtx{i: i, tag: "json", errAcc: mkBool("false")}
			c.decodeIface(el, &v)
			return v.(iface).v, nil
		}
		if x.decide(el.kindIs(kNull)) {
			return zero(t), nil
		}
		return fail()
	}
	panic(unsupported("mapstructure element type " + typeString(t)))
}

// initStage2 runs the package initialiser of an emitted package once per path (its
// package-level variables, e.g. the enumValues_ tables, are interpreter state).
func (i *interpreter) initStage2(fr *frame, s *Stage2) {
	key := "s2init:" + s.Path
	if i.x.declared[key] {
		return
	}
	i.x.declared[key] = true
	if f := s.Pkg.Func("init"); f != nil {
		call(i, fr, token.NoPos, f, nil)
	}
}

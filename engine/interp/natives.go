package interp

// Bridges for functions outside the interpreted packages ("externals", DESIGN §3.4).
// Pure natives run on concrete arguments only; a symbolic argument reaching one of them
// ends the path as UNSUPPORTED (a Go type assertion on the argument fails and is
// classified by runPath).

import (
	"encoding/json"
	"fmt"
	"go/format"
	"go/types"
	"math"
	"net/url"
	"path"
	"path/filepath"
	"regexp"
	"sort"
	"strings"
	"unicode"
	"unicode/utf8"

	"golang.org/x/tools/go/ssa"
)

type natfn func(fr *frame, args []value) value

// nativeFunc is a callable interpreter value implemented in Go.
type nativeFunc func(args []value) value

var natives = map[string]natfn{}

func strs(v value) []string {
	xs, _ := v.([]value)
	out := make([]string, len(xs))
	for i, x := range xs {
		out[i] = x.(string)
	}
	return out
}

func vals(ss []string) []value {
	out := make([]value, len(ss))
	for i, s := range ss {
		out[i] = s
	}
	return out
}

// ---- errors ----

// Foreign errors are *errors.errorString{msg} with the wrapped chain kept in a side slot:
// structure{msg, wrapped []value}.  (errors.errorString has one field; the extra slot is
// only visible to these bridges.)
func (i *interpreter) mkError(msg string, wrapped ...value) value {
	var cell value = structure{msg, wrapped}
	return iface{t: i.m.errorStringPtr, v: &cell}
}

func (i *interpreter) errString(fr *frame, e iface) string {
	if e.t == nil {
		return "<nil>"
	}
	if types.Identical(e.t, i.m.errorStringPtr) {
		return (*(e.v.(*value))).(structure)[0].(string)
	}
	m := i.prog.MethodSets.MethodSet(e.t).Lookup(nil, "Error")
	if m == nil {
		return fmt.Sprintf("<error %v>", e.t)
	}
	fn := i.methodValue(m)
	r := call(i, fr, 0, fn, []value{e.v})
	if s, ok := r.(string); ok {
		return s
	}
	return "<symbolic error text>"
}

func errWrapped(i *interpreter, e iface) []value {
	if e.t != nil && types.Identical(e.t, i.m.errorStringPtr) {
		st := (*(e.v.(*value))).(structure)
		if len(st) > 1 {
			w, _ := st[1].([]value)
			return w
		}
	}
	return nil
}

func errIs(i *interpreter, e, target iface) bool {
	if e.t == nil {
		return target.t == nil
	}
	if target.t != nil && types.Identical(e.t, target.t) && e.v == target.v {
		return true
	}
	for _, w := range errWrapped(i, e) {
		if wi, ok := w.(iface); ok && errIs(i, wi, target) {
			return true
		}
	}
	return false
}

var errorIface = types.Universe.Lookup("error").Type().Underlying().(*types.Interface)

// ---- strings.Builder: content lives in slot 1 of the struct as a Go string ----

func builderGet(p value) string {
	st := (*(p.(*value))).(structure)
	s, _ := st[1].(string)
	return s
}

func builderAppend(p value, s string) {
	st := (*(p.(*value))).(structure)
	if rs, ok := st[1].(runeStr); ok {
		st[1] = runeStrConcat(rs, s)
		return
	}
	cur, _ := st[1].(string)
	st[1] = cur + s
}

func builderAppendRunes(p value, rs runeStr) {
	st := (*(p.(*value))).(structure)
	var cur value = ""
	switch c := st[1].(type) {
	case string:
		cur = c
	case runeStr:
		cur = c
	}
	st[1] = runeStrConcat(cur, rs)
}

func init() {
	for k, v := range map[string]natfn{
		"errors.New": func(fr *frame, a []value) value { return fr.i.mkError(a[0].(string)) },
		"github.com/pkg/errors.New": func(fr *frame, a []value) value {
			return fr.i.mkError(a[0].(string))
		},
		"(*errors.errorString).Error": func(fr *frame, a []value) value {
			return (*(a[0].(*value))).(structure)[0]
		},
		"errors.Join": func(fr *frame, a []value) value {
			var msgs []string
			var ws []value
			for _, e := range a[0].([]value) {
				ei := e.(iface)
				if ei.t == nil {
					continue
				}
				msgs = append(msgs, fr.i.errString(fr, ei))
				ws = append(ws, ei)
			}
			if len(ws) == 0 {
				return iface{}
			}
			return fr.i.mkError(strings.Join(msgs, "\n"), ws...)
		},
		"errors.Is": func(fr *frame, a []value) value {
			return errIs(fr.i, a[0].(iface), a[1].(iface))
		},
		"errors.Unwrap": func(fr *frame, a []value) value {
			ws := errWrapped(fr.i, a[0].(iface))
			if len(ws) == 1 {
				return ws[0]
			}
			return iface{}
		},

		"(*strings.Builder).WriteString": func(fr *frame, a []value) value {
			if rs, ok := a[1].(runeStr); ok {
				builderAppendRunes(a[0], rs)
				return tuple{len(rs), iface{}}
			}
			s := fr.i.strArg(a[1])
			builderAppend(a[0], s)
			return tuple{len(s), iface{}}
		},
		"(*strings.Builder).WriteRune": func(fr *frame, a []value) value {
			s := string(a[1].(rune))
			builderAppend(a[0], s)
			return tuple{len(s), iface{}}
		},
		"(*strings.Builder).WriteByte": func(fr *frame, a []value) value {
			builderAppend(a[0], string([]byte{a[1].(byte)}))
			return iface{}
		},
		"(*strings.Builder).String": func(fr *frame, a []value) value {
			st := (*(a[0].(*value))).(structure)
			if rs, ok := st[1].(runeStr); ok {
				return rs
			}
			return builderGet(a[0])
		},
		"(*strings.Builder).Len": func(fr *frame, a []value) value { return len(builderGet(a[0])) },

		"strings.ToUpper": func(fr *frame, a []value) value { return strings.ToUpper(a[0].(string)) },
		"strings.ToLower": func(fr *frame, a []value) value { return strings.ToLower(a[0].(string)) },
		"strings.Title":   func(fr *frame, a []value) value { return strings.Title(a[0].(string)) }, //nolint
		"strings.HasPrefix": func(fr *frame, a []value) value {
			if isBstr(a[0]) || isBstr(a[1]) {
				return bstrHasPrefix(a[0], a[1])
			}
			return strings.HasPrefix(a[0].(string), a[1].(string))
		},
		"strings.HasSuffix": func(fr *frame, a []value) value {
			if isBstr(a[0]) || isBstr(a[1]) {
				return bstrHasSuffix(a[0], a[1])
			}
			return strings.HasSuffix(a[0].(string), a[1].(string))
		},
		"strings.TrimPrefix": func(fr *frame, a []value) value { return strings.TrimPrefix(a[0].(string), a[1].(string)) },
		"strings.TrimSuffix": func(fr *frame, a []value) value { return strings.TrimSuffix(a[0].(string), a[1].(string)) },
		"strings.TrimSpace":  func(fr *frame, a []value) value { return strings.TrimSpace(a[0].(string)) },
		"strings.Trim":       func(fr *frame, a []value) value { return strings.Trim(a[0].(string), a[1].(string)) },
		"strings.TrimLeft":   func(fr *frame, a []value) value { return strings.TrimLeft(a[0].(string), a[1].(string)) },
		"strings.TrimRight":  func(fr *frame, a []value) value { return strings.TrimRight(a[0].(string), a[1].(string)) },
		"strings.Contains":   func(fr *frame, a []value) value { return strings.Contains(a[0].(string), a[1].(string)) },
		"strings.ContainsAny": func(fr *frame, a []value) value {
			return strings.ContainsAny(a[0].(string), a[1].(string))
		},
		"strings.ContainsRune": func(fr *frame, a []value) value {
			return strings.ContainsRune(a[0].(string), a[1].(rune))
		},
		"strings.IndexRune": func(fr *frame, a []value) value { return strings.IndexRune(a[0].(string), a[1].(rune)) },
		"strings.Index":     func(fr *frame, a []value) value { return strings.Index(a[0].(string), a[1].(string)) },
		"strings.IndexAny":  func(fr *frame, a []value) value { return strings.IndexAny(a[0].(string), a[1].(string)) },
		"strings.IndexByte": func(fr *frame, a []value) value { return strings.IndexByte(a[0].(string), a[1].(byte)) },
		"strings.LastIndex": func(fr *frame, a []value) value { return strings.LastIndex(a[0].(string), a[1].(string)) },
		"strings.LastIndexByte": func(fr *frame, a []value) value {
			return strings.LastIndexByte(a[0].(string), a[1].(byte))
		},
		"strings.Join":  func(fr *frame, a []value) value { return strings.Join(strs(a[0]), a[1].(string)) },
		"strings.Split": func(fr *frame, a []value) value { return vals(strings.Split(a[0].(string), a[1].(string))) },
		"strings.SplitN": func(fr *frame, a []value) value {
			return vals(strings.SplitN(a[0].(string), a[1].(string), a[2].(int)))
		},
		"strings.Fields": func(fr *frame, a []value) value { return vals(strings.Fields(a[0].(string))) },
		"strings.Repeat": func(fr *frame, a []value) value { return strings.Repeat(a[0].(string), a[1].(int)) },
		"strings.Replace": func(fr *frame, a []value) value {
			return strings.Replace(a[0].(string), a[1].(string), a[2].(string), a[3].(int))
		},
		"strings.ReplaceAll": func(fr *frame, a []value) value {
			return strings.ReplaceAll(a[0].(string), a[1].(string), a[2].(string))
		},
		"strings.EqualFold": func(fr *frame, a []value) value { return strings.EqualFold(a[0].(string), a[1].(string)) },
		"strings.Compare":   func(fr *frame, a []value) value { return strings.Compare(a[0].(string), a[1].(string)) },
		"strings.Count":     func(fr *frame, a []value) value { return strings.Count(a[0].(string), a[1].(string)) },
		"strings.Cut": func(fr *frame, a []value) value {
			b, c, ok := strings.Cut(a[0].(string), a[1].(string))
			return tuple{b, c, ok}
		},
		"strings.CutPrefix": func(fr *frame, a []value) value {
			b, ok := strings.CutPrefix(a[0].(string), a[1].(string))
			return tuple{b, ok}
		},
		"strings.CutSuffix": func(fr *frame, a []value) value {
			b, ok := strings.CutSuffix(a[0].(string), a[1].(string))
			return tuple{b, ok}
		},

		"unicode.IsLower":   func(fr *frame, a []value) value { return runePred(fr, "lower", unicode.IsLower, a[0]) },
		"unicode.IsUpper":   func(fr *frame, a []value) value { return runePred(fr, "upper", unicode.IsUpper, a[0]) },
		"unicode.IsLetter":  func(fr *frame, a []value) value { return runePred(fr, "letter", unicode.IsLetter, a[0]) },
		"unicode.IsNumber":  func(fr *frame, a []value) value { return runePred(fr, "number", unicode.IsNumber, a[0]) },
		"unicode.IsDigit":   func(fr *frame, a []value) value { return runePred(fr, "digit", unicode.IsDigit, a[0]) },
		"unicode.IsSpace":   func(fr *frame, a []value) value { return runePred(fr, "space", unicode.IsSpace, a[0]) },
		"unicode.IsPunct":   func(fr *frame, a []value) value { return runePred(fr, "punct", unicode.IsPunct, a[0]) },
		"unicode.IsSymbol":  func(fr *frame, a []value) value { return runePred(fr, "symbol", unicode.IsSymbol, a[0]) },
		"unicode.IsMark":    func(fr *frame, a []value) value { return runePred(fr, "mark", unicode.IsMark, a[0]) },
		"unicode.IsControl": func(fr *frame, a []value) value { return runePred(fr, "control", unicode.IsControl, a[0]) },
		"unicode.ToUpper":   func(fr *frame, a []value) value { return runeMap(fr, "toupper", unicode.ToUpper, a[0]) },
		"unicode.ToLower":   func(fr *frame, a []value) value { return runeMap(fr, "tolower", unicode.ToLower, a[0]) },
		"unicode.ToTitle":   func(fr *frame, a []value) value { return unicode.ToTitle(a[0].(rune)) },
		"unicode/utf8.RuneCountInString": func(fr *frame, a []value) value {
			if s, ok := a[0].(sym); ok && s.k == sStr {
				return sym{sBV, 64, "(rlen " + s.t + ")"}
			}
			return utf8.RuneCountInString(a[0].(string))
		},
		"unicode/utf8.RuneCount": func(fr *frame, a []value) value {
			if s, ok := a[0].(sym); ok && s.k == sStr {
				return sym{sBV, 64, "(rlen " + s.t + ")"}
			}
			return utf8.RuneCount(bytesOf(a[0]))
		},
		"unicode/utf8.RuneLen":         func(fr *frame, a []value) value { return utf8.RuneLen(a[0].(rune)) },
		"unicode/utf8.ValidString":     func(fr *frame, a []value) value { return utf8.ValidString(a[0].(string)) },
		"unicode/utf8.RuneError_dummy": nil,

		"math.Round": func(fr *frame, a []value) value {
			if s, ok := a[0].(sym); ok {
				if s.k == sReal {
					return sym{sReal, 0, realRound(s.t)}
				}
				return sym{sF64, 0, "(fp.roundToIntegral RNA " + s.t + ")"}
			}
			return math.Round(a[0].(float64))
		},
		"math.Abs": func(fr *frame, a []value) value {
			if s, ok := a[0].(sym); ok {
				if s.k == sReal {
					return sym{sReal, 0, realAbs(s.t)}
				}
				return sym{sF64, 0, "(fp.abs " + s.t + ")"}
			}
			return math.Abs(a[0].(float64))
		},
		"math.Floor": func(fr *frame, a []value) value {
			if s, ok := a[0].(sym); ok {
				if s.k == sReal {
					return sym{sReal, 0, realFloor(s.t)}
				}
				return sym{sF64, 0, "(fp.roundToIntegral RTN " + s.t + ")"}
			}
			return math.Floor(a[0].(float64))
		},
		"math.Ceil": func(fr *frame, a []value) value {
			if s, ok := a[0].(sym); ok {
				if s.k == sReal {
					return sym{sReal, 0, realCeil(s.t)}
				}
				return sym{sF64, 0, "(fp.roundToIntegral RTP " + s.t + ")"}
			}
			return math.Ceil(a[0].(float64))
		},
		"math.Trunc": func(fr *frame, a []value) value {
			if s, ok := a[0].(sym); ok {
				if s.k == sReal {
					return sym{sReal, 0, realTrunc(s.t)}
				}
				return sym{sF64, 0, "(fp.roundToIntegral RTZ " + s.t + ")"}
			}
			return math.Trunc(a[0].(float64))
		},
		"math.Mod": func(fr *frame, a []value) value {
			if isSym(a[0]) || isSym(a[1]) {
				x, y := asTerm(a[0]), asTerm(a[1])
				if x.k == sReal || y.k == sReal {
					x, y = toReal(x), toReal(y)
					// Mod(x, 0) is NaN: outside the exact-grid domain
					if fr.i.x.decide(mkBool("(= " + y.t + " 0)")) {
						panic(unsupported("math.Mod by zero (NaN) in exact-grid mode"))
					}
					return sym{sReal, 0, realMod(x.t, y.t)}
				}
				return fr.i.modStub(x, y)
			}
			return math.Mod(a[0].(float64), a[1].(float64))
		},
		"math.IsNaN": func(fr *frame, a []value) value {
			if s, ok := a[0].(sym); ok {
				return mkBool("(fp.isNaN " + s.t + ")")
			}
			return math.IsNaN(a[0].(float64))
		},
		"math.IsInf": func(fr *frame, a []value) value {
			if s, ok := a[0].(sym); ok {
				switch sg := a[1].(int); {
				case sg > 0:
					return mkBool("(and (fp.isInfinite " + s.t + ") (fp.isPositive " + s.t + "))")
				case sg < 0:
					return mkBool("(and (fp.isInfinite " + s.t + ") (fp.isNegative " + s.t + "))")
				}
				return mkBool("(fp.isInfinite " + s.t + ")")
			}
			return math.IsInf(a[0].(float64), a[1].(int))
		},

		"path/filepath.Base":  func(fr *frame, a []value) value { return filepath.Base(a[0].(string)) },
		"path/filepath.Dir":   func(fr *frame, a []value) value { return filepath.Dir(a[0].(string)) },
		"path/filepath.Ext":   func(fr *frame, a []value) value { return filepath.Ext(a[0].(string)) },
		"path/filepath.IsAbs": func(fr *frame, a []value) value { return filepath.IsAbs(a[0].(string)) },
		"path/filepath.Clean": func(fr *frame, a []value) value { return filepath.Clean(a[0].(string)) },
		"path/filepath.Join":  func(fr *frame, a []value) value { return filepath.Join(strs(a[0])...) },
		"path.Ext":            func(fr *frame, a []value) value { return path.Ext(a[0].(string)) },
		"path.Base":           func(fr *frame, a []value) value { return path.Base(a[0].(string)) },
		"path.Dir":            func(fr *frame, a []value) value { return path.Dir(a[0].(string)) },
		"path.Join":           func(fr *frame, a []value) value { return path.Join(strs(a[0])...) },

		"github.com/mitchellh/go-wordwrap.WrapString": func(fr *frame, a []value) value {
			return wrapString(a[0].(string), a[1].(uint))
		},
		"go/format.Source": func(fr *frame, a []value) value {
			src := bytesOf(a[0])
			out, err := format.Source(src)
			if err != nil {
				return tuple{[]value(nil), fr.i.mkError(err.Error())}
			}
			return tuple{bytesVal(out), iface{}}
		},
		"sort.Strings": func(fr *frame, a []value) value {
			xs := a[0].([]value)
			sort.Slice(xs, func(i, j int) bool { return xs[i].(string) < xs[j].(string) })
			return nil
		},
		"internal/reflectlite.ValueOf": func(fr *frame, a []value) value { return a[0] },
		"(internal/reflectlite.Value).Len": func(fr *frame, a []value) value {
			return len(a[0].(iface).v.([]value))
		},
		"internal/reflectlite.Swapper": func(fr *frame, a []value) value {
			xs := a[0].(iface).v.([]value)
			return nativeFunc(func(args []value) value {
				p, q := args[0].(int), args[1].(int)
				xs[p], xs[q] = xs[q], xs[p]
				return nil
			})
		},
		"regexp.MatchString": func(fr *frame, a []value) value {
			pat := a[0].(string)
			if s, ok := a[1].(sym); ok && s.k == sStr {
				if _, err := regexp.Compile(pat); err != nil {
					return tuple{false, fr.i.mkError(err.Error())}
				}
				fr.i.x.patFacts(pat, s)
				return tuple{mkBool("(" + internPat(pat) + " " + s.t + ")"), iface{}}
			}
			ok, err := regexp.MatchString(pat, a[1].(string))
			if err != nil {
				return tuple{false, fr.i.mkError(err.Error())}
			}
			return tuple{ok, iface{}}
		},
		"net/url.Parse": func(fr *frame, a []value) value { return fr.i.urlParse(a[0].(string)) },
		"reflect.DeepEqual": func(fr *frame, a []value) value {
			return fr.i.deepEqualIface(a[0].(iface), a[1].(iface))
		},
		"(reflect.Value).IsZero": func(fr *frame, a []value) value {
			v := rV2V(a[0])
			switch x := v.(type) {
			case nil:
				return true
			case bool:
				return !x
			case string:
				return x == ""
			case float64:
				return x == 0
			case int:
				return x == 0
			case int64:
				return x == 0
			case *value:
				return x == nil
			case []value:
				return x == nil
			case iface:
				return x.t == nil
			case map[value]value:
				return x == nil
			case *hashmap:
				return x == nil
			case structure:
				for _, e := range x {
					if !isEmptyJSON(e) {
						return false
					}
				}
				return true
			}
			panic(unsupported(fmt.Sprintf("reflect.Value.IsZero of %T", v)))
		},
		// virtual file system: a path exists iff the harness declared it (zzvrt.VFile)
		"os.Stat": func(fr *frame, a []value) value {
			if fr.i.x.declared["vfile:"+filepath.Clean(a[0].(string))] {
				return tuple{iface{}, iface{}}
			}
			return tuple{iface{}, fr.i.mkError("stat " + a[0].(string) + ": no such file or directory (virtual file system)")}
		},
		"os.IsNotExist": func(fr *frame, a []value) value {
			e := a[0].(iface)
			return e.t != nil && strings.Contains(fr.i.errString(fr, e), "no such file or directory")
		},
		"path/filepath.EvalSymlinks": func(fr *frame, a []value) value { return tuple{a[0], iface{}} },
		"strconv.Itoa":               func(fr *frame, a []value) value { return fmt.Sprint(a[0].(int)) },
		"strconv.Quote":              func(fr *frame, a []value) value { return fmt.Sprintf("%q", a[0].(string)) },
	} {
		if v != nil {
			natives[k] = v
		}
	}
}

func bytesOf(v value) []byte {
	xs, _ := v.([]value)
	out := make([]byte, len(xs))
	for i, x := range xs {
		out[i] = x.(byte)
	}
	return out
}

func bytesVal(b []byte) []value {
	out := make([]value, len(b))
	for i, x := range b {
		out[i] = x
	}
	return out
}

func (i *interpreter) strArg(v value) string {
	switch v := v.(type) {
	case string:
		return v
	case sym:
		if v.k == sStr {
			return "‹str›"
		}
	}
	panic(unsupported(fmt.Sprintf("string argument is %T", v)))
}

// urlParse mirrors what the repository reads from url.Parse: only the Scheme (and Path for
// the HTTP loader).  The *url.URL is represented by the real struct layout's Scheme field.
func (i *interpreter) urlParse(s string) value {
	u, err := url.Parse(s)
	t := i.m.urlType
	if err != nil {
		return tuple{(*value)(nil), i.mkError(err.Error())}
	}
	st := zero(t).(structure)
	ts := t.Underlying().(*types.Struct)
	for k := 0; k < ts.NumFields(); k++ {
		switch ts.Field(k).Name() {
		case "Scheme":
			st[k] = u.Scheme
		case "Host":
			st[k] = u.Host
		case "Path":
			st[k] = u.Path
		case "Fragment":
			st[k] = u.Fragment
		case "Opaque":
			st[k] = u.Opaque
		}
	}
	var cell value = st
	return tuple{&cell, iface{}}
}

// wrapString is github.com/mitchellh/go-wordwrap v1.0.1's WrapString, executed natively by
// the real library when linked; reproduced here through the library itself.
func wrapString(s string, lim uint) string { return wordwrapWrapString(s, lim) }

func isInterpretedStd(path string) bool {
	switch path {
	case "sort", "slices", "cmp", "math/bits", "golang.org/x/exp/slices", "golang.org/x/exp/constraints":
		return true
	}
	return false
}

// ssaFuncPkgPath returns the import path of the package a function belongs to.
func ssaFuncPkgPath(fn *ssa.Function) string {
	if fn.Pkg != nil {
		return fn.Pkg.Pkg.Path()
	}
	if o := fn.Origin(); o != nil && o.Pkg != nil {
		return o.Pkg.Pkg.Path()
	}
	if fn.Parent() != nil {
		return ssaFuncPkgPath(fn.Parent())
	}
	if obj := fn.Object(); obj != nil && obj.Pkg() != nil {
		return obj.Pkg().Path()
	}
	// synthetic wrappers ($bound, $thunk) of methods: follow the receiver's named type
	if sig := fn.Signature; sig != nil && sig.Recv() != nil {
		t := sig.Recv().Type()
		if p, ok := t.(*types.Pointer); ok {
			t = p.Elem()
		}
		if n, ok := t.(*types.Named); ok && n.Obj().Pkg() != nil {
			return n.Obj().Pkg().Path()
		}
	}
	return ""
}

func jsonMarshal(v interface{}) ([]byte, error) { return json.Marshal(v) }

// runePred / runeMap: concrete runes run natively (symbolic runes: see runes.go).
func runePred(fr *frame, name string, f func(rune) bool, r value) value {
	if s, ok := r.(sym); ok {
		return fr.i.symRunePred(name, s)
	}
	return f(r.(rune))
}

func runeMap(fr *frame, name string, f func(rune) rune, r value) value {
	if s, ok := r.(sym); ok {
		return fr.i.symRuneMap(name, s)
	}
	return f(r.(rune))
}

// modStub is math.Mod in FP mode: C fmod from the IEEE remainder (fp.rem rounds the quotient
// to nearest, fmod truncates it): with r = rem(|x|,|y|), fmod(|x|,|y|) = r < 0 ? r+|y| : r
// (exact: the result of fmod is always representable), and the sign is that of x.
func (i *interpreter) modStub(x, m sym) value {
	if x.k != sF64 || m.k != sF64 {
		panic(unsupported("math.Mod on non-float symbolic operands"))
	}
	ax, am := "(fp.abs "+x.t+")", "(fp.abs "+m.t+")"
	r := "(fp.rem " + ax + " " + am + ")"
	t := "(ite (fp.lt " + r + " " + f64Lit(0) + ") (fp.add RNE " + r + " " + am + ") " + r + ")"
	return sym{sF64, 0, "(ite (fp.isNegative " + x.t + ") (fp.neg " + t + ") " + t + ")"}
}

func init() {
	// package maps (generic helpers over runtime internals): shallow copies of interpreter maps
	natives["maps.Clone"] = func(fr *frame, a []value) value {
		switch m := a[0].(type) {
		case map[value]value:
			if m == nil {
				return m
			}
			out := make(map[value]value, len(m))
			for k, v := range m {
				out[k] = v
			}
			return out
		case *hashmap:
			if m == nil {
				return m
			}
			out := &hashmap{keyType: m.keyType, table: make(map[int]*entry, len(m.table))}
			for _, head := range m.table {
				for e := head; e != nil; e = e.next {
					out.insert(e.key.(hashable), e.value)
				}
			}
			return out
		}
		panic(unsupported(fmt.Sprintf("maps.Clone of %T", a[0])))
	}
	natives["maps.Copy"] = func(fr *frame, a []value) value {
		switch src := a[1].(type) {
		case map[value]value:
			dst := a[0].(map[value]value)
			for k, v := range src {
				dst[k] = v
			}
			return nil
		case *hashmap:
			dst := a[0].(*hashmap)
			for _, head := range src.entries() {
				for e := head; e != nil; e = e.next {
					dst.insert(e.key.(hashable), e.value)
				}
			}
			return nil
		}
		panic(unsupported(fmt.Sprintf("maps.Copy of %T", a[1])))
	}
}

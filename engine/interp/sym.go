package interp

// Symbolic values for the gosym engine.
//
// A sym is an SMT-LIB2 term together with its sort.  Terms are built without any
// per-path state; string literals and regular-expression patterns are interned in a
// process-wide table and referenced by tokens (L!n, M!n) that the solver layer
// expands into declarations and facts when a query is assembled.

import (
	"fmt"
	"go/token"
	"go/types"
	"math"
	"regexp"
	"strings"
	"sync"
	"unicode/utf8"
)

type skind uint8

const (
	sBool skind = iota
	sBV
	sF64
	sStr  // element of the uninterpreted-ish sort of strings (encoded as Int)
	sReal // a float64 known to lie on an exact dyadic grid, encoded as a scaled SMT Int (see realmode.go)
	sInt  // a Go integer encoded as an SMT Int (exact-grid mode only; comparisons, +, -, % const)
)

type sym struct {
	k skind
	w int    // bit width for sBV
	t string // SMT-LIB2 term
}

func (s sym) String() string { return "‹" + s.t + "›" }

func isSym(v value) bool { _, ok := v.(sym); return ok }

func sortText(k skind, w int) string {
	switch k {
	case sBool:
		return "Bool"
	case sBV:
		return fmt.Sprintf("(_ BitVec %d)", w)
	case sF64:
		return "(_ FloatingPoint 11 53)"
	case sStr:
		return "Int"
	case sReal, sInt:
		return "Int"
	}
	panic("sortText")
}

func bvLit(w int, x uint64) string {
	switch w {
	case 8:
		return fmt.Sprintf("#x%02x", uint8(x))
	case 16:
		return fmt.Sprintf("#x%04x", uint16(x))
	case 32:
		return fmt.Sprintf("#x%08x", uint32(x))
	case 64:
		return fmt.Sprintf("#x%016x", x)
	}
	panic(fmt.Sprintf("bvLit width %d", w))
}

func f64Lit(f float64) string {
	return fmt.Sprintf("((_ to_fp 11 53) #x%016x)", math.Float64bits(f))
}

// ---- interning of string literals and patterns ----

var (
	internMu   sync.Mutex
	litIDs     = map[string]int{}
	litByID    []string
	patIDs     = map[string]int{}
	patByID    []string
	tokenRE    = regexp.MustCompile(`[LM]!\d+`)
	symTokenRE = regexp.MustCompile(`[A-Za-z_][A-Za-z0-9_!.]*`)
)

func internLit(s string) string {
	internMu.Lock()
	defer internMu.Unlock()
	id, ok := litIDs[s]
	if !ok {
		id = len(litByID)
		litIDs[s] = id
		litByID = append(litByID, s)
	}
	return fmt.Sprintf("L!%d", id)
}

func internPat(p string) string {
	internMu.Lock()
	defer internMu.Unlock()
	id, ok := patIDs[p]
	if !ok {
		id = len(patByID)
		patIDs[p] = id
		patByID = append(patByID, p)
	}
	return fmt.Sprintf("M!%d", id)
}

func litContent(tok string) (string, bool) {
	var id int
	if _, err := fmt.Sscanf(tok, "L!%d", &id); err != nil {
		return "", false
	}
	internMu.Lock()
	defer internMu.Unlock()
	if id < len(litByID) {
		return litByID[id], true
	}
	return "", false
}

func patContent(tok string) (string, bool) {
	var id int
	if _, err := fmt.Sscanf(tok, "M!%d", &id); err != nil {
		return "", false
	}
	internMu.Lock()
	defer internMu.Unlock()
	if id < len(patByID) {
		return patByID[id], true
	}
	return "", false
}

// preamble returns declarations and facts for the interned tokens mentioned in text.
func tokenPreamble(text string) string {
	seen := map[string]bool{}
	var sb strings.Builder
	var lits []string
	for _, tok := range tokenRE.FindAllString(text, -1) {
		if seen[tok] {
			continue
		}
		seen[tok] = true
		if tok[0] == 'L' {
			s, _ := litContent(tok)
			var id int
			fmt.Sscanf(tok, "L!%d", &id)
			// literal ids are the non-negative integers; symbolic strings are free Ints,
			// so a symbolic string may equal a literal, in which case congruence gives it
			// the literal's lengths.
			fmt.Fprintf(&sb, "(define-fun %s () Int %d)\n", tok, id)
			fmt.Fprintf(&sb, "(assert (= (blen %s) %s))\n", tok, bvLit(64, uint64(len(s))))
			fmt.Fprintf(&sb, "(assert (= (rlen %s) %s))\n", tok, bvLit(64, uint64(utf8.RuneCountInString(s))))
			lits = append(lits, tok)
		} else {
			fmt.Fprintf(&sb, "(declare-fun %s (Int) Bool)\n", tok)
		}
	}
	// concrete pattern facts on literals
	for tok := range seen {
		if tok[0] != 'M' {
			continue
		}
		p, _ := patContent(tok)
		re, err := regexp.Compile(p)
		for _, l := range lits {
			s, _ := litContent(l)
			if err != nil {
				fmt.Fprintf(&sb, "(assert (not (%s %s)))\n", tok, l)
			} else if re.MatchString(s) {
				fmt.Fprintf(&sb, "(assert (%s %s))\n", tok, l)
			} else {
				fmt.Fprintf(&sb, "(assert (not (%s %s)))\n", tok, l)
			}
		}
	}
	return sb.String()
}

// ---- from Go types / values ----

// symSortOf maps a Go basic type to a symbolic sort; ok=false if unsupported.
func symSortOf(t types.Type) (k skind, w int, signed bool, ok bool) {
	b, isBasic := t.Underlying().(*types.Basic)
	if !isBasic {
		return
	}
	switch b.Kind() {
	case types.Bool, types.UntypedBool:
		return sBool, 0, false, true
	case types.Int, types.Int64, types.UntypedInt:
		return sBV, 64, true, true
	case types.Int32, types.UntypedRune:
		return sBV, 32, true, true
	case types.Int16:
		return sBV, 16, true, true
	case types.Int8:
		return sBV, 8, true, true
	case types.Uint, types.Uint64, types.Uintptr:
		return sBV, 64, false, true
	case types.Uint32:
		return sBV, 32, false, true
	case types.Uint16:
		return sBV, 16, false, true
	case types.Uint8:
		return sBV, 8, false, true
	case types.Float64, types.UntypedFloat:
		return sF64, 0, true, true
	case types.String, types.UntypedString:
		return sStr, 0, false, true
	}
	return
}

// asTerm lifts a concrete scalar to a term.
func asTerm(v value) sym {
	switch v := v.(type) {
	case sym:
		return v
	case bool:
		if v {
			return sym{sBool, 0, "true"}
		}
		return sym{sBool, 0, "false"}
	case int:
		return sym{sBV, 64, bvLit(64, uint64(int64(v)))}
	case int64:
		return sym{sBV, 64, bvLit(64, uint64(v))}
	case int32:
		return sym{sBV, 32, bvLit(32, uint64(v))}
	case int16:
		return sym{sBV, 16, bvLit(16, uint64(v))}
	case int8:
		return sym{sBV, 8, bvLit(8, uint64(v))}
	case uint:
		return sym{sBV, 64, bvLit(64, uint64(v))}
	case uint64:
		return sym{sBV, 64, bvLit(64, v)}
	case uintptr:
		return sym{sBV, 64, bvLit(64, uint64(v))}
	case uint32:
		return sym{sBV, 32, bvLit(32, uint64(v))}
	case uint16:
		return sym{sBV, 16, bvLit(16, uint64(v))}
	case uint8:
		return sym{sBV, 8, bvLit(8, uint64(v))}
	case float64:
		return sym{sF64, 0, f64Lit(v)}
	case string:
		return sym{sStr, 0, internLit(v)}
	}
	panic(unsupported(fmt.Sprintf("asTerm(%T)", v)))
}

func mkBool(t string) sym { return sym{sBool, 0, t} }

func symNot(a sym) sym {
	switch a.t {
	case "true":
		return mkBool("false")
	case "false":
		return mkBool("true")
	}
	if strings.HasPrefix(a.t, "(not ") && balanced(a.t[5:len(a.t)-1]) {
		return mkBool(a.t[5 : len(a.t)-1])
	}
	return mkBool("(not " + a.t + ")")
}

func balanced(s string) bool {
	d := 0
	for i := 0; i < len(s); i++ {
		switch s[i] {
		case '(':
			d++
		case ')':
			d--
			if d < 0 {
				return false
			}
			if d == 0 && i != len(s)-1 {
				return false
			}
		case ' ':
			if d == 0 {
				return false
			}
		}
	}
	return d == 0
}

func symAnd(a, b sym) sym {
	if a.t == "true" {
		return b
	}
	if b.t == "true" {
		return a
	}
	if a.t == "false" || b.t == "false" {
		return mkBool("false")
	}
	return mkBool("(and " + a.t + " " + b.t + ")")
}

func symOr(a, b sym) sym {
	if a.t == "false" {
		return b
	}
	if b.t == "false" {
		return a
	}
	if a.t == "true" || b.t == "true" {
		return mkBool("true")
	}
	return mkBool("(or " + a.t + " " + b.t + ")")
}

func symIte(c, a, b sym) sym {
	if a.k == sReal || b.k == sReal {
		a, b = toReal(a), toReal(b)
	}
	if a.k == sInt || b.k == sInt {
		a, b = toInt(a, true), toInt(b, true)
	}
	if c.t == "true" {
		return a
	}
	if c.t == "false" {
		return b
	}
	return sym{a.k, a.w, "(ite " + c.t + " " + a.t + " " + b.t + ")"}
}

func symEq(a, b sym) sym {
	if a.k == sReal || b.k == sReal {
		a, b = toReal(a), toReal(b)
	}
	if a.k == sInt || b.k == sInt {
		a, b = toInt(a, true), toInt(b, true)
		if a.t == b.t {
			return mkBool("true")
		}
		return mkBool("(= " + a.t + " " + b.t + ")")
	}
	if a.k != b.k || a.w != b.w {
		panic(unsupported(fmt.Sprintf("symEq sorts %v/%d vs %v/%d", a.k, a.w, b.k, b.w)))
	}
	if a.t == b.t {
		return mkBool("true")
	}
	if a.k == sF64 {
		return mkBool("(fp.eq " + a.t + " " + b.t + ")")
	}
	return mkBool("(= " + a.t + " " + b.t + ")")
}

// symBinop implements Go binary operators on operands at least one of which is symbolic.
// t is the static type of the left operand.
func symBinop(op token.Token, t types.Type, x, y value) value {
	// symbolic strings
	if sx, ok := x.(sym); ok && sx.k == sStr {
		return strBinop(op, sx, asTerm(y))
	}
	if sy, ok := y.(sym); ok && sy.k == sStr {
		return strBinop(op, asTerm(x), sy)
	}
	a, b := asTerm(x), asTerm(y)
	if a.k == sReal || b.k == sReal {
		if r, ok := realCmpOffGrid(op, a, b); ok {
			return r
		}
		return realBinop(op, toReal(a), toReal(b))
	}
	_, _, signed, _ := symSortOf(t)
	if a.k == sInt || b.k == sInt {
		return intBinop(op, toInt(a, signed), toInt(b, signed), signed)
	}
	switch a.k {
	case sBool:
		switch op {
		case token.EQL:
			return symEq(a, b)
		case token.NEQ:
			return symNot(symEq(a, b))
		case token.LAND:
			return symAnd(a, b)
		case token.LOR:
			return symOr(a, b)
		}
	case sF64:
		f := ""
		switch op {
		case token.LSS:
			f = "fp.lt"
		case token.LEQ:
			f = "fp.leq"
		case token.GTR:
			f = "fp.gt"
		case token.GEQ:
			f = "fp.geq"
		case token.EQL:
			return symEq(a, b)
		case token.NEQ:
			return symNot(symEq(a, b))
		case token.ADD:
			return sym{sF64, 0, "(fp.add RNE " + a.t + " " + b.t + ")"}
		case token.SUB:
			return sym{sF64, 0, "(fp.sub RNE " + a.t + " " + b.t + ")"}
		case token.MUL:
			return sym{sF64, 0, "(fp.mul RNE " + a.t + " " + b.t + ")"}
		case token.QUO:
			return sym{sF64, 0, "(fp.div RNE " + a.t + " " + b.t + ")"}
		}
		if f != "" {
			return mkBool("(" + f + " " + a.t + " " + b.t + ")")
		}
	case sBV:
		if op == token.SHL || op == token.SHR {
			// shift count may have a different width; normalise to a.w (counts are small)
			if b.w != a.w {
				if b.w < a.w {
					b = sym{sBV, a.w, fmt.Sprintf("((_ zero_extend %d) %s)", a.w-b.w, b.t)}
				} else {
					b = sym{sBV, a.w, fmt.Sprintf("((_ extract %d 0) %s)", a.w-1, b.t)}
				}
			}
		}
		if a.w != b.w {
			panic(unsupported(fmt.Sprintf("symBinop width mismatch %d vs %d (%s)", a.w, b.w, op)))
		}
		cmp := ""
		switch op {
		case token.LSS:
			cmp = pick(signed, "bvslt", "bvult")
		case token.LEQ:
			cmp = pick(signed, "bvsle", "bvule")
		case token.GTR:
			cmp = pick(signed, "bvsgt", "bvugt")
		case token.GEQ:
			cmp = pick(signed, "bvsge", "bvuge")
		case token.EQL:
			return symEq(a, b)
		case token.NEQ:
			return symNot(symEq(a, b))
		}
		if cmp != "" {
			return mkBool("(" + cmp + " " + a.t + " " + b.t + ")")
		}
		ar := ""
		switch op {
		case token.ADD:
			ar = "bvadd"
		case token.SUB:
			ar = "bvsub"
		case token.MUL:
			ar = "bvmul"
		case token.QUO:
			ar = pick(signed, "bvsdiv", "bvudiv")
		case token.REM:
			ar = pick(signed, "bvsrem", "bvurem")
		case token.AND:
			ar = "bvand"
		case token.OR:
			ar = "bvor"
		case token.XOR:
			ar = "bvxor"
		case token.SHL:
			ar = "bvshl"
		case token.SHR:
			ar = pick(signed, "bvashr", "bvlshr")
		case token.AND_NOT:
			return sym{sBV, a.w, "(bvand " + a.t + " (bvnot " + b.t + "))"}
		}
		if ar != "" {
			return sym{sBV, a.w, "(" + ar + " " + a.t + " " + b.t + ")"}
		}
	}
	panic(unsupported(fmt.Sprintf("symBinop %v on %v", op, a.k)))
}

func pick(c bool, a, b string) string {
	if c {
		return a
	}
	return b
}

func strBinop(op token.Token, a, b sym) value {
	if a.k != sStr || b.k != sStr {
		panic(unsupported("strBinop: non-string operand"))
	}
	switch op {
	case token.EQL:
		return symEq(a, b)
	case token.NEQ:
		return symNot(symEq(a, b))
	}
	panic(unsupported(fmt.Sprintf("operator %v on a symbolic string", op)))
}

func symUnop(op token.Token, x sym) value {
	if (x.k == sReal || x.k == sInt) && op == token.SUB {
		return sym{x.k, 0, "(- " + x.t + ")"}
	}
	switch op {
	case token.NOT:
		return symNot(x)
	case token.SUB:
		if x.k == sF64 {
			return sym{sF64, 0, "(fp.neg " + x.t + ")"}
		}
		if x.k == sBV {
			return sym{sBV, x.w, "(bvneg " + x.t + ")"}
		}
	case token.XOR:
		if x.k == sBV {
			return sym{sBV, x.w, "(bvnot " + x.t + ")"}
		}
	}
	panic(unsupported(fmt.Sprintf("symUnop %v on %v", op, x.k)))
}

// symConv implements Go conversions of symbolic scalars.
func symConv(tDst, tSrc types.Type, x sym) value {
	dk, dw, dsigned, ok := symSortOf(tDst)
	if !ok {
		panic(unsupported(fmt.Sprintf("symConv to %v", tDst)))
	}
	_, _, ssigned, _ := symSortOf(tSrc)
	switch x.k {
	case sBool:
		if dk == sBool {
			return x
		}
	case sStr:
		if dk == sStr {
			return x
		}
	case sBV:
		switch dk {
		case sBV:
			switch {
			case dw == x.w:
				return sym{sBV, dw, x.t}
			case dw < x.w:
				return sym{sBV, dw, fmt.Sprintf("((_ extract %d 0) %s)", dw-1, x.t)}
			case ssigned:
				return sym{sBV, dw, fmt.Sprintf("((_ sign_extend %d) %s)", dw-x.w, x.t)}
			default:
				return sym{sBV, dw, fmt.Sprintf("((_ zero_extend %d) %s)", dw-x.w, x.t)}
			}
		case sF64:
			if ssigned {
				return sym{sF64, 0, "((_ to_fp 11 53) RNE " + x.t + ")"}
			}
			return sym{sF64, 0, "((_ to_fp_unsigned 11 53) RNE " + x.t + ")"}
		}
	case sReal:
		if dk == sF64 {
			return x
		}
		if dk == sBV {
			// truncation toward zero; the result is a mathematical integer (sInt)
			return sym{sInt, 0, realToIntTrunc(x.t)}
		}
	case sInt:
		if dk == sBV {
			return x // value-preserving: range obligations are generated where it matters
		}
		if dk == sF64 {
			return sym{sReal, 0, "(* " + gridScale().String() + " " + x.t + ")"}
		}
	case sF64:
		switch dk {
		case sF64:
			return x
		case sBV:
			if dsigned && dw == 64 {
				// amd64 semantics (CVTTSD2SI): out-of-range and NaN give the "integer
				// indefinite" value 0x8000000000000000.  The Go spec leaves the result
				// implementation-defined; the binaries replayed here run on amd64.
				// Peephole (value-preserving): int64(math.Ceil(t)) / int64(math.Floor(t)) convert
				// with the directed rounding mode straight from t.  Near +-2^63 every float64
				// is integral, so the in-range conditions of t and of its ceiling/floor agree.
				arg, mode := x.t, "RTZ"
				for _, pm := range [][2]string{{"(fp.roundToIntegral RTP ", "RTP"}, {"(fp.roundToIntegral RTN ", "RTN"}} {
					if strings.HasPrefix(x.t, pm[0]) && balanced(x.t) {
						arg, mode = x.t[len(pm[0]):len(x.t)-1], pm[1]
					}
				}
				inRange := "(and (fp.lt " + arg + " " + f64Lit(9223372036854775808.0) + ") (fp.geq " + arg + " " + f64Lit(-9223372036854775808.0) + "))"
				return sym{sBV, 64, "(ite " + inRange + " ((_ fp.to_sbv 64) " + mode + " " + arg + ") #x8000000000000000)"}
			}
			if dsigned {
				// narrower signed: convert through int64 then truncate (what gc emits).
				w := symConv(types.Typ[types.Int64], tSrc, x).(sym)
				return sym{sBV, dw, fmt.Sprintf("((_ extract %d 0) %s)", dw-1, w.t)}
			}
		}
	}
	panic(unsupported(fmt.Sprintf("symConv %v -> %v", tSrc, tDst)))
}

// unsupportedErr marks an engine limitation (never a verdict about the code under test).
type unsupportedErr struct{ msg string }

func (u unsupportedErr) Error() string { return "UNSUPPORTED: " + u.msg }

func unsupported(msg string) unsupportedErr { return unsupportedErr{msg} }

// infeasibleErr aborts a path whose condition became unsatisfiable (assume false).
type infeasibleErr struct{}

// boundErr aborts a path that exceeded an exploration bound.
type boundErr struct{ msg string }

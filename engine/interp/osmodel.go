package interp

// A small model of the operating system for the CLI units (main.go's Run closure, the real
// loaders and parser): a virtual file system with concrete file contents declared by the
// harness (zzvrt.VFileData), files created and written by the program, the three standard
// streams, process exit.  Every effect is also recorded as an event.

import (
	"fmt"
	"go/ast"
	"go/parser"
	"go/token"
	"go/types"
	"path/filepath"
	"runtime"
	"sort"
	"strconv"
	"strings"
)

type vfsFile struct {
	name    string
	data    []byte // content (input files; accumulated writes of output files)
	write   bool
	closed  bool
	stdName string
}

type osState struct {
	files   map[string][]byte // declared input files
	written map[string][]byte // files created by the program
	dirs    map[string]bool
	stdout  []byte
	stderr  []byte
	handles map[*value]*vfsFile
}

func (i *interpreter) os() *osState {
	if i.osst == nil {
		i.osst = &osState{files: map[string][]byte{}, written: map[string][]byte{}, dirs: map[string]bool{}, handles: map[*value]*vfsFile{}}
	}
	return i.osst
}

func (i *interpreter) osFileType() types.Type {
	p := i.prog.ImportedPackage("os")
	if p == nil {
		panic(unsupported("package os is not loaded"))
	}
	return types.NewPointer(p.Type("File").Type())
}

func (i *interpreter) newHandle(f *vfsFile) value {
	var cell value = structure{"vfs:" + f.name}
	p := &cell
	i.os().handles[p] = f
	return p
}

func (i *interpreter) handleOf(v value) *vfsFile {
	p, _ := v.(*value)
	if p == nil {
		return nil
	}
	if f, ok := i.os().handles[p]; ok {
		return f
	}
	switch v {
	case i.m.stdoutPtr(i):
		return &vfsFile{name: "stdout", stdName: "stdout", write: true}
	case i.m.stderrPtr(i):
		return &vfsFile{name: "stderr", stdName: "stderr", write: true}
	}
	return nil
}

func (i *interpreter) pathError(op, name, msg string) value {
	return i.mkError(op + " " + name + ": " + msg)
}

func init() {
	reg := func(name string, f natfn) { natives[zz(name)] = f }
	reg("StringConsts", func(fr *frame, a []value) value {
		src, ok := a[0].(string)
		if !ok {
			panic(unsupported("StringConsts on symbolic text"))
		}
	fset := token.NewFileSet()
	f, err := parser.ParseFile(fset, "src.go", src, parser.SkipObjectResolution)
	if err != nil {
		return []value(nil)
	}
	var out []string
	for _, d := range f.Decls {
		gd, ok := d.(*ast.GenDecl)
		if !ok || gd.Tok != token.CONST {
			continue
		}
		for _, sp := range gd.Specs {
			vs, ok := sp.(*ast.ValueSpec)
			if !ok || len(vs.Names) != 1 || len(vs.Values) != 1 {
				continue
			}
			typ := ""
			if id, ok := vs.Type.(*ast.Ident); ok {
				typ = id.Name
			}
			lit, ok := vs.Values[0].(*ast.BasicLit)
			if !ok || lit.Kind != token.STRING {
				continue
			}
			val, err := strconv.Unquote(lit.Value)
			if err != nil {
				continue
			}
			out = append(out, vs.Names[0].Name+"|"+typ+"|"+val)
		}
	}
	sort.Strings(out)
		res := make([]value, len(out))
		for k, n := range out {
			res[k] = n
		}
		return res
	})
	reg("MethodTypes", func(fr *frame, a []value) value {
		src, ok := a[0].(string)
		if !ok {
			panic(unsupported("MethodTypes on symbolic text"))
		}
		fset := token.NewFileSet()
		f, err := parser.ParseFile(fset, "src.go", src, parser.SkipObjectResolution)
		if err != nil {
			return []value(nil)
		}
		seen := map[string]bool{}
		var names []string
		for _, d := range f.Decls {
			fd, ok := d.(*ast.FuncDecl)
			if !ok || fd.Recv == nil || fd.Name.Name != a[1].(string) || len(fd.Recv.List) != 1 {
				continue
			}
			t := fd.Recv.List[0].Type
			if st, ok := t.(*ast.StarExpr); ok {
				t = st.X
			}
			if id, ok := t.(*ast.Ident); ok && !seen[id.Name] {
				seen[id.Name] = true
				names = append(names, id.Name)
			}
		}
		sort.Strings(names)
		out := make([]value, len(names))
		for k, n := range names {
			out[k] = n
		}
		return out
	})
	reg("VFileData", func(fr *frame, a []value) value {
		name := filepath.Clean(a[0].(string))
		data, ok := a[1].(string)
		if !ok {
			panic(unsupported("VFileData with symbolic content"))
		}
		fr.i.x.declared["vfile:"+name] = true
		fr.i.os().files[name] = []byte(data)
		return nil
	})
	reg("CatchExit", func(fr *frame, a []value) value {
		code := -1
		func() {
			defer func() {
				if p := recover(); p != nil {
					if e, ok := p.(exitPanic); ok {
						code = int(e)
						return
					}
					if e, ok := p.(targetPanic); ok {
						// an unrecovered panic of the program: the Go runtime prints it with the
						// goroutine dump on stderr and exits with status 2
						msg := "panic: " + fr.i.panicText(e.v) + "\n\ngoroutine 1 [running]:\n"
						fr.i.os().stderr = append(fr.i.os().stderr, msg...)
						fr.i.event("write:stderr", msg)
						fr.i.panicStack = nil
						code = 2
						return
					}
					if e, ok := p.(runtime.Error); ok && !strings.Contains(e.Error(), "interp.") {
						msg := "panic: " + e.Error() + "\n\ngoroutine 1 [running]:\n"
						fr.i.os().stderr = append(fr.i.os().stderr, msg...)
						fr.i.panicStack = nil
						code = 2
						return
					}
					panic(p)
				}
			}()
			call(fr.i, fr, 0, a[0], nil)
		}()
		return code
	})
	// Outcome: the observable result of the run so far, in a canonical form that does not
	// depend on the order in which different files were written.
	reg("Outcome", func(fr *frame, a []value) value {
		st := fr.i.os()
		var sb strings.Builder
		fmt.Fprintf(&sb, "stdout:\n%s\n--\nstderr:\n%s\n--\n", st.stdout, st.stderr)
		var names []string
		for n := range st.written {
			names = append(names, n)
		}
		sort.Strings(names)
		for _, n := range names {
			fmt.Fprintf(&sb, "file %s:\n%s\n--\n", n, st.written[n])
		}
		return sb.String()
	})
	reg("Stdout", func(fr *frame, a []value) value { return string(fr.i.os().stdout) })
	reg("Stderr", func(fr *frame, a []value) value { return string(fr.i.os().stderr) })
	reg("WrittenFiles", func(fr *frame, a []value) value {
		var names []string
		for n := range fr.i.os().written {
			names = append(names, n)
		}
		sort.Strings(names)
		out := make([]value, len(names))
		for k, n := range names {
			out[k] = n
		}
		return out
	})
	reg("WrittenFile", func(fr *frame, a []value) value {
		return string(fr.i.os().written[filepath.Clean(a[0].(string))])
	})

	natives["os.Open"] = func(fr *frame, a []value) value {
		name := a[0].(string)
		data, ok := fr.i.os().files[filepath.Clean(name)]
		if !ok {
			return tuple{zero(fr.i.osFileType()), fr.i.pathError("open", name, "no such file or directory")}
		}
		fr.i.event("open", name)
		return tuple{fr.i.newHandle(&vfsFile{name: name, data: data}), iface{}}
	}
	natives["os.ReadFile"] = func(fr *frame, a []value) value {
		name := a[0].(string)
		data, ok := fr.i.os().files[filepath.Clean(name)]
		if !ok {
			return tuple{[]value(nil), fr.i.pathError("open", name, "no such file or directory")}
		}
		return tuple{bytesVal(data), iface{}}
	}
	natives["os.OpenFile"] = func(fr *frame, a []value) value {
		name := filepath.Clean(a[0].(string))
		fr.i.event("create", name)
		fr.i.os().written[name] = []byte{}
		return tuple{fr.i.newHandle(&vfsFile{name: name, write: true}), iface{}}
	}
	natives["os.MkdirAll"] = func(fr *frame, a []value) value {
		fr.i.event("mkdir", a[0].(string))
		fr.i.os().dirs[filepath.Clean(a[0].(string))] = true
		return iface{}
	}
	natives["(*os.File).Close"] = func(fr *frame, a []value) value {
		if f := fr.i.handleOf(a[0]); f != nil {
			f.closed = true
			return iface{}
		}
		return fr.i.mkError("invalid argument")
	}
	natives["(*os.File).Write"] = func(fr *frame, a []value) value {
		f := fr.i.handleOf(a[0])
		if f == nil || !f.write {
			return tuple{0, fr.i.mkError("write: bad file descriptor")}
		}
		b, ok := concreteBytes(a[1])
		if !ok {
			panic(unsupported("write of symbolic bytes to a file"))
		}
		st := fr.i.os()
		switch f.stdName {
		case "stdout":
			st.stdout = append(st.stdout, b...)
			fr.i.event("write:stdout", string(b))
		case "stderr":
			st.stderr = append(st.stderr, b...)
			fr.i.event("write:stderr", string(b))
		default:
			st.written[f.name] = append(st.written[f.name], b...)
			fr.i.event("write:"+f.name, string(b))
		}
		return tuple{len(b), iface{}}
	}

	// encoding/json.NewDecoder(r).Decode(&v) for readers that are virtual files
	natives["encoding/json.NewDecoder"] = func(fr *frame, a []value) value {
		r := a[0].(iface)
		f := fr.i.handleOf(r.v)
		if f == nil {
			panic(unsupported("json.NewDecoder on a reader that is not a virtual file: " + typeString(r.t)))
		}
		var cell value = structure{f}
		return &cell
	}
	natives["(*encoding/json.Decoder).Decode"] = func(fr *frame, a []value) value {
		p, _ := a[0].(*value)
		if p == nil {
			panic(unsupported("Decode on a nil decoder"))
		}
		f, _ := (*p).(structure)[0].(*vfsFile)
		if f == nil {
			panic(unsupported("Decode on an unknown decoder"))
		}
		if f.data == nil {
			return fr.i.mkError("EOF")
		}
		data := f.data
		f.data = nil // one value per file (trailing data is not looked at by Decode either)
		return fr.i.jsonUnmarshalConcrete(fr, data, a[1].(iface))
	}
}

package interp

// Byte strings with symbolic bytes, symbolic calendar times, and run-time number formatting:
// the vocabulary of the pkg/types kernels (C02: "date/time wrapper types parse and print the
// same text").
//
// A bstr is a string of CONCRETE length whose bytes are uint8 values or symbolic integers in
// 0..255 (exact-grid Ints: the kernels run in the exact-grid mode so that digit arithmetic is
// linear integer arithmetic with constant divisors).  It supports what the wrappers do with
// text: string([]byte) / []byte(string), ==, +, len, indexing, slicing with concrete bounds,
// strings.HasPrefix/HasSuffix with a concrete affix.
//
// A symbolic time is a time.Time whose first field holds a symTime: year, month, day, hour,
// minute, second, nanosecond as Int terms.  time.Parse and (Time).Format are modelled for the
// two layouts the repository uses, time.DateOnly and time.TimeOnly, from the documented
// behaviour of package time (4-digit year, 2-digit zero-padded fields, day-of-month and
// leap-year validation; when parsing, a fractional second may follow the seconds field even
// though the layout has none).  The model is validated by the native twins and replays of the
// units that use it, which run the real package time.

import (
	"fmt"
	"go/types"
	"strings"
	"time"
)

type bstr []value

func isBstr(v value) bool { _, ok := v.(bstr); return ok }

func toBstr(v value) (bstr, bool) {
	switch x := v.(type) {
	case bstr:
		return x, true
	case string:
		out := make(bstr, len(x))
		for k := 0; k < len(x); k++ {
			out[k] = x[k]
		}
		return out, true
	}
	return nil, false
}

func bstrHasSym(xs []value) bool {
	for _, b := range xs {
		if isSym(b) {
			return true
		}
	}
	return false
}

// normBstr returns a Go string when no byte is symbolic.
func normBstr(b bstr) value {
	if bstrHasSym(b) {
		return b
	}
	var sb strings.Builder
	for _, x := range b {
		sb.WriteByte(x.(byte))
	}
	return sb.String()
}

func bstrConcat(a, b value) value {
	x, ok1 := toBstr(a)
	y, ok2 := toBstr(b)
	if !ok1 || !ok2 {
		panic(unsupported("concatenation of a byte string with a symbolic string atom"))
	}
	return normBstr(append(append(bstr{}, x...), y...))
}

func byteTerm(v value) sym {
	switch x := v.(type) {
	case sym:
		return x
	case byte:
		return sym{sInt, 0, fmt.Sprint(int(x))}
	}
	panic(unsupported(fmt.Sprintf("byte of type %T", v)))
}

func byteEq(a, b value) sym {
	if x, ok := a.(byte); ok {
		if y, ok := b.(byte); ok {
			if x == y {
				return mkBool("true")
			}
			return mkBool("false")
		}
	}
	return symEq(toInt(byteTerm(a), false), toInt(byteTerm(b), false))
}

func bstrEq(a, b value) sym {
	x, ok1 := toBstr(a)
	y, ok2 := toBstr(b)
	if !ok1 || !ok2 {
		panic(unsupported("comparison of a byte string with a symbolic string atom"))
	}
	if len(x) != len(y) {
		return mkBool("false")
	}
	res := mkBool("true")
	for k := range x {
		res = symAnd(res, byteEq(x[k], y[k]))
		if res.t == "false" {
			break
		}
	}
	return res
}

func bstrHasPrefix(s, p value) value {
	x, _ := toBstr(s)
	y, _ := toBstr(p)
	if len(y) > len(x) {
		return false
	}
	return simplifyBool(bstrEq(x[:len(y)], y))
}

func bstrHasSuffix(s, p value) value {
	x, _ := toBstr(s)
	y, _ := toBstr(p)
	if len(y) > len(x) {
		return false
	}
	return simplifyBool(bstrEq(x[len(x)-len(y):], y))
}

// readable renders a byte string for messages (symbolic bytes as '?').
func (b bstr) readable() string {
	var sb strings.Builder
	for _, x := range b {
		if c, ok := x.(byte); ok {
			sb.WriteByte(c)
		} else {
			sb.WriteByte('?')
		}
	}
	return sb.String()
}

// ---- symbolic times ----

type symTime struct {
	y, mo, d, h, mi, s, ns sym
}

func intLitSym(n int64) sym { return sym{sInt, 0, intLit64(n)} }

func intLit64(n int64) string {
	if n < 0 {
		return fmt.Sprintf("(- %d)", -n)
	}
	return fmt.Sprint(n)
}

func timeOf(v value) (symTime, bool) {
	st, ok := v.(structure)
	if !ok || len(st) == 0 {
		return symTime{}, false
	}
	t, ok := st[0].(symTime)
	if !ok {
		// the zero time.Time (what time.Parse returns next to an error)
		if w, isU := st[0].(uint64); isU && w == 0 {
			if e, isI := st[1].(int64); isI && e == 0 {
				return concreteTime(time.Time{}), true
			}
		}
	}
	return t, ok
}

func (i *interpreter) timeType() types.Type {
	p := i.prog.ImportedPackage("time")
	if p == nil {
		panic(unsupported("package time is not loaded"))
	}
	return p.Type("Time").Type()
}

func (i *interpreter) mkTime(t symTime) value {
	st := zero(i.timeType()).(structure)
	st[0] = t
	return st
}

func concreteTime(t time.Time) symTime {
	return symTime{intLitSym(int64(t.Year())), intLitSym(int64(t.Month())), intLitSym(int64(t.Day())),
		intLitSym(int64(t.Hour())), intLitSym(int64(t.Minute())), intLitSym(int64(t.Second())), intLitSym(int64(t.Nanosecond()))}
}

// daysIn: days of month mo in year y (Int terms).
func daysIn(y, mo string) string {
	leap := "(or (and (= (mod " + y + " 4) 0) (not (= (mod " + y + " 100) 0))) (= (mod " + y + " 400) 0))"
	return "(ite (or (= " + mo + " 4) (= " + mo + " 6) (= " + mo + " 9) (= " + mo + " 11)) 30 (ite (= " + mo + " 2) (ite " + leap + " 29 28) 31))"
}

// digit k (from the right, 0 = units) of the non-negative Int term n, as a byte term.
func digitByte(n string, k int) sym {
	p := int64(1)
	for j := 0; j < k; j++ {
		p *= 10
	}
	return sym{sInt, 0, fmt.Sprintf("(+ 48 (mod (div %s %d) 10))", n, p)}
}

func litInt(s sym) (int64, bool) {
	if strings.ContainsAny(s.t, "( ") {
		return 0, false
	}
	var v int64
	if _, err := fmt.Sscanf(s.t, "%d", &v); err == nil {
		return v, true
	}
	return 0, false
}

func padDigits(n sym, width int) bstr {
	out := make(bstr, width)
	if v, ok := litInt(n); ok && v >= 0 {
		for k := width - 1; k >= 0; k-- {
			out[k] = byte('0' + v%10)
			v /= 10
		}
		return out
	}
	for k := 0; k < width; k++ {
		out[k] = digitByte(n.t, width-1-k)
	}
	return out
}

func (t symTime) format(layout string) bstr {
	switch layout {
	case time.DateOnly:
		out := padDigits(t.y, 4)
		out = append(out, byte('-'))
		out = append(out, padDigits(t.mo, 2)...)
		out = append(out, byte('-'))
		return append(out, padDigits(t.d, 2)...)
	case time.TimeOnly:
		out := padDigits(t.h, 2)
		out = append(out, byte(':'))
		out = append(out, padDigits(t.mi, 2)...)
		out = append(out, byte(':'))
		return append(out, padDigits(t.s, 2)...)
	}
	panic(unsupported("time layout " + layout + " on a symbolic time (only DateOnly and TimeOnly are modelled)"))
}

// isDigit: the byte term is an ASCII digit.
func isDigitTerm(b sym) string { return "(and (<= 48 " + b.t + ") (<= " + b.t + " 57))" }

func numOf(bs []sym) string {
	n := "0"
	for _, b := range bs {
		n = "(+ (* 10 " + n + ") (- " + b.t + " 48))"
	}
	return n
}

// parseTime models time.Parse(layout, s) for DateOnly / TimeOnly on a byte string: it returns
// the condition under which parsing succeeds and the time it then yields.
func (i *interpreter) parseTime(layout string, s bstr) (sym, symTime) {
	bt := make([]sym, len(s))
	for k, b := range s {
		bt[k] = toInt(byteTerm(b), false)
	}
	is := func(k int, c byte) string { return fmt.Sprintf("(= %s %d)", bt[k].t, c) }
	zero := intLitSym(0)
	switch layout {
	case time.DateOnly:
		if len(s) != 10 {
			return mkBool("false"), symTime{}
		}
		var conds []string
		for _, k := range []int{0, 1, 2, 3, 5, 6, 8, 9} {
			conds = append(conds, isDigitTerm(bt[k]))
		}
		conds = append(conds, is(4, '-'), is(7, '-'))
		y, mo, d := numOf(bt[0:4]), numOf(bt[5:7]), numOf(bt[8:10])
		conds = append(conds, "(<= 1 "+mo+")", "(<= "+mo+" 12)", "(<= 1 "+d+")", "(<= "+d+" "+daysIn(y, mo)+")")
		return mkBool("(and " + strings.Join(conds, " ") + ")"),
			symTime{sym{sInt, 0, y}, sym{sInt, 0, mo}, sym{sInt, 0, d}, zero, zero, zero, zero}
	case time.TimeOnly:
		// hh:mm:ss, optionally followed by '.' or ',' and one or more digits
		if len(s) < 8 || len(s) == 9 {
			return mkBool("false"), symTime{}
		}
		var conds []string
		for _, k := range []int{0, 1, 3, 4, 6, 7} {
			conds = append(conds, isDigitTerm(bt[k]))
		}
		conds = append(conds, is(2, ':'), is(5, ':'))
		h, mi, sec := numOf(bt[0:2]), numOf(bt[3:5]), numOf(bt[6:8])
		conds = append(conds, "(<= "+h+" 23)", "(<= "+mi+" 59)", "(<= "+sec+" 59)")
		ns := "0"
		if len(s) > 8 {
			conds = append(conds, "(or "+is(8, '.')+" "+is(8, ',')+")")
			for k := 9; k < len(s); k++ {
				conds = append(conds, isDigitTerm(bt[k]))
			}
			// nanoseconds: the first nine fraction digits
			frac := bt[9:]
			if len(frac) > 9 {
				frac = frac[:9]
			}
			ns = numOf(frac)
			for k := len(frac); k < 9; k++ {
				ns = "(* 10 " + ns + ")"
			}
		}
		one := intLitSym(1)
		return mkBool("(and " + strings.Join(conds, " ") + ")"),
			symTime{zero, one, one, sym{sInt, 0, h}, sym{sInt, 0, mi}, sym{sInt, 0, sec}, sym{sInt, 0, ns}}
	}
	// any other layout: an OVER-APPROXIMATION of the documented contract -- parsing succeeds or
	// fails (a free boolean), and a success yields some valid time.  Whatever a check concludes
	// from it is decided by the native replay on the concrete bytes of the model (a verdict that
	// rests on this approximation and does not reproduce is reported as spurious, never as a
	// violation).
	x := i.x
	x.nParse++
	okv := x.named(fmt.Sprintf("timeparse!%d.ok", x.nParse), sBool, 0)
	fresh := func(what string, lo, hi int64) sym {
		v := x.freshInt(fmt.Sprintf("timeparse!%d.%s", x.nParse, what), 62)
		x.PC = append(x.PC, fmt.Sprintf("(<= %d %s)", lo, v.t), fmt.Sprintf("(<= %s %d)", v.t, hi))
		return v
	}
	y, mo, d := fresh("year", 0, 9999), fresh("month", 1, 12), fresh("day", 1, 31)
	x.PC = append(x.PC, "(<= "+d.t+" "+daysIn(y.t, mo.t)+")")
	return okv, symTime{y, mo, d, fresh("hour", 0, 23), fresh("minute", 0, 59), fresh("second", 0, 59), fresh("nano", 0, 999999999)}
}

func sameTime(a, b symTime) sym {
	res := mkBool("true")
	for _, p := range [][2]sym{{a.y, b.y}, {a.mo, b.mo}, {a.d, b.d}, {a.h, b.h}, {a.mi, b.mi}, {a.s, b.s}, {a.ns, b.ns}} {
		res = symAnd(res, symEq(p[0], p[1]))
	}
	return res
}

// ---- run-time formatting of symbolic integers (only under the RUNTIMEFMT parameter) ----

func (i *interpreter) runtimeFmt() bool { return i.x != nil && i.x.params["RUNTIMEFMT"] == 1 }

// sprintfRuntime handles literal text, %s/%v of (byte) strings, and %d / %0Nd of integers, the
// digits of a symbolic non-negative integer below 10^6 being found by forking on its magnitude.
func (i *interpreter) sprintfRuntime(fr *frame, format string, args []value) value {
	var out bstr
	argi := 0
	for p := 0; p < len(format); p++ {
		c := format[p]
		if c != '%' {
			out = append(out, c)
			continue
		}
		q := p + 1
		for q < len(format) && strings.ContainsRune("0123456789", rune(format[q])) {
			q++
		}
		if q >= len(format) {
			panic(unsupported("format string " + format))
		}
		verb, flags := format[q], format[p+1:q]
		p = q
		if verb == '%' {
			out = append(out, '%')
			continue
		}
		if argi >= len(args) {
			panic(unsupported("format string with missing operands at run time: " + format))
		}
		a := args[argi]
		argi++
		if it, ok := a.(iface); ok {
			a = it.v
		}
		switch verb {
		case 's', 'v', 'd':
		default:
			panic(unsupported("run-time format verb %" + string(verb)))
		}
		if b, ok := toBstr(a); ok && verb != 'd' {
			out = append(out, b...)
			continue
		}
		width, zeroPad := 0, strings.HasPrefix(flags, "0")
		fmt.Sscanf(strings.TrimPrefix(flags, "0"), "%d", &width)
		if n, ok := tryInt64(a); ok {
			spec := "%" + flags + "d"
			for _, ch := range []byte(fmt.Sprintf(spec, n)) {
				out = append(out, ch)
			}
			continue
		}
		s, ok := a.(sym)
		if !ok || s.k != sInt {
			panic(unsupported(fmt.Sprintf("run-time formatting of %T", a)))
		}
		if i.x.decide(mkBool("(< " + s.t + " 0)")) {
			panic(unsupported("run-time formatting of a negative symbolic integer"))
		}
		nd := 1
		for lim := int64(10); nd < 7; nd, lim = nd+1, lim*10 {
			if i.x.decide(mkBool(fmt.Sprintf("(< %s %d)", s.t, lim))) {
				break
			}
		}
		if nd >= 7 {
			panic(boundErr{"run-time formatting of a symbolic integer >= 10^6"})
		}
		digits := padDigits(s, nd)
		for k := nd; k < width; k++ {
			if zeroPad {
				out = append(out, byte('0'))
			} else {
				out = append(out, byte(' '))
			}
		}
		out = append(out, digits...)
	}
	return normBstr(out)
}

func init() {
	reg := func(name string, f natfn) { natives[zz(name)] = f }
	freshByteInt := func(x *Explorer, prefix string, lo, hi int64) sym {
		s := x.freshInt(prefix, 62)
		x.PC = append(x.PC, fmt.Sprintf("(<= %d %s)", lo, s.t), fmt.Sprintf("(<= %s %d)", s.t, hi))
		return s
	}
	// SymBytes(n): n symbolic bytes
	reg("SymBytes", func(fr *frame, a []value) value {
		n := a[0].(int)
		out := make([]value, n)
		var terms []string
		for k := range out {
			s := freshByteInt(fr.i.x, "byte", 0, 255)
			out[k] = s
			terms = append(terms, s.t)
		}
		fr.i.x.res.Draws = append(fr.i.x.res.Draws, Draw{Kind: "bytes", N: n, Term: strings.Join(terms, ",")})
		return out
	})
	// SymDate(): a valid calendar date, years 0..9999, at midnight UTC
	reg("SymDate", func(fr *frame, a []value) value {
		x := fr.i.x
		y, mo := freshByteInt(x, "year", 0, 9999), freshByteInt(x, "month", 1, 12)
		d := freshByteInt(x, "day", 1, 31)
		x.PC = append(x.PC, "(<= "+d.t+" "+daysIn(y.t, mo.t)+")")
		x.res.Draws = append(x.res.Draws, Draw{Kind: "date", Term: y.t + "," + mo.t + "," + d.t})
		z := intLitSym(0)
		return fr.i.mkTime(symTime{y, mo, d, z, z, z, z})
	})
	// SymClock(): a time of day on 0000-01-01 UTC (what parsing TimeOnly yields), whole seconds
	reg("SymClock", func(fr *frame, a []value) value {
		x := fr.i.x
		h, mi, s := freshByteInt(x, "hour", 0, 23), freshByteInt(x, "minute", 0, 59), freshByteInt(x, "second", 0, 59)
		x.res.Draws = append(x.res.Draws, Draw{Kind: "clock", Term: h.t + "," + mi.t + "," + s.t})
		return fr.i.mkTime(symTime{intLitSym(0), intLitSym(1), intLitSym(1), h, mi, s, intLitSym(0)})
	})
	reg("SameInstant", func(fr *frame, a []value) value {
		x, ok1 := timeOf(a[0])
		y, ok2 := timeOf(a[1])
		if !ok1 || !ok2 {
			panic(unsupported("SameInstant on a time that is not symbolic"))
		}
		return simplifyBool(sameTime(x, y))
	})
	reg("BytesEq", func(fr *frame, a []value) value {
		x, _ := a[0].([]value)
		y, _ := a[1].([]value)
		return simplifyBool(bstrEq(bstr(x), bstr(y)))
	})

	natives["time.Parse"] = func(fr *frame, a []value) value {
		layout, ok := a[0].(string)
		if !ok {
			panic(unsupported("time.Parse with a symbolic layout"))
		}
		s, ok := toBstr(a[1])
		if !ok {
			panic(unsupported("time.Parse of a symbolic string atom"))
		}
		if !bstrHasSym(s) {
			t, err := time.Parse(layout, s.readable())
			if err != nil {
				return tuple{zero(fr.i.timeType()), fr.i.mkError(err.Error())}
			}
			return tuple{fr.i.mkTime(concreteTime(t)), iface{}}
		}
		okc, t := fr.i.parseTime(layout, s)
		if fr.i.x.decide(okc) {
			return tuple{fr.i.mkTime(t), iface{}}
		}
		return tuple{zero(fr.i.timeType()), fr.i.mkError("parsing time \"" + s.readable() + "\" as \"" + layout + "\": cannot parse")}
	}
	natives["(time.Time).Format"] = func(fr *frame, a []value) value {
		t, ok := timeOf(a[0])
		if !ok {
			panic(unsupported("(time.Time).Format on a time that is not symbolic"))
		}
		return normBstr(t.format(a[1].(string)))
	}
	natives["(time.Time).Date"] = func(fr *frame, a []value) value {
		t, ok := timeOf(a[0])
		if !ok {
			panic(unsupported("(time.Time).Date on a time that is not symbolic"))
		}
		return tuple{simplifyIntSym(t.y), simplifyIntSym(t.mo), simplifyIntSym(t.d)}
	}
	natives["(time.Time).Clock"] = func(fr *frame, a []value) value {
		t, ok := timeOf(a[0])
		if !ok {
			panic(unsupported("(time.Time).Clock on a time that is not symbolic"))
		}
		return tuple{simplifyIntSym(t.h), simplifyIntSym(t.mi), simplifyIntSym(t.s)}
	}
	for name, pick := range map[string]func(symTime) sym{
		"Year": func(t symTime) sym { return t.y }, "Month": func(t symTime) sym { return t.mo }, "Day": func(t symTime) sym { return t.d },
		"Hour": func(t symTime) sym { return t.h }, "Minute": func(t symTime) sym { return t.mi }, "Second": func(t symTime) sym { return t.s },
		"Nanosecond": func(t symTime) sym { return t.ns },
	} {
		pick := pick
		natives["(time.Time)."+name] = func(fr *frame, a []value) value {
			t, ok := timeOf(a[0])
			if !ok {
				panic(unsupported("time accessor on a time that is not symbolic"))
			}
			return simplifyIntSym(pick(t))
		}
	}
	natives["(time.Time).Equal"] = func(fr *frame, a []value) value {
		x, ok1 := timeOf(a[0])
		y, ok2 := timeOf(a[1])
		if !ok1 || !ok2 {
			panic(unsupported("(time.Time).Equal on a time that is not symbolic"))
		}
		return simplifyBool(sameTime(x, y))
	}
}

// simplifyIntSym returns a Go int for a literal Int term.
func simplifyIntSym(s sym) value {
	var v int
	if !strings.ContainsAny(s.t, "( ") {
		if _, err := fmt.Sscanf(s.t, "%d", &v); err == nil {
			return v
		}
	}
	return s
}

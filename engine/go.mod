module gosym

go 1.23.0

toolchain go1.23.5

require (
	github.com/atombender/go-jsonschema v0.0.0
	github.com/go-viper/mapstructure/v2 v2.1.0
	github.com/goccy/go-yaml v1.16.0
	github.com/mitchellh/go-wordwrap v1.0.1
	github.com/sanity-io/litter v1.5.8
	golang.org/x/tools v0.29.0
	gopkg.in/yaml.v3 v3.0.1
)

require (
	golang.org/x/mod v0.22.0 // indirect
	golang.org/x/sync v0.10.0 // indirect
)

replace github.com/atombender/go-jsonschema => /repo

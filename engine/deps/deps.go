// Package deps pins the modules that emitted code imports, so that go/packages can
// load them through this module (never through /repo/tests).
package deps

import (
	_ "github.com/atombender/go-jsonschema/pkg/types"
	_ "github.com/go-viper/mapstructure/v2"
	_ "gopkg.in/yaml.v3"
)

//go:build verif

package mathutils

import "github.com/atombender/go-jsonschema/internal/zzvrt"

func zzOptF() *float64 {
	if zzvrt.Bool() {
		f := zzvrt.Float64()
		return &f
	}
	return nil
}

func zzOptEx() *any {
	switch zzvrt.Choice(3) {
	case 0:
		return nil
	case 1:
		var a any = zzvrt.SymBool()
		return &a
	default:
		var a any = zzvrt.Float64()
		return &a
	}
}

// zzAbove is the reference model of "x satisfies the stated lower bounds":
// minimum is inclusive unless a draft-4 boolean exclusiveMinimum is true; a numeric
// exclusiveMinimum is an additional strict bound.  Intersection semantics.
func zzAbove(x float64, minimum *float64, ex *any) bool {
	ok := true
	if minimum != nil {
		strict := false
		if ex != nil {
			if b, isBool := (*ex).(bool); isBool {
				strict = b
			}
		}
		ok = zzvrt.And(ok, zzvrt.Or(x > *minimum, zzvrt.And(zzvrt.Not(strict), x == *minimum)))
	}
	if ex != nil {
		if f, isNum := (*ex).(float64); isNum {
			ok = zzvrt.And(ok, x > f)
		}
	}
	return ok
}

func zzBelow(x float64, maximum *float64, ex *any) bool {
	ok := true
	if maximum != nil {
		strict := false
		if ex != nil {
			if b, isBool := (*ex).(bool); isBool {
				strict = b
			}
		}
		ok = zzvrt.And(ok, zzvrt.Or(x < *maximum, zzvrt.And(zzvrt.Not(strict), x == *maximum)))
	}
	if ex != nil {
		if f, isNum := (*ex).(float64); isNum {
			ok = zzvrt.And(ok, x < f)
		}
	}
	return ok
}

// HarnessC05L1: NormalizeBounds denotes the intersection of all stated bounds.
func HarnessC05L1() {
	minimum, maximum := zzOptF(), zzOptF()
	exMin, exMax := zzOptEx(), zzOptEx()
	x := zzvrt.Float64()

	nMin, nMax, minEx, maxEx := NormalizeBounds(minimum, maximum, exMin, exMax)

	implLo := true
	if nMin != nil {
		implLo = zzvrt.Or(x > *nMin, zzvrt.And(zzvrt.Not(minEx), x == *nMin))
	}
	implHi := true
	if nMax != nil {
		implHi = zzvrt.Or(x < *nMax, zzvrt.And(zzvrt.Not(maxEx), x == *nMax))
	}
	if minimum != nil || exMin != nil {
		zzvrt.Cover("lower-bound-stated")
	}
	if maximum != nil || exMax != nil {
		zzvrt.Cover("upper-bound-stated")
	}
	// Deviation "tie": the implementation drops a numeric exclusive bound that equals the
	// inclusive one (the inclusive bound wins the tie).
	tieLo, tieHi := false, false
	if minimum != nil && exMin != nil {
		if f, isNum := (*exMin).(float64); isNum {
			tieLo = f == *minimum
		}
	}
	if maximum != nil && exMax != nil {
		if f, isNum := (*exMax).(float64); isNum {
			tieHi = f == *maximum
		}
	}
	zzvrt.Check("C05.L1.lower", zzvrt.Iff(implLo, zzAbove(x, minimum, exMin)),
		zzvrt.Dev{Name: "exclusive-tie-loses", Cond: zzvrt.And(tieLo, x == *orZero(minimum))})
	zzvrt.Check("C05.L1.upper", zzvrt.Iff(implHi, zzBelow(x, maximum, exMax)),
		zzvrt.Dev{Name: "exclusive-tie-loses", Cond: zzvrt.And(tieHi, x == *orZero(maximum))})
}

func orZero(p *float64) *float64 {
	if p == nil {
		z := 0.0
		return &z
	}
	return p
}

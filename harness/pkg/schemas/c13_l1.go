//go:build verif

package schemas

import (
	"encoding/json"

	"github.com/atombender/go-jsonschema/internal/zzvrt"
)

// zzSchemaDoc constrains a symbolic document to be a small schema document: the listed keys
// may be present (with type-correct values), every other key the parser knows is absent.
// (Shapes are bounded here; the VALUES -- ids, names, numbers, flags -- stay symbolic.)
func zzSchemaDoc(d int, path string, allowed map[string]int) {
	zzvrt.Assume(zzvrt.DIs(d, path, zzvrt.KObject))
	all := []string{"$schema", "$ref", "multipleOf", "maximum", "exclusiveMaximum", "minimum", "exclusiveMinimum",
		"maxLength", "minLength", "pattern", "additionalItems", "items", "maxItems", "minItems", "uniqueItems",
		"maxProperties", "minProperties", "required", "properties", "patternProperties", "additionalProperties",
		"enum", "type", "allOf", "anyOf", "oneOf", "not", "title", "description", "default", "format", "media",
		"binaryEncoding", "dependentRequired", "$defs", "dependentSchemas", "goJSONSchema",
		"dependencies", "definitions", "$id", "id"}
	for _, k := range all {
		p := k
		if path != "" {
			p = path + "/" + k
		}
		kind, ok := allowed[k]
		if !ok {
			zzvrt.Assume(zzvrt.DIs(d, p, zzvrt.KAbsent))
			continue
		}
		zzvrt.Assume(zzvrt.Or(zzvrt.DIs(d, p, zzvrt.KAbsent), zzvrt.DIs(d, p, kind)))
	}
}

// HarnessC13Keywords: the same schema document spelled with legacy and with current keywords
// (id/$id, definitions/$defs, dependencies/dependentSchemas) is pushed through the REAL
// Schema.UnmarshalJSON / Type.UnmarshalJSON / TypeList.UnmarshalJSON; the two parsed values are
// equal on every field the generator reads.
func HarnessC13Keywords() {
	d := zzvrt.NewDoc()
	zzvrt.Assume(zzvrt.Not(zzvrt.DMalformed(d)))
	zzSchemaDoc(d, "", map[string]int{"$id": zzvrt.KString, "type": zzvrt.KString,
		"minimum": zzvrt.KNumber, "$defs": zzvrt.KObject, "dependentSchemas": zzvrt.KObject, "properties": zzvrt.KObject})
	// stated bound: the root carries at least one keyword that is not being re-spelled (a root
	// consisting ONLY of "dependencies" parses to "no root" while "dependentSchemas" does not --
	// degenerate, outside the claim)
	zzvrt.Assume(zzvrt.DIs(d, "type", zzvrt.KString))
	// one definition / dependent schema / property (an extra member of the map), each a small type
	for _, m := range []string{"$defs/+0", "dependentSchemas/+0", "properties/+0"} {
		allowed := map[string]int{"type": zzvrt.KString}
		if m == "properties/+0" {
			// the property may carry a nested definitions block and a nested dependent schema
			allowed["$defs"], allowed["dependentSchemas"], allowed["maxLength"] = zzvrt.KObject, zzvrt.KObject, zzvrt.KNumber
			zzvrt.Assume(zzvrt.Or(zzvrt.DIs(d, m+"/maxLength", zzvrt.KAbsent), zzvrt.DIsInt(d, m+"/maxLength")))
		}
		zzSchemaDoc(d, m, allowed)
		if m == "properties/+0" {
			zzvrt.Assume(zzvrt.DIs(d, m+"/$defs/+0", zzvrt.KAbsent))
			zzvrt.Assume(zzvrt.DIs(d, m+"/dependentSchemas/+0", zzvrt.KAbsent))
		}
	}
	if zzvrt.Param("OPTIONAL", 0) == 0 {
		// quick tier: the blocks are present (their CONTENT stays symbolic); only $id, minimum,
		// maxLength and the nested blocks keep symbolic presence
		for _, p := range []string{"$defs", "dependentSchemas", "properties", "$defs/+0", "dependentSchemas/+0", "properties/+0",
			"$defs/+0/type", "dependentSchemas/+0/type", "properties/+0/type"} {
			zzvrt.Assume(zzvrt.Not(zzvrt.DIs(d, p, zzvrt.KAbsent)))
		}
	}
	var pairs []string
	cls := ""
	if zzvrt.Bool() {
		pairs = append(pairs, "id", "$id")
		cls += "id,"
	}
	if zzvrt.Bool() {
		pairs = append(pairs, "definitions", "$defs")
		cls += "definitions,"
	}
	if zzvrt.Bool() {
		pairs = append(pairs, "dependencies", "dependentSchemas")
		cls += "dependencies,"
	}
	if len(pairs) == 0 {
		return
	}
	legacy := zzvrt.DocAlias(d, pairs...)
	var cur, old Schema
	errCur := json.Unmarshal(zzvrt.DocBytes(d, ""), &cur)
	errOld := json.Unmarshal(zzvrt.DocBytes(legacy, ""), &old)
	zzvrt.Cover("respelled:" + cls)
	if errCur != nil {
		zzvrt.Note("current: " + errCur.Error())
	}
	if errOld != nil {
		zzvrt.Note("legacy: " + errOld.Error())
	}
	zzvrt.Note("respelled=" + cls)
	zzvrt.Check("C13.same-parse-outcome", (errCur == nil) == (errOld == nil))
	if errCur != nil || errOld != nil {
		return
	}
	// the two parsed values must coincide on every field of pkg/schemas types that code outside
	// the parser touches directly (set computed from the SSA of the current tree on every run;
	// fields only ever compared wholesale by cmp.Equal are treated as not read -- assumption)
	zzvrt.Check("C13.legacy-and-current-keywords-parse-equal", zzvrt.SameParsed(cur, old, "@generator-reads"))
}

// HarnessC13TypeSpellings: "type": "T" vs ["T"], and true vs {} as the anything-schema.
func HarnessC13TypeSpellings() {
	switch zzvrt.Choice(2) {
	case 0:
		d := zzvrt.NewDoc()
		zzvrt.Assume(zzvrt.Not(zzvrt.DMalformed(d)))
		zzvrt.Assume(zzvrt.DIs(d, "", zzvrt.KString))
		list := zzvrt.DocWrapArray(d, "")
		var a, b TypeList
		errA := a.UnmarshalJSON(zzvrt.DocBytes(d, ""))
		errB := b.UnmarshalJSON(zzvrt.DocBytes(list, ""))
		zzvrt.Cover("type-string-vs-list")
		zzvrt.Check("C13.same-parse-outcome", (errA == nil) == (errB == nil))
		if errA == nil && errB == nil {
			// an empty type name is dropped in the string form only; "" is not a JSON Schema type
			zzvrt.Assume(zzvrt.DStr(d, "") != "")
			zzvrt.Check("C13.type-string-equals-one-element-list", zzvrt.SameParsed(a, b))
		}
	default:
		t := zzvrt.NewDoc()
		zzvrt.Assume(zzvrt.Not(zzvrt.DMalformed(t)))
		zzvrt.Assume(zzvrt.And(zzvrt.DIs(t, "", zzvrt.KBool), zzvrt.DBool(t, "")))
		e := zzvrt.NewDoc()
		zzvrt.Assume(zzvrt.Not(zzvrt.DMalformed(e)))
		zzSchemaDoc(e, "", map[string]int{})
		var a, b Type
		errA := a.UnmarshalJSON(zzvrt.DocBytes(t, ""))
		errB := b.UnmarshalJSON(zzvrt.DocBytes(e, ""))
		zzvrt.Cover("true-vs-empty-object")
		zzvrt.Check("C13.same-parse-outcome", errA == nil && errB == nil)
		if errA == nil && errB == nil {
			zzvrt.Check("C13.true-equals-empty-schema", zzvrt.SameParsed(a, b))
		}
	}
}

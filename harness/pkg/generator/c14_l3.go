//go:build verif

package generator

import (
	"strings"

	"github.com/atombender/go-jsonschema/internal/zzvrt"
	"github.com/atombender/go-jsonschema/pkg/schemas"
)

// HarnessC14L3: sibling property names that collide after normalisation get distinct field
// names (the emitted struct compiles), every field's json tag carries the exact original
// name exactly once, and a distinct value per key lands in its own field (decode of a
// symbolic document, compared through the json tag binding of the decode stub).
func HarnessC14L3() {
	// families of names that normalise to related identifiers, including names that already
	// look like the suffixed form the de-duplication produces; the siblings are any K of them
	fams := [][]string{
		{"foo", "Foo", "FOO", "Foo_2", "foo_2", "foo2", "_foo", "foo_"},
		{"a-b", "a_b", "aB", "AB", "a b", "A_B_2", "a.b", "a-b-2"},
		{"id", "Id", "ID", "i_d", "Id_2", "id2", "ID_3", "_id"},
		{"x1", "x_1", "X1", "x-1", "X1_2", "X_1_2", "x1_", "1x"},
		// characters that matter to whoever formats the tag text
		{"cpu%", "mem%d", "used%s", "100%%", "a%!b", "%v", "cpu", "mem"},
		// white space inside names: single and double spaces, a tab, a no-break space
		{"first name", "first  name", "first\tname", "first\u00a0name", " first name", "first name ", "firstName", "first_name"},
		// combining marks (non-spacing and spacing) inside and at the edges of names; encoding/json
		// does not bind tags with such characters, so only names and tags are checked for these
		{"cafe\u0301", "cafe", "\u0928\u093e\u092e", "e\u0300", "x\u0301y", "cre\u0300me", "\u0301x", "caf\u00e9"},
	}
	famIdx := zzvrt.Choice(len(fams))
	fam := fams[famIdx]
	fam = fam[:zzvrt.Param("POOL", 6)]
	var names []string
	for k := 0; k < len(fam) && len(names) < zzvrt.Param("SIBLINGS", 3); k++ {
		// every K-subset, in pool order: a name is taken unless too few would remain
		need := zzvrt.Param("SIBLINGS", 3) - len(names)
		if len(fam)-k == need || zzvrt.Bool() {
			names = append(names, fam[k])
		}
	}
	if len(names) < zzvrt.Param("SIBLINGS", 3) {
		return
	}
	props := map[string]*schemas.Type{}
	for _, n := range names {
		props[n] = &schemas.Type{Type: schemas.TypeList{"integer"}}
	}
	root := &schemas.Type{Type: schemas.TypeList{"object"}, Properties: props, Required: names}
	sch := &schemas.Schema{ObjectAsType: (*schemas.ObjectAsType)(root), ID: "https://example.com/root"}
	cfg := Config{DefaultPackageName: "example.com/gen", DefaultOutputName: "root.go", Warner: func(string) {},
		Tags: []string{"json", "yaml", "mapstructure"}}
	if zzvrt.Bool() {
		cfg.Capitalizations = []string{"ID"}
	}
	g, err := New(cfg)
	if err != nil {
		zzvrt.Unreachable("New failed")
	}
	explicit := ""
	if zzvrt.Param("EXTID", 0) == 1 && zzvrt.Bool() {
		// one sibling names its Go field itself (the goJSONSchema.identifier extension) -- with the
		// very name another sibling's key normalises to: the two must still get distinct fields
		k := zzvrt.Choice(len(names))
		id := g.caser.Identifierize(names[(k+1)%len(names)])
		props[names[k]].GoJSONSchemaExtension = &schemas.GoJSONSchemaExtension{Identifier: &id}
		explicit = " explicit-identifier:" + names[k] + "=" + id
	}
	if err := g.addFile("root.json", sch); err != nil {
		zzvrt.Note(err.Error())
		zzvrt.Check("C14.L3.generates", false)
		return
	}
	src := string(g.Sources()["root.go"])
	zzvrt.Emit("root.go", src)
	zzvrt.Cover("names:" + strings.Join(names, ",") + explicit)
	h := zzvrt.Stage2(src)
	if !zzvrt.S2OK(h) {
		zzvrt.Note(zzvrt.S2Errors(h))
		zzvrt.Check("C14.L3.distinct-field-names", false)
		zzvrt.Check("C01.L3.struct-of-colliding-siblings-compiles", false)
		return
	}
	zzvrt.Check("C14.L3.distinct-field-names", true)
	zzvrt.Check("C01.L3.struct-of-colliding-siblings-compiles", true)
	tagsOK := true
	for _, n := range names {
		if strings.Count(src, "json:\""+n+"\"") != 1 {
			tagsOK = false
		}
	}
	zzvrt.Check("C14.L3.tags-carry-exact-name", tagsOK)
	if famIdx == 6 || zzvrt.Param("COMPILEONLY", 0) == 1 {
		return
	}
	// all keys present with symbolic integers: accepted, and re-decoding binds by tag (each
	// document member is read by exactly one field: checked by requiring all four values back)
	d := zzvrt.NewDoc()
	zzTypeCorrectObject(d)
	for _, n := range names {
		zzvrt.Assume(zzvrt.And(zzvrt.DIs(d, n, zzvrt.KNumber), zzvrt.DIsInt(d, n)))
	}
	_, accepted, ok := zzRunT("C14.L3", h, g.getRootTypeName(sch, "root.json"), "json", d)
	if !ok {
		return
	}
	zzvrt.Check("C14.L3.document-with-all-keys-accepted", accepted)
	zzvrt.Check("C04.L3.present-key-satisfies-required-whatever-it-is-called", accepted)
	// the same keys with ONE of them missing (its look-alikes may be there): rejected
	gone := zzvrt.Choice(len(names))
	d3 := zzvrt.NewDoc()
	zzTypeCorrectObject(d3)
	for k, n := range names {
		if k == gone {
			zzvrt.Assume(zzvrt.DIs(d3, n, zzvrt.KAbsent))
		} else {
			zzvrt.Assume(zzvrt.And(zzvrt.DIs(d3, n, zzvrt.KNumber), zzvrt.DIsInt(d3, n)))
		}
	}
	_, accepted3, ok := zzRunT("C14.L3", h, g.getRootTypeName(sch, "root.json"), "json", d3)
	if !ok {
		return
	}
	zzvrt.Check("C04.L3.missing-required-key-rejected-whatever-it-is-called", !accepted3)
	// binding: the same keys with ONE of them carrying a string instead: rejected, whichever key
	// it is (every key is bound to its own typed field)
	bad := zzvrt.Choice(len(names))
	d2 := zzvrt.NewDoc()
	zzTypeCorrectObject(d2)
	for k, n := range names {
		if k == bad {
			zzvrt.Assume(zzvrt.DIs(d2, n, zzvrt.KString))
		} else {
			zzvrt.Assume(zzvrt.And(zzvrt.DIs(d2, n, zzvrt.KNumber), zzvrt.DIsInt(d2, n)))
		}
	}
	_, accepted2, ok := zzRunT("C14.L3", h, g.getRootTypeName(sch, "root.json"), "json", d2)
	if !ok {
		return
	}
	zzvrt.Check("C14.L3.every-key-is-bound-to-its-typed-field", !accepted2)
	zzvrt.Check("C03.L3.wrong-type-rejected-whatever-the-property-is-called", !accepted2)
}

//go:build verif

package generator

import (
	"math"
	"strconv"

	"github.com/atombender/go-jsonschema/internal/zzvrt"
)

// zzFacets: the reference model's verdict on a document position, split by rule family so
// that each property's check asserts its own facet on documents valid in every other
// facet (DESIGN §5.2).  All fields are (possibly symbolic) booleans.
type zzFacets struct {
	typ, req, num, str, arr, enum bool
	mult                          bool // multipleOf (its own facet: C05 owns it like the bounds)
	strBytes                      bool // str facet with lengths measured in bytes (deviation patch)
	dontCare                      bool // the property texts make no promise here
	nullObject                    bool // region of "null-for-nullable-object-validated-as-empty"
	itemsUnchecked                bool // region of the known deviation "array-items-unvalidated"
	nestedLimits                  bool // region of the known deviation "nested-arrays-outer-limits"
}

func zzAllTrue() zzFacets {
	return zzFacets{typ: true, req: true, num: true, str: true, arr: true, enum: true, strBytes: true, mult: true}
}

func (a zzFacets) and(b zzFacets) zzFacets {
	return zzFacets{
		typ: zzvrt.And(a.typ, b.typ), req: zzvrt.And(a.req, b.req), num: zzvrt.And(a.num, b.num),
		str: zzvrt.And(a.str, b.str), arr: zzvrt.And(a.arr, b.arr), enum: zzvrt.And(a.enum, b.enum),
		strBytes:       zzvrt.And(a.strBytes, b.strBytes),
		mult:           zzvrt.And(a.mult, b.mult),
		dontCare:       zzvrt.Or(a.dontCare, b.dontCare),
		itemsUnchecked: zzvrt.Or(a.itemsUnchecked, b.itemsUnchecked),
		nestedLimits:   zzvrt.Or(a.nestedLimits, b.nestedLimits),
		nullObject:     zzvrt.Or(a.nullObject, b.nullObject),
	}
}

// guard: the facets apply only when c holds (otherwise everything is fine).
func (a zzFacets) when(c bool) zzFacets {
	nc := zzvrt.Not(c)
	return zzFacets{
		typ: zzvrt.Or(nc, a.typ), req: zzvrt.Or(nc, a.req), num: zzvrt.Or(nc, a.num),
		str: zzvrt.Or(nc, a.str), arr: zzvrt.Or(nc, a.arr), enum: zzvrt.Or(nc, a.enum),
		strBytes:       zzvrt.Or(nc, a.strBytes),
		mult:           zzvrt.Or(nc, a.mult),
		dontCare:       zzvrt.And(c, a.dontCare),
		itemsUnchecked: zzvrt.And(c, a.itemsUnchecked),
		nestedLimits:   zzvrt.And(c, a.nestedLimits),
		nullObject:     zzvrt.And(c, a.nullObject),
	}
}

func (a zzFacets) all() bool {
	return zzvrt.And(a.mult, zzvrt.And(a.typ, zzvrt.And(a.req, zzvrt.And(a.num, zzvrt.And(a.str, zzvrt.And(a.arr, a.enum))))))
}

// allBytes: the whole verdict with string lengths measured in bytes (deviation patch).
func (a zzFacets) allBytes() bool {
	return zzvrt.And(a.mult, zzvrt.And(a.typ, zzvrt.And(a.req, zzvrt.And(a.num, zzvrt.And(a.strBytes, zzvrt.And(a.arr, a.enum))))))
}

// others: every facet except the named one holds.
func (a zzFacets) others(except string) bool {
	r := true
	add := func(name string, v bool) {
		if name != except {
			r = zzvrt.And(r, v)
		}
	}
	add("typ", a.typ)
	add("req", a.req)
	add("num", a.num)
	add("str", a.str)
	add("arr", a.arr)
	add("enum", a.enum)
	add("mult", a.mult)
	return r
}

func zzKindIs(d int, path string, k int) bool { return zzvrt.DIs(d, path, k) }

// zzValue: verdict for a present, non-null value at path under spec s.
func zzValue(d int, path string, s *zzSpec, n int, arrayLevel int) zzFacets {
	f := zzAllTrue()
	switch s.kind {
	case "any":
		return f
	case "null":
		f.typ = false // zzValue is the verdict for a NON-null value
	case "boolean":
		f.typ = zzKindIs(d, path, zzvrt.KBool)
	case "string":
		isStr := zzKindIs(d, path, zzvrt.KString)
		f.typ = isStr
		if s.format != "" {
			// library text formats are behind a stub: no promise about which strings parse
			f.dontCare = isStr
			return f
		}
		str := zzvrt.DStr(d, path)
		ok := zzLenOK(zzvrt.RuneLen(str), s.minLen, s.maxLen)
		if s.pattern != "" {
			ok = zzvrt.And(ok, zzvrt.Matches(str, s.pattern))
		}
		f.str = zzvrt.Or(zzvrt.Not(isStr), ok)
		okB := zzLenOK(len(str), s.minLen, s.maxLen)
		if s.pattern != "" {
			okB = zzvrt.And(okB, zzvrt.Matches(str, s.pattern))
		}
		f.strBytes = zzvrt.Or(zzvrt.Not(isStr), okB)
	case "number":
		isNum := zzKindIs(d, path, zzvrt.KNumber)
		f.typ = isNum
		f.num = zzvrt.Or(zzvrt.Not(isNum), zzInBoundsF(zzvrt.DFloat(d, path), s.min, s.max, s.exMin, s.exMax))
		if s.multipleOf != nil {
			m := math.Mod(zzvrt.DFloat(d, path), *s.multipleOf)
			f.mult = zzvrt.Or(zzvrt.Not(isNum), m == 0)
			// the emitted test is |Mod| > 1e-10: remainders inside the tolerance carry no promise
			f.dontCare = zzvrt.And(isNum, zzvrt.And(m != 0, math.Abs(m) <= 1e-10))
		}
	case "integer":
		isInt := zzvrt.And(zzKindIs(d, path, zzvrt.KNumber), zzvrt.DIsInt(d, path))
		f.typ = isInt
		f.num = zzvrt.Or(zzvrt.Not(isInt), zzInBoundsI(zzvrt.DInt(d, path), s.min, s.max, s.exMin, s.exMax))
		if s.multipleOf != nil {
			// an integer is a multiple of M iff its (exact) float64 image is
			m := *s.multipleOf
			if m == math.Trunc(m) && math.Abs(m) < 1<<53 {
				f.mult = zzvrt.Or(zzvrt.Not(isInt), zzvrt.DInt(d, path)%int64(m) == 0)
			} else {
				f.mult = zzvrt.Or(zzvrt.Not(isInt), math.Mod(float64(zzvrt.DInt(d, path)), m) == 0)
			}
		}
	case "array":
		isArr := zzKindIs(d, path, zzvrt.KArray)
		f.typ = isArr
		ln := zzvrt.DLen(d, path)
		f.arr = zzvrt.Or(zzvrt.Not(isArr), zzLenOK(ln, s.minItems, s.maxItems))
		// recorded finding j: inner arrays are checked against the limits of the OUTER array
		// (whatever their own limits are), so every nested array below an array with limits --
		// and every array with limits below another array -- lies in the deviation's region
		if (arrayLevel > 0 && (s.minItems != 0 || s.maxItems != 0)) ||
			(s.items != nil && s.items.kind == "array" && (s.minItems != 0 || s.maxItems != 0)) {
			f.nestedLimits = isArr
		}
		for i := 0; i < n; i++ {
			ep := path + "/" + strconv.Itoa(i)
			inside := zzvrt.And(isArr, i < ln)
			ef := zzPosition(d, ep, s.items, n, arrayLevel+1, false)
			// a constrained element schema is where the implementation attaches nothing
			if zzHasValueRule(s.items) {
				ef.itemsUnchecked = zzvrt.Not(zzKindIs(d, ep, zzvrt.KNull))
			}
			f = f.and(ef.when(inside))
		}
	case "object":
		isObj := zzKindIs(d, path, zzvrt.KObject)
		f.typ = isObj
		for _, name := range s.order {
			mf := zzMember(d, path+"/"+name, s.props[name], s.required[name], n)
			f = f.and(mf.when(isObj))
		}
	case "object-ap":
		isObj := zzKindIs(d, path, zzvrt.KObject)
		f.typ = isObj
		for _, name := range s.order {
			mf := zzMember(d, path+"/"+name, s.props[name], s.required[name], n)
			f = f.and(mf.when(isObj))
		}
		for i := 0; i < zzvrt.Param("E", 1); i++ {
			ep := path + "/+" + strconv.Itoa(i)
			present := zzvrt.And(isObj, zzvrt.Not(zzKindIs(d, ep, zzvrt.KAbsent)))
			ef := zzValue(d, ep, s.items, n, 0)
			nf := zzAllTrue()
			nf.dontCare = zzKindIs(d, ep, zzvrt.KNull)
			f = f.and(ef.and(nf).when(present))
		}
	case "map":
		isObj := zzKindIs(d, path, zzvrt.KObject)
		f.typ = isObj
		for i := 0; i < zzvrt.Param("E", 1); i++ {
			ep := path + "/+" + strconv.Itoa(i)
			present := zzvrt.And(isObj, zzvrt.Not(zzKindIs(d, ep, zzvrt.KAbsent)))
			ef := zzValue(d, ep, s.items, n, 0)
			nf := zzAllTrue()
			nf.dontCare = zzKindIs(d, ep, zzvrt.KNull) // null map values: no promise
			f = f.and(ef.and(nf).when(present))
		}
	case "enum-string", "enum-string-null":
		isStr := zzKindIs(d, path, zzvrt.KString)
		str := zzvrt.DStr(d, path)
		member := false
		for _, v := range s.enumS {
			member = zzvrt.Or(member, str == v)
		}
		f.enum = zzvrt.And(isStr, member)
	case "enum-int":
		isNum := zzKindIs(d, path, zzvrt.KNumber)
		member := false
		if s.format == "typed" {
			x := zzvrt.DInt(d, path)
			for _, v := range s.enumF {
				member = zzvrt.Or(member, x == int64(v))
			}
			f.enum = zzvrt.And(zzvrt.And(isNum, zzvrt.DIsInt(d, path)), member)
		} else {
			x := zzvrt.DFloat(d, path)
			for _, v := range s.enumF {
				member = zzvrt.Or(member, x == v)
			}
			f.enum = zzvrt.And(isNum, member)
		}
	case "enum":
		// general enum: JSON equality with one of the listed values (null is handled by the
		// position); a declared type applies as well
		member := false
		for _, v := range s.enumAny {
			switch m := v.(type) {
			case string:
				member = zzvrt.Or(member, zzvrt.And(zzKindIs(d, path, zzvrt.KString), zzvrt.DStr(d, path) == m))
			case float64:
				if s.enumType == "integer" {
					member = zzvrt.Or(member, zzvrt.And(zzKindIs(d, path, zzvrt.KNumber), zzvrt.DInt(d, path) == int64(m)))
				} else {
					member = zzvrt.Or(member, zzvrt.And(zzKindIs(d, path, zzvrt.KNumber), zzvrt.DFloat(d, path) == m))
				}
			case bool:
				member = zzvrt.Or(member, zzvrt.And(zzKindIs(d, path, zzvrt.KBool), zzvrt.DBool(d, path) == m))
			}
		}
		switch s.enumType {
		case "string":
			member = zzvrt.And(member, zzKindIs(d, path, zzvrt.KString))
		case "integer":
			member = zzvrt.And(member, zzvrt.And(zzKindIs(d, path, zzvrt.KNumber), zzvrt.DIsInt(d, path)))
		case "number":
			member = zzvrt.And(member, zzKindIs(d, path, zzvrt.KNumber))
		case "boolean":
			member = zzvrt.And(member, zzKindIs(d, path, zzvrt.KBool))
		}
		f.enum = member
	case "enum-mixed":
		member := false
		str := zzvrt.DStr(d, path)
		for _, v := range s.enumS {
			member = zzvrt.Or(member, zzvrt.And(zzKindIs(d, path, zzvrt.KString), str == v))
		}
		x := zzvrt.DFloat(d, path)
		for _, v := range s.enumF {
			member = zzvrt.Or(member, zzvrt.And(zzKindIs(d, path, zzvrt.KNumber), x == v))
		}
		member = zzvrt.Or(member, zzvrt.And(zzKindIs(d, path, zzvrt.KBool), zzvrt.DBool(d, path)))
		f.enum = member
	}
	return f
}

func zzHasValueRule(s *zzSpec) bool {
	if s == nil {
		return false
	}
	switch s.kind {
	case "number", "integer":
		return s.min != nil || s.max != nil || s.exMin != nil || s.exMax != nil || s.multipleOf != nil
	case "string":
		return s.format == "" && (s.minLen != 0 || s.maxLen != 0 || s.pattern != "")
	}
	return false
}

// zzPosition: verdict for a position that holds null or a value (array elements, roots).
func zzPosition(d int, path string, s *zzSpec, n int, arrayLevel int, _ bool) zzFacets {
	isNull := zzKindIs(d, path, zzvrt.KNull)
	v := zzValue(d, path, s, n, arrayLevel).when(zzvrt.Not(isNull))
	switch {
	case s.kind == "any":
		return zzAllTrue()
	case s.kind == "null":
		return v
	case s.kind == "enum":
		for _, m := range s.enumAny {
			if m == nil {
				return v // null is a listed value
			}
		}
		nf := zzAllTrue()
		nf.dontCare = isNull
		return v.and(nf)
	case s.kind == "enum-mixed" || s.kind == "enum-string-null":
		// null is a listed value of these enums
		return v
	case s.kind == "enum-string" || s.kind == "enum-int":
		// null where the enum does not list it: like null at any non-nullable position, the
		// property texts make no promise (an optional member decodes to a nil pointer)
		nf := zzAllTrue()
		nf.dontCare = isNull
		return v.and(nf)
	case s.nullable:
		if s.kind == "object" {
			nf := zzAllTrue()
			nf.nullObject = isNull
			return v.and(nf)
		}
		return v
	default:
		nf := zzAllTrue()
		nf.dontCare = isNull // null at a non-nullable position: no promise
		return v.and(nf)
	}
}

// zzMember: verdict for an object member that may also be absent.
func zzMember(d int, path string, s *zzSpec, required bool, n int) zzFacets {
	absent := zzKindIs(d, path, zzvrt.KAbsent)
	f := zzPosition(d, path, s, n, 0, false).when(zzvrt.Not(absent))
	rf := zzAllTrue()
	if required && !s.hasDefault {
		rf.req = zzvrt.Not(absent)
	}
	if required && s.hasDefault {
		// a required key with a default that is absent: invalid under the schema (C02 says
		// nothing), exempt from C04 ("and not given a default"), not C09's case (optional): no promise
		rf.dontCare = absent
	}
	return f.and(rf)
}

//go:build verif

package generator

import (
	"github.com/atombender/go-jsonschema/internal/zzvrt"
	"github.com/atombender/go-jsonschema/pkg/schemas"
)

// HarnessC12: the engine turns every `range` over a map in repository code into a schedule
// choice (all orders of maps with <= K entries).  Every schedule must emit the same bytes
// under the same output names; the driver compares the emits of all explored paths.
func HarnessC12() {
	mn := zzvrt.Float64()
	defs := schemas.Definitions{
		"Beta":  {Type: schemas.TypeList{"object"}, Properties: map[string]*schemas.Type{"n": {Type: schemas.TypeList{"integer"}}, "m": {Type: schemas.TypeList{"string"}}}, Required: []string{"n"}},
		"Alpha": {Type: schemas.TypeList{"string"}, Enum: []interface{}{"x", "y"}},
	}
	root := &schemas.Type{
		Type: schemas.TypeList{"object"},
		Properties: map[string]*schemas.Type{
			"first":  {Type: schemas.TypeList{"number"}, Minimum: &mn},
			"second": {Ref: "#/$defs/Beta"},
			"third":  {Ref: "#/$defs/Alpha"},
		},
		Required: []string{"second", "first"},
	}
	shape := zzvrt.Choice(zzvrt.Param("SHAPES", 3))
	if shape == 2 {
		// definition names that differ only in letter case (they map to the same Go name, so
		// the order in which they are visited decides who gets the plain name)
		defs["item"] = &schemas.Type{Type: schemas.TypeList{"object"}, Properties: map[string]*schemas.Type{"id": {Type: schemas.TypeList{"string"}}}, Required: []string{"id"}}
		defs["Item"] = &schemas.Type{Type: schemas.TypeList{"object"}, Properties: map[string]*schemas.Type{"count": {Type: schemas.TypeList{"integer"}}}}
		root.Properties["fourth"] = &schemas.Type{Ref: "#/$defs/item"}
		root.Properties["fifth"] = &schemas.Type{Ref: "#/$defs/Item"}
	}
	cfg := Config{DefaultPackageName: "example.com/gen", DefaultOutputName: "root.go", Warner: func(string) {},
		Tags: []string{"json", "yaml", "mapstructure"}}
	if shape == 1 {
		// two schema ids mapped to two output files, one referring to the other package
		cfg.SchemaMappings = []SchemaMapping{
			{SchemaID: "https://example.com/root", PackageName: "example.com/gen", OutputName: "root.go"},
			{SchemaID: "https://example.com/other", PackageName: "example.com/other", OutputName: "other.go"},
		}
	}
	sch := &schemas.Schema{ObjectAsType: (*schemas.ObjectAsType)(root), ID: "https://example.com/root", Definitions: defs}
	g, err := New(cfg)
	if err != nil {
		zzvrt.Unreachable("New failed")
	}
	if err := g.addFile("root.json", sch); err != nil {
		zzvrt.Note(err.Error())
		zzvrt.Check("C12.generates", false)
		return
	}
	if shape == 1 {
		other := &schemas.Type{Type: schemas.TypeList{"object"}, Properties: map[string]*schemas.Type{
			"k": {Type: schemas.TypeList{"boolean"}}, "j": {Type: schemas.TypeList{"integer"}}}}
		sch2 := &schemas.Schema{ObjectAsType: (*schemas.ObjectAsType)(other), ID: "https://example.com/other"}
		if err := g.addFile("other.json", sch2); err != nil {
			zzvrt.Note(err.Error())
			zzvrt.Check("C12.generates", false)
			return
		}
	}
	names := ""
	srcs := g.Sources()
	for _, name := range sortedKeys(srcs) {
		names += name + ";"
		zzvrt.Emit(name, string(srcs[name]))
	}
	zzvrt.Emit("output-names", names)
	zzvrt.Cover("shape:" + []string{"single-file", "two-files", "case-colliding-definitions"}[shape])
	zzvrt.Check("C12.generates", true)
}

//go:build verif

package generator

import (
	"github.com/atombender/go-jsonschema/internal/zzvrt"
	"github.com/atombender/go-jsonschema/pkg/schemas"
)

// HarnessC12: the engine turns every `range` over a map in repository code into a schedule
// choice (all orders of maps with <= K entries).  Every schedule must emit the same bytes
// under the same output names; the driver compares the emits of all explored paths.
func HarnessC12() {
	mn := zzvrt.Float64()
	defs := schemas.Definitions{
		"Beta":  {Type: schemas.TypeList{"object"}, Properties: map[string]*schemas.Type{"n": {Type: schemas.TypeList{"integer"}}, "m": {Type: schemas.TypeList{"string"}}}, Required: []string{"n"}},
		"Alpha": {Type: schemas.TypeList{"string"}, Enum: []interface{}{"x", "y"}},
	}
	root := &schemas.Type{
		Type: schemas.TypeList{"object"},
		Properties: map[string]*schemas.Type{
			"first":  {Type: schemas.TypeList{"number"}, Minimum: &mn},
			"second": {Ref: "#/$defs/Beta"},
			"third":  {Ref: "#/$defs/Alpha"},
		},
		Required: []string{"second", "first"},
	}
	shape := zzvrt.Choice(zzvrt.Param("SHAPES", 4))
	if shape == 3 {
		// literals rendered through the dumper in both files: an array default with composite
		// elements here, enumerations and scalar defaults there (rendering state must not
		// travel from one output to the next, whichever is rendered first)
		delete(root.Properties, "first")
		delete(root.Properties, "third")
		root.Properties["rules"] = &schemas.Type{Type: schemas.TypeList{"array"},
			Default: []interface{}{"deny-all", map[string]interface{}{"allow": true, "match": "*.internal"}, []interface{}{"a", 1.0}}}
		root.Properties["mode"] = &schemas.Type{Type: schemas.TypeList{"string"}, Enum: []interface{}{"on", "off"}, Default: "on"}
	}
	if shape == 2 {
		// definition names that differ only in letter case (they map to the same Go name, so
		// the order in which they are visited decides who gets the plain name)
		defs["item"] = &schemas.Type{Type: schemas.TypeList{"object"}, Properties: map[string]*schemas.Type{"id": {Type: schemas.TypeList{"string"}}}, Required: []string{"id"}}
		defs["Item"] = &schemas.Type{Type: schemas.TypeList{"object"}, Properties: map[string]*schemas.Type{"count": {Type: schemas.TypeList{"integer"}}}}
		root.Properties["fourth"] = &schemas.Type{Ref: "#/$defs/item"}
		root.Properties["fifth"] = &schemas.Type{Ref: "#/$defs/Item"}
	}
	cfg := Config{DefaultPackageName: "example.com/gen", DefaultOutputName: "root.go", Warner: func(string) {},
		Tags: []string{"json", "yaml", "mapstructure"}}
	if shape == 1 || shape == 3 {
		// two schema ids mapped to two output files, one referring to the other package
		cfg.SchemaMappings = []SchemaMapping{
			{SchemaID: "https://example.com/root", PackageName: "example.com/gen", OutputName: "root.go"},
			{SchemaID: "https://example.com/other", PackageName: "example.com/other", OutputName: "other.go"},
		}
	}
	sch := &schemas.Schema{ObjectAsType: (*schemas.ObjectAsType)(root), ID: "https://example.com/root", Definitions: defs}
	g, err := New(cfg)
	if err != nil {
		zzvrt.Unreachable("New failed")
	}
	if err := g.addFile("root.json", sch); err != nil {
		zzvrt.Note(err.Error())
		zzvrt.Check("C12.generates", false)
		return
	}
	var sch2 *schemas.Schema
	if shape == 1 || shape == 3 {
		other := &schemas.Type{Type: schemas.TypeList{"object"}, Properties: map[string]*schemas.Type{
			"k": {Type: schemas.TypeList{"boolean"}}, "j": {Type: schemas.TypeList{"integer"}}}}
		if shape == 3 {
			delete(other.Properties, "k")
			delete(other.Properties, "j")
			other.Properties["level"] = &schemas.Type{Type: schemas.TypeList{"string"}, Enum: []interface{}{"low", "mid", "high"}}
			other.Properties["codes"] = &schemas.Type{Type: schemas.TypeList{"array"}, Items: &schemas.Type{Type: schemas.TypeList{"integer"}}, Default: []interface{}{1.0, 2.0}}
			other.Properties["mixed"] = &schemas.Type{Enum: []interface{}{"a", 1.0, true}}
		}
		sch2 = &schemas.Schema{ObjectAsType: (*schemas.ObjectAsType)(other), ID: "https://example.com/other"}
		if err := g.addFile("other.json", sch2); err != nil {
			zzvrt.Note(err.Error())
			zzvrt.Check("C12.generates", false)
			return
		}
	}
	names := ""
	srcs := g.Sources()
	for _, name := range sortedKeys(srcs) {
		names += name + ";"
		zzvrt.Emit(name, string(srcs[name]))
	}
	zzvrt.Emit("output-names", names)
	// nothing a run leaves behind in the process takes part: rendering the same generator
	// again, and a fresh generator given the same input afterwards, give the same bytes
	zzvrt.SchedulesDone()
	again := g.Sources()
	same := len(again) == len(srcs)
	for _, name := range sortedKeys(again) {
		same = same && zzSameText(string(again[name]), string(srcs[name]))
		if !zzSameText(string(again[name]), string(srcs[name])) {
			zzvrt.Emit("second-rendering-of-"+name, string(again[name]))
		}
	}
	zzvrt.Check("C12.rendering-twice-gives-the-same-bytes", same)
	if g2, err := New(cfg); err == nil && g2.addFile("root.json", sch) == nil && (sch2 == nil || g2.addFile("other.json", sch2) == nil) {
		fresh := g2.Sources()
		same = len(fresh) == len(srcs)
		for _, name := range sortedKeys(fresh) {
			same = same && zzSameText(string(fresh[name]), string(srcs[name]))
			if !zzSameText(string(fresh[name]), string(srcs[name])) {
				zzvrt.Emit("second-generation-of-"+name, string(fresh[name]))
			}
		}
		zzvrt.Check("C12.a-second-generation-in-the-same-process-gives-the-same-bytes", same)
	}
	zzvrt.Cover("shape:" + []string{"single-file", "two-files", "case-colliding-definitions", "dumped-literals-in-two-files"}[shape])
	zzvrt.Check("C12.generates", true)
}

// zzSameText compares two renderings; a symbolic number stands in the text as a numbered
// placeholder and every rendering numbers its placeholders anew, so the numbers are left out.
func zzSameText(a, b string) bool { return zzNoHoleNumbers(a) == zzNoHoleNumbers(b) }

func zzNoHoleNumbers(s string) string {
	out := make([]byte, 0, len(s))
	for i := 0; i < len(s); i++ {
		out = append(out, s[i])
		if i >= 2 && s[i] == 'H' && s[i-1] == 'Z' && s[i-2] == 'Z' {
			for i+1 < len(s) && s[i+1] >= '0' && s[i+1] <= '9' {
				i++
			}
		}
	}
	return string(out)
}

//go:build verif

package generator

import (
	"github.com/atombender/go-jsonschema/internal/zzvrt"
	"github.com/atombender/go-jsonschema/pkg/schemas"
)

// HarnessC09Object: an optional OBJECT-typed property with a default. The object has a boolean,
// an integer and a string member, each with or without a default of its own; the property's
// default gives any subset of the members, each with the Go zero value of its type or another
// value. With the property absent or null the decoded object holds, for every member the default
// gives, exactly the given value (a given false / 0 / "" is a value, not a gap); with the
// property present the document's members are kept and absent members take their own defaults.
func HarnessC09Object() {
	type member struct {
		name, field, typ string
		own              any // the member's own default (nil: none)
		zero, other      any
	}
	ms := []member{
		{"flag", "Flag", "boolean", true, false, true},
		{"count", "Count", "integer", 3.0, 0.0, 7.0},
		{"mode", "Mode", "string", "fast", "", "slow"},
	}
	obj := &schemas.Type{Type: schemas.TypeList{"object"}, Properties: map[string]*schemas.Type{}}
	dflt := map[string]interface{}{}
	given := map[string]any{}
	ownOf := map[string]any{}
	cls := ""
	for _, m := range ms {
		mt := &schemas.Type{Type: schemas.TypeList{m.typ}}
		if zzvrt.Bool() {
			mt.Default = m.own
			ownOf[m.name] = m.own
			cls += m.name + "=own,"
		}
		obj.Properties[m.name] = mt
		switch zzvrt.Choice(3) {
		case 1:
			dflt[m.name], given[m.name] = m.zero, m.zero
			cls += m.name + ":zero,"
		case 2:
			dflt[m.name], given[m.name] = m.other, m.other
			cls += m.name + ":other,"
		}
	}
	if len(dflt) == 0 {
		return
	}
	obj.Default = dflt
	viaRef := zzvrt.Bool()
	src, rootType, err := zzGenerate(obj, false, viaRef, Config{})
	zzvrt.Note("shape=" + cls)
	if err != nil {
		zzvrt.Note("generator error: " + err.Error())
		zzvrt.Check("C09.object.valid-schema-generates", false)
		return
	}
	zzvrt.Emit("root.go", src)
	h := zzvrt.Stage2(src)
	if !zzvrt.S2OK(h) {
		zzvrt.Note(zzvrt.S2Errors(h))
		// recorded finding: a member without a default of its own is an optional (pointer-typed)
		// field, and the value the object default gives it is emitted as a plain literal
		ptrField := false
		for name := range given {
			if _, own := ownOf[name]; !own {
				ptrField = true
			}
		}
		zzvrt.Check("C09.object.default-literal-has-field-type", false, zzvrt.Dev{Name: "default-into-pointer-field", Cond: ptrField})
		return
	}
	zzvrt.Check("C09.object.default-literal-has-field-type", true)
	d := zzvrt.NewDoc()
	zzTypeCorrectObject(d)
	// the document: x absent, null, or an object whose three members are absent or type-correct
	zzvrt.Assume(zzvrt.Or(zzvrt.DIs(d, "x", zzvrt.KAbsent), zzvrt.Or(zzvrt.DIs(d, "x", zzvrt.KNull), zzvrt.DIs(d, "x", zzvrt.KObject))))
	zzvrt.Assume(zzvrt.Or(zzvrt.DIs(d, "x/flag", zzvrt.KAbsent), zzvrt.DIs(d, "x/flag", zzvrt.KBool)))
	zzvrt.Assume(zzvrt.Or(zzvrt.DIs(d, "x/count", zzvrt.KAbsent), zzvrt.And(zzvrt.DIs(d, "x/count", zzvrt.KNumber), zzvrt.DIsInt(d, "x/count"))))
	zzvrt.Assume(zzvrt.Or(zzvrt.DIs(d, "x/mode", zzvrt.KAbsent), zzvrt.DIs(d, "x/mode", zzvrt.KString)))
	missing := zzvrt.Or(zzvrt.DIs(d, "x", zzvrt.KAbsent), zzvrt.DIs(d, "x", zzvrt.KNull))
	r, accepted, ok := zzRunT("C09.object", h, rootType, "json", d)
	if !ok {
		return
	}
	zzvrt.Cover("object-default:" + cls)
	zzvrt.Check("C09.object.valid-document-accepted", accepted)
	if !accepted {
		return
	}
	// recorded finding: a default declared on a DEFINITION is not applied to the property that
	// refers to it (the generator looks for the keyword on the referring schema only)
	refDev := zzvrt.Dev{Name: "default-of-a-referenced-definition-ignored", Cond: viaRef}
	if zzvrt.OIsNil(r, "X") {
		zzvrt.Check("C09.object.default-applied", zzvrt.Not(missing), refDev)
		return
	}
	for _, m := range ms {
		p, dp := "X/"+m.field, "x/"+m.name
		if zzvrt.OIsNil(r, p) {
			// an unset optional member: fine only if nothing promised it a value
			_, g := given[m.name]
			_, own := ownOf[m.name]
			zzvrt.Check("C09.object.present-value-wins", zzvrt.Or(missing, zzvrt.DIs(d, dp, zzvrt.KAbsent)))
			if g {
				zzvrt.Check("C09.object.default-applied-member-by-member", zzvrt.Not(missing), refDev)
			}
			if own {
				zzvrt.Check("C09.object.absent-member-of-a-present-object-takes-its-own-default", missing)
			}
			continue
		}
		eq := func(want any) bool {
			switch w := want.(type) {
			case bool:
				return zzvrt.OBool(r, p) == w
			case float64:
				return zzvrt.OInt(r, p) == int64(w)
			default:
				return zzvrt.OStr(r, p) == want.(string)
			}
		}
		if g, ok := given[m.name]; ok {
			zzvrt.Check("C09.object.default-applied-member-by-member", zzvrt.Implies(missing, eq(g)), refDev)
		}
		present := zzvrt.And(zzvrt.Not(missing), zzvrt.Not(zzvrt.DIs(d, dp, zzvrt.KAbsent)))
		switch m.typ {
		case "boolean":
			zzvrt.Check("C09.object.present-value-wins", zzvrt.Implies(present, zzvrt.OBool(r, p) == zzvrt.DBool(d, dp)))
		case "integer":
			zzvrt.Check("C09.object.present-value-wins", zzvrt.Implies(present, zzvrt.OInt(r, p) == zzvrt.DInt(d, dp)))
		default:
			zzvrt.Check("C09.object.present-value-wins", zzvrt.Implies(present, zzvrt.OStr(r, p) == zzvrt.DStr(d, dp)))
		}
		if own, ok := ownOf[m.name]; ok {
			// the object is present, this member is not: the member's own default
			zzvrt.Check("C09.object.absent-member-of-a-present-object-takes-its-own-default",
				zzvrt.Implies(zzvrt.And(zzvrt.Not(missing), zzvrt.DIs(d, dp, zzvrt.KAbsent)), eq(own)))
		}
	}
}

//go:build verif

package generator

import (
	"math"
	"strconv"
	"strings"

	"github.com/atombender/go-jsonschema/internal/zzvrt"
	"github.com/atombender/go-jsonschema/pkg/schemas"
)

const zzAllKinds = zzKString | zzKNumber | zzKInteger | zzKBoolean | zzKArray | zzKObject |
	zzKEnumString | zzKEnumInt | zzKEnumMixed | zzKAny | zzKFormat

// zzEveryKind: every kind of the grammar (the relational harnesses draw from all of them).
const zzEveryKind = zzAllKinds | zzKMap | zzKEnumStrNull | zzKNull | zzKObjAP

// zzGenerate runs the real pipeline (New -> addFile -> generateRootType -> Sources) on a
// schema whose root object has the single property x.
func zzGenerate(pt *schemas.Type, required bool, viaRef bool, cfg Config, extraDefs ...map[string]*schemas.Type) (src string, rootType string, err error) {
	root := &schemas.Type{Type: schemas.TypeList{"object"}, Properties: map[string]*schemas.Type{"x": pt}}
	var defs schemas.Definitions
	if viaRef {
		defs = schemas.Definitions{"Def": pt}
		root.Properties["x"] = &schemas.Type{Ref: "#/$defs/Def"}
	}
	for _, m := range extraDefs {
		for k, v := range m {
			if defs == nil {
				defs = schemas.Definitions{}
			}
			defs[k] = v
		}
	}
	if required {
		root.Required = []string{"x"}
	}
	sch := &schemas.Schema{ObjectAsType: (*schemas.ObjectAsType)(root), ID: "https://example.com/root", Definitions: defs}
	cfg.DefaultPackageName = "example.com/gen"
	cfg.DefaultOutputName = "root.go"
	cfg.Warner = func(string) {}
	if cfg.Tags == nil {
		cfg.Tags = []string{"json", "yaml", "mapstructure"}
	}
	g, err := New(cfg)
	if err != nil {
		return "", "", err
	}
	zzvrt.Witness("schema", sch)
	if err := g.addFile("root.json", sch); err != nil {
		return "", "", err
	}
	for name, b := range g.Sources() {
		if name == "root.go" {
			src = string(b)
		}
	}
	return src, g.getRootTypeName(sch, "root.json"), nil
}

// zzAllDefs collects the definitions a shape needs.
func zzAllDefs(s *zzSpec) map[string]*schemas.Type {
	out := map[string]*schemas.Type{}
	var walk func(x *zzSpec)
	walk = func(x *zzSpec) {
		if x == nil {
			return
		}
		for k, v := range x.defs {
			out[k] = v
		}
		walk(x.items)
		for _, p := range x.props {
			walk(p)
		}
	}
	walk(s)
	return out
}

// zzIntInterval: smallest and largest integer admitted by the bounds of s (as float64).
func zzIntInterval(s *zzSpec) (float64, float64) {
	inf := math.Inf(1)
	lo, hi := -inf, inf
	strict := func(e *any) bool {
		if e != nil {
			if b, ok := (*e).(bool); ok {
				return b
			}
		}
		return false
	}
	if s.min != nil {
		c := math.Ceil(*s.min)
		c = zzvrt.IteF(strict(s.exMin), math.Floor(*s.min)+1, c)
		lo = zzvrt.IteF(c > lo, c, lo)
	}
	if s.exMin != nil {
		if f, ok := (*s.exMin).(float64); ok {
			c := math.Floor(f) + 1
			lo = zzvrt.IteF(c > lo, c, lo)
		}
	}
	if s.max != nil {
		c := math.Floor(*s.max)
		c = zzvrt.IteF(strict(s.exMax), math.Ceil(*s.max)-1, c)
		hi = zzvrt.IteF(c < hi, c, hi)
	}
	if s.exMax != nil {
		if f, ok := (*s.exMax).(float64); ok {
			c := math.Ceil(f) - 1
			hi = zzvrt.IteF(c < hi, c, hi)
		}
	}
	return lo, hi
}

// zzNarrowestMax: the largest value of the narrowest Go integer type that holds [lo, hi]
// (unsigned when lo >= 0); 2^63 when only the 64-bit types do.
func zzNarrowestMax(lo, hi float64) float64 {
	const big = 9223372036854775808.0
	u := zzvrt.IteF(hi <= 255, 255, zzvrt.IteF(hi <= 65535, 65535, zzvrt.IteF(hi <= 4294967295, 4294967295, big)))
	s := zzvrt.IteF(zzvrt.And(lo >= -128, hi <= 127), 127,
		zzvrt.IteF(zzvrt.And(lo >= -32768, hi <= 32767), 32767,
			zzvrt.IteF(zzvrt.And(lo >= -2147483648, hi <= 2147483647), 2147483647, big)))
	return zzvrt.IteF(lo >= 0, u, s)
}

// HarnessL3: the whole generator on a symbolic schema, the emitted program on a symbolic
// document, every rule family checked as its own facet (shared by C01-C09, C19).
func HarnessL3() {
	mask := zzvrt.Param("KINDS", zzAllKinds)
	depth := zzvrt.Param("DEPTH", 1)
	n := zzvrt.Param("N", 2)
	pt, ps := zzGen(mask, depth, true)
	required := zzvrt.Bool()
	viaRef := false
	if zzvrt.Param("REF", 1) == 1 {
		viaRef = zzvrt.Bool()
	}
	cfg := Config{}
	if zzvrt.Param("MINSIZED", 0) == 1 {
		cfg.MinSizedInts = zzvrt.Bool()
	}
	if zzvrt.Param("CFG", 0) == 1 {
		// every combination of the output-shaping options
		cfg.OnlyModels, cfg.ExtraImports, cfg.StructNameFromTitle = zzvrt.Bool(), zzvrt.Bool(), zzvrt.Bool()
		if zzvrt.Bool() {
			cfg.Tags = []string{"yaml"}
		}
		if zzvrt.Bool() {
			cfg.Capitalizations = []string{"ID", "URL"}
		}
	}
	src, rootType, err := zzGenerate(pt, required, viaRef, cfg, zzAllDefs(ps))
	cls := ps.kind
	if ps.nullable {
		cls += "?"
	}
	if required {
		cls += "!"
	}
	if viaRef {
		cls += "@ref"
	}
	if err != nil {
		zzvrt.Note("generator error: " + err.Error())
		zzvrt.Check("C18.L3.valid-schema-generates", false)
		return
	}
	zzvrt.Emit("root.go", src)
	h := zzvrt.Stage2(src)
	if !zzvrt.S2OK(h) {
		zzvrt.Note(zzvrt.S2Errors(h))
		// Recorded finding: with --min-sized-ints an integral multipleOf is emitted as an untyped
		// constant operand of %, which must fit the (narrow) type chosen from the bounds.
		multDev := zzvrt.Dev{Name: "minsized-multipleof-overflows-narrow-type", Cond: false}
		if cfg.MinSizedInts && ps.kind == "integer" && ps.multipleOf != nil && *ps.multipleOf == math.Trunc(*ps.multipleOf) {
			lo, hi := zzIntInterval(ps)
			multDev.Cond = *ps.multipleOf > zzNarrowestMax(lo, hi)
		}
		zzvrt.Check("C01.L3.emitted-code-compiles", false, multDev)
		return
	}
	zzvrt.Check("C01.L3.emitted-code-compiles", true)
	zzvrt.Check("C01.L3.gofmt-stable", zzvrt.S2FmtStable(h))
	if ps.kind == "enum-string" && !cfg.OnlyModels {
		// C08: one typed constant per listed value, whose value is that string
		consts := zzvrt.StringConsts(src)
		all := true
		for _, v := range ps.enumS {
			n := 0
			for _, c := range consts {
				parts := strings.SplitN(c, "|", 3)
				if len(parts) == 3 && parts[1] != "" && parts[2] == v {
					n++
				}
			}
			if n != 1 {
				all = false
			}
		}
		zzvrt.Check("C08.L3.one-typed-constant-per-listed-string", all)
	}
	// Recorded finding: with --min-sized-ints and bounds that admit no integer at all, a bound
	// literal may lie outside the (arbitrarily narrow) type that was chosen.
	emptyDev := zzvrt.Dev{Name: "minsized-literal-overflow-on-empty-interval", Cond: false}
	if cfg.MinSizedInts && ps.kind == "integer" {
		lo, hi := zzIntInterval(ps)
		emptyDev.Cond = hi < lo
	}
	zzvrt.Check("C01.L3.literals-fit", zzvrt.S2Fits(h), emptyDev)
	if zzvrt.Param("NODOC", 0) == 1 || cfg.OnlyModels || (cfg.Tags != nil && cfg.Tags[0] != "json") {
		return // no methods / no json binding: nothing for the document checks to decide
	}

	// defaults that violate their own schema are outside the properties
	if ps.hasDefault && !zzAssumeDefaultValid(ps) {
		return
	}
	d := zzvrt.NewDoc()
	zzTypeCorrectObject(d)
	if ps.ghost {
		// the undeclared required key is there whenever the object is (a string)
		zzvrt.Assume(zzvrt.Or(zzvrt.Not(zzvrt.DIs(d, "x", zzvrt.KObject)), zzvrt.DIs(d, "x/ghost", zzvrt.KString)))
	}
	r, accepted, ok := zzRunT("C19.L3", h, rootType, "json", d)
	if !ok {
		return
	}
	zzvrt.Cover("shape:" + cls)
	zzvrt.Note("shape=" + cls)
	f := zzMember(d, "x", ps, required, n)
	nd := zzvrt.Not(f.dontCare)
	// Regions of recorded findings are excluded from the checks that do not own them, so
	// that one defect does not pollute every property (the owner keeps it as a deviation).
	noBytes := zzvrt.Iff(f.str, f.strBytes)
	noItems := zzvrt.And(zzvrt.Not(f.itemsUnchecked), zzvrt.Not(f.nestedLimits))
	if viaRef && ps.kind == "array" {
		noItems = false
	}
	// $ref-related recorded findings (concrete per shape): a nullable definition is emitted as
	// `type Def *T` and keeps no validation; a format-typed definition is emitted as
	// `type Def time.Time` and loses the library type's unmarshaler.
	refNullable := viaRef && ps.nullable && (ps.kind == "string" || ps.kind == "number" || ps.kind == "integer")
	refFormat := viaRef && ps.format != "" && ps.kind == "string"
	refDev := zzvrt.Dev{Name: "nullable-definition-unvalidated", Cond: refNullable}
	fmtDev := zzvrt.Dev{Name: "ref-to-format-definition-loses-unmarshaler", Cond: refFormat}
	nullObj := zzvrt.Dev{Name: "null-for-nullable-object-validated-as-empty", Cond: f.nullObject}
	base := zzvrt.And(nd, zzvrt.And(noBytes, zzvrt.And(noItems, zzvrt.Not(f.nullObject))))
	items := zzvrt.Dev{Name: "array-items-unvalidated", Cond: f.itemsUnchecked}
	nested := zzvrt.Dev{Name: "nested-arrays-outer-limits", Cond: f.nestedLimits}
	refArr := zzvrt.Dev{Name: "ref-to-array-definition-unvalidated", Cond: viaRef && ps.kind == "array"}
	bytesDev := zzvrt.Dev{Name: "length-in-bytes", Cond: zzvrt.And(zzvrt.Not(noBytes), zzvrt.Iff(accepted, f.allBytes()))}

	// Recorded finding: the undeclared members of a struct with typed additionalProperties are
	// decoded by mapstructure from float64 values: a non-integral number is truncated, not rejected.
	apTrunc := false
	if ps.kind == "object-ap" {
		// stated bound: no member literally named like the Go field that collects the extras
		zzvrt.Assume(zzvrt.DIs(d, "x/AdditionalProperties", zzvrt.KAbsent))
		for i := 0; i < zzvrt.Param("E", 1); i++ {
			ep := "x/+" + string(rune('0'+i))
			apTrunc = zzvrt.Or(apTrunc, zzvrt.And(zzvrt.DIs(d, ep, zzvrt.KNumber), zzvrt.Not(zzvrt.DIsInt(d, ep))))
		}
	}
	apDev := zzvrt.Dev{Name: "additional-property-number-truncated-to-integer", Cond: apTrunc}
	zzvrt.Check("C02.L3.valid-accepted", zzvrt.Implies(zzvrt.And(base, f.all()), accepted), fmtDev)
	if accepted && ps.nullable && (ps.kind == "string" || ps.kind == "number" || ps.kind == "integer" || ps.kind == "boolean") && (ps.format == "" || ps.format == "typed" || !viaRef) && !ps.hasDefault && !refNullable {
		// null where the type list has it yields an absent (nil) value
		zzvrt.Check("C03.L3.null-yields-nil", zzvrt.Implies(zzvrt.DIs(d, "x", zzvrt.KNull), zzvrt.OIsNil(r, "X")))
		zzvrt.Check("C02.L3.null-is-not-coerced-to-a-value", zzvrt.Implies(zzvrt.DIs(d, "x", zzvrt.KNull), zzvrt.OIsNil(r, "X")))
	}
	if accepted && zzvrt.Param("MARSHAL", 1) == 1 {
		// marshalling the decoded value back reproduces every non-empty declared value
		mb := zzvrt.RMarshalBack(r, d)
		zzvrt.Check("C02.L3.marshal-back-reproduces-the-input", zzvrt.Implies(nd, mb))
		if ps.kind == "object-ap" {
			// exactly the undeclared keys are collected, with their values
			zzvrt.Check("C02.L3.additional-properties-collected", zzvrt.Implies(zzvrt.And(nd, zzvrt.DIs(d, "x", zzvrt.KObject)), zzvrt.RExtrasCollected(r, "X/AdditionalProperties", d, "x")), apDev)
		}
		if len(ps.kind) > 4 && ps.kind[:4] == "enum" {
			zzvrt.Check("C08.L3.enum-marshals-back-to-the-bare-value", zzvrt.Implies(nd, mb))
		}
	}
	// recorded finding: a definition {type: null} is emitted as an unvalidated interface{} type
	refNull := zzvrt.Dev{Name: "ref-to-null-definition-unvalidated", Cond: viaRef && ps.kind == "null"}
	zzvrt.Check("C03.L3.wrong-type-rejected", zzvrt.Implies(zzvrt.And(base, f.others("typ")), zzvrt.Iff(accepted, f.typ)), fmtDev, apDev, refNull)
	zzvrt.Check("C03.L3.null-accepted-where-allowed", zzvrt.Implies(zzvrt.And(nd, zzvrt.And(f.nullObject, f.all())), accepted), nullObj)
	zzvrt.Check("C04.L3.required", zzvrt.Implies(zzvrt.And(base, f.others("req")), zzvrt.Iff(accepted, f.req)))
	zzvrt.Check("C05.L3.bounds", zzvrt.Implies(zzvrt.And(base, f.others("num")), zzvrt.Iff(accepted, f.num)), refDev)
	if cfg.MinSizedInts {
		// C15: with --min-sized-ints the emitted program still denotes the stated interval
		// (nullable definitions keep no validation with or without the flag: acceptance does not
		// change there, so the region is outside this check rather than a deviation of it)
		if !refNullable {
			zzvrt.Check("C15.L3.min-sized-ints-keep-the-stated-interval", zzvrt.Implies(zzvrt.And(base, f.others("num")), zzvrt.Iff(accepted, f.num)))
		}
	}
	zzvrt.Check("C05.L3.multiple-of", zzvrt.Implies(zzvrt.And(base, f.others("mult")), zzvrt.Iff(accepted, f.mult)), refDev)
	zzvrt.Check("C06.L3.length-pattern", zzvrt.Implies(zzvrt.And(zzvrt.And(nd, zzvrt.And(noItems, zzvrt.Not(f.nullObject))), f.others("str")), zzvrt.Iff(accepted, f.str)), bytesDev, refDev)
	zzvrt.Check("C07.L3.array-limits", zzvrt.Implies(zzvrt.And(zzvrt.And(nd, zzvrt.And(noBytes, zzvrt.Not(f.nullObject))), f.others("arr")), zzvrt.Iff(accepted, f.arr)), items, nested, refArr)
	zzvrt.Check("C08.L3.enum", zzvrt.Implies(zzvrt.And(base, f.others("enum")), zzvrt.Iff(accepted, f.enum)))
	if viaRef && ps.kind == "array" && ps.items != nil && strings.HasPrefix(ps.items.kind, "enum") {
		// an array DEFINITION keeps no validation of its own (recorded finding), but its elements
		// are still values of the enumeration's type: whatever is accepted holds members only
		nonNull := true
		for i := 0; i < n; i++ {
			nonNull = zzvrt.And(nonNull, zzvrt.Not(zzvrt.DIs(d, "x/"+strconv.Itoa(i), zzvrt.KNull)))
		}
		zzvrt.Check("C08.L3.enum-members-of-a-declared-array",
			zzvrt.Implies(zzvrt.And(zzvrt.And(nd, noBytes), zzvrt.And(zzvrt.Not(f.nullObject), nonNull)), zzvrt.Implies(accepted, f.enum)))
	}
}

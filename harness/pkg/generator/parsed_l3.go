//go:build verif

package generator

import (
	"encoding/json"
	"sort"
	"strings"

	"github.com/atombender/go-jsonschema/internal/zzvrt"
	"github.com/atombender/go-jsonschema/pkg/schemas"
)

// Schemas given as JSON TEXT: the generator's input comes from the repository's own parser
// (Schema.UnmarshalJSON, Type.UnmarshalJSON, TypeList.UnmarshalJSON, legacy fallbacks), the
// reference model from an independent walk over the generically decoded text.

// zzSpecOf builds the reference model's spec from a generically decoded (sub)schema.
func zzSpecOf(m map[string]interface{}, defs map[string]interface{}, depth int) *zzSpec {
	if depth > 6 {
		zzvrt.Unreachable("schema text nested too deep for the spec builder")
	}
	if ref, ok := m["$ref"].(string); ok {
		name := ""
		switch {
		case strings.HasPrefix(ref, "#/$defs/"):
			name = strings.TrimPrefix(ref, "#/$defs/")
		case strings.HasPrefix(ref, "#/definitions/"):
			name = strings.TrimPrefix(ref, "#/definitions/")
		default:
			zzvrt.Unreachable("spec builder: unsupported $ref " + ref)
		}
		// "#/$defs/X" names X of the "$defs" block, "#/definitions/X" X of the "definitions" block;
		// a document that has only one of the blocks serves both spellings from it
		first, second := "$defs", "definitions"
		if strings.HasPrefix(ref, "#/definitions/") {
			first, second = second, first
		}
		block, _ := defs[first].(map[string]interface{})
		if block == nil {
			block, _ = defs[second].(map[string]interface{})
		}
		dm, ok := block[name].(map[string]interface{})
		if !ok {
			zzvrt.Unreachable("spec builder: no definition " + name)
		}
		s := zzSpecOf(dm, defs, depth+1)
		s.viaRef = true
		return s
	}
	s := &zzSpec{}
	typ := ""
	switch t := m["type"].(type) {
	case string:
		typ = t
	case []interface{}:
		for _, e := range t {
			if es, _ := e.(string); es == "null" {
				s.nullable = len(t) > 1
				if len(t) == 1 {
					typ = "null"
				}
			} else if typ == "" {
				typ = es
			} else {
				zzvrt.Unreachable("spec builder: type list with two non-null types")
			}
		}
	}
	num := func(k string) *float64 {
		if v, ok := m[k].(float64); ok {
			return &v
		}
		return nil
	}
	lim := func(k string) int {
		if v, ok := m[k].(float64); ok {
			return int(v)
		}
		return 0
	}
	if e, ok := m["enum"].([]interface{}); ok {
		s.kind, s.enumAny, s.enumType = "enum", e, typ
		s.nullable = false
		return s
	}
	switch typ {
	case "string":
		s.kind = "string"
		s.minLen, s.maxLen = lim("minLength"), lim("maxLength")
		s.pattern, _ = m["pattern"].(string)
		s.format, _ = m["format"].(string)
		if s.pattern != "" && s.pattern != zzPattern {
			zzvrt.Unreachable("spec builder: only the pattern " + zzPattern + " has a model")
		}
	case "number", "integer":
		s.kind = typ
		s.min, s.max, s.multipleOf = num("minimum"), num("maximum"), num("multipleOf")
		for _, k := range []string{"exclusiveMinimum", "exclusiveMaximum"} {
			if v, ok := m[k]; ok {
				vv := v
				if k == "exclusiveMinimum" {
					s.exMin = &vv
				} else {
					s.exMax = &vv
				}
			}
		}
	case "boolean", "null":
		s.kind = typ
	case "array":
		s.kind = "array"
		s.minItems, s.maxItems = lim("minItems"), lim("maxItems")
		if it, ok := m["items"].(map[string]interface{}); ok {
			s.items = zzSpecOf(it, defs, depth+1)
		} else {
			s.items = &zzSpec{kind: "any"}
		}
	case "object":
		props, _ := m["properties"].(map[string]interface{})
		if ap, ok := m["additionalProperties"].(map[string]interface{}); ok && len(props) == 0 {
			s.kind = "map"
			s.items = zzSpecOf(ap, defs, depth+1)
			return s
		}
		s.kind = "object"
		s.props, s.required = map[string]*zzSpec{}, map[string]bool{}
		for name, pv := range props {
			pm, ok := pv.(map[string]interface{})
			if !ok {
				zzvrt.Unreachable("spec builder: boolean property schema")
			}
			s.props[name] = zzSpecOf(pm, defs, depth+1)
			s.order = append(s.order, name)
		}
		sort.Strings(s.order)
		if req, ok := m["required"].([]interface{}); ok {
			for _, r := range req {
				if rs, ok := r.(string); ok {
					s.required[rs] = true
				}
			}
		}
	case "":
		s.kind = "any"
	default:
		zzvrt.Unreachable("spec builder: type " + typ)
	}
	if dv, ok := m["default"]; ok && dv != nil {
		s.hasDefault = true
		switch v := dv.(type) {
		case string:
			s.defS = v
		case float64:
			s.defF = v
		case bool:
			s.defB = v
		}
	}
	return s
}

// zzSchemaTexts: concrete schema documents written in the spellings the parser has to
// normalise (legacy and current keywords, type as string or list, enum members whose printed
// forms coincide, numbers in several spellings, duplicated required names, ...).
var zzSchemaTexts = []string{
	// 0: mixed enums whose members print alike; enum inside a definition and as array items
	`{"$id": "https://example.com/t0", "type": "object", "properties": {
	   "autoSave": {"enum": [true, false, "true", "false", "auto"]},
	   "limit": {"enum": [0, 1, 2, "0", "1", "2", "unlimited"]},
	   "channels": {"type": "array", "items": {"$ref": "#/$defs/channel"}}},
	  "$defs": {"channel": {"enum": [1, 2, "1", "2", null, "<nil>"]}}}`,
	// 1: legacy keywords and type lists
	`{"id": "https://example.com/t1", "type": ["object"], "properties": {
	   "name": {"type": ["null", "string"], "minLength": 2},
	   "age": {"type": ["integer"], "minimum": 0, "exclusiveMaximum": 1.5e2},
	   "home": {"$ref": "#/definitions/address"}},
	  "required": ["name", "name", "age"],
	  "definitions": {"address": {"type": "object", "properties": {"zip": {"type": "string", "maxLength": 5}}, "required": ["zip"]}}}`,
	// 2: draft-4 boolean exclusives, multipleOf, nested arrays and objects
	`{"$id": "https://example.com/t2", "type": "object", "properties": {
	   "ratio": {"type": "number", "minimum": 0, "exclusiveMinimum": true, "maximum": 1.0},
	   "step": {"type": "integer", "multipleOf": 5},
	   "grid": {"type": "array", "maxItems": 2, "items": {"type": "array", "items": {"type": "boolean"}}},
	   "meta": {"type": "object", "properties": {"tags": {"type": "array", "items": {"type": "string"}, "minItems": 1}}, "required": ["tags"]}}}`,
	// 3: typed enums, string enum with a default, null-typed property, typed map
	`{"$id": "https://example.com/t3", "type": "object", "properties": {
	   "level": {"type": "string", "enum": ["debug", "info"], "default": "info"},
	   "code": {"type": "integer", "enum": [1, 2, 3]},
	   "nothing": {"type": "null"},
	   "counts": {"type": "object", "additionalProperties": {"type": "integer"}}},
	  "required": ["code"]}`,
	// 4: a document halfway through a draft migration: BOTH definition blocks, one name in both
	// with different content; every reference is spelled "#/$defs/..." and means that block
	`{"$id": "https://example.com/t4", "type": "object", "properties": {
	   "port": {"$ref": "#/$defs/port"}, "adminPort": {"$ref": "#/$defs/port"}, "label": {"$ref": "#/$defs/label"}},
	  "$defs": {"port": {"type": "integer", "minimum": 1, "maximum": 65535}, "label": {"type": "string", "maxLength": 8}},
	  "definitions": {"port": {"type": "integer", "minimum": 1024, "maximum": 49151}, "legacyOnly": {"type": "boolean"}}}`,
}

// HarnessParsed: parse (real parser) -> generate -> emitted code on a symbolic document,
// against the spec built independently from the same text.
func HarnessParsed() {
	k := zzvrt.Choice(len(zzSchemaTexts))
	text := zzSchemaTexts[k]
	n := zzvrt.Param("N", 1)
	var generic map[string]interface{}
	if err := json.Unmarshal([]byte(text), &generic); err != nil {
		zzvrt.Unreachable("schema text is not JSON: " + err.Error())
	}
	defs := map[string]interface{}{"$defs": generic["$defs"], "definitions": generic["definitions"]}
	spec := zzSpecOf(generic, defs, 0)
	var sch schemas.Schema
	if err := json.Unmarshal([]byte(text), &sch); err != nil {
		zzvrt.Note("parser error: " + err.Error())
		zzvrt.Check("C13.parsed.valid-schema-text-parses", false)
		return
	}
	g, err := New(Config{DefaultPackageName: "example.com/gen", DefaultOutputName: "root.go", Warner: func(string) {},
		Tags: []string{"json", "yaml", "mapstructure"}})
	if err != nil {
		zzvrt.Unreachable("New failed")
	}
	if err := g.addFile("root.json", &sch); err != nil {
		zzvrt.Note("generator error: " + err.Error())
		zzvrt.Check("C18.parsed.valid-schema-generates", false)
		return
	}
	src := string(g.Sources()["root.go"])
	zzvrt.Emit("root.go", src)
	h := zzvrt.Stage2(src)
	if !zzvrt.S2OK(h) {
		zzvrt.Note(zzvrt.S2Errors(h))
		zzvrt.Check("C01.parsed.emitted-code-compiles", false)
		return
	}
	zzvrt.Check("C01.parsed.emitted-code-compiles", true)
	d := zzvrt.NewDoc()
	zzTypeCorrectObject(d)
	f := zzAllTrue()
	for _, name := range spec.order {
		f = f.and(zzMember(d, name, spec.props[name], spec.required[name], n))
	}
	zzvrt.Assume(zzvrt.Not(f.dontCare))
	// regions of recorded findings owned by other units
	zzvrt.Assume(zzvrt.Iff(f.str, f.strBytes))
	zzvrt.Assume(zzvrt.And(zzvrt.Not(f.itemsUnchecked), zzvrt.And(zzvrt.Not(f.nestedLimits), zzvrt.Not(f.nullObject))))
	_, accepted, ok := zzRunT("C19.parsed", h, g.getRootTypeName(&sch, "root.json"), "json", d)
	if !ok {
		return
	}
	zzvrt.Cover("schema-text:" + string(rune('0'+k)))
	zzvrt.Check("C02.parsed.valid-accepted", zzvrt.Implies(f.all(), accepted))
	zzvrt.Check("C03.parsed.wrong-type-rejected", zzvrt.Implies(f.others("typ"), zzvrt.Iff(accepted, f.typ)))
	zzvrt.Check("C04.parsed.required", zzvrt.Implies(f.others("req"), zzvrt.Iff(accepted, f.req)))
	zzvrt.Check("C05.parsed.bounds-and-multiple-of", zzvrt.Implies(zzvrt.And(f.others("num"), f.mult), zzvrt.Iff(accepted, f.num)))
	zzvrt.Check("C08.parsed.enum", zzvrt.Implies(f.others("enum"), zzvrt.Iff(accepted, f.enum)))
	zzvrt.Check("C13.parsed.spelling-does-not-matter", zzvrt.Iff(accepted, f.all()))
	if strings.Contains(text, "$ref") {
		zzvrt.Check("C10.parsed.each-reference-means-the-definition-it-names", zzvrt.Iff(accepted, f.all()))
	}
}

// zzCorpus: schema documents that combine the composition keywords with references in the ways
// that stress declaration bookkeeping (a composed definition referenced twice, unions of
// references inside composed definitions, recursion through allOf, enums and nullable
// references shared by several positions).  Each goes through the real parser and generator;
// the emitted file must type-check.  name -> known finding, if the unchanged tool fails on it.
var zzCorpus = []struct{ name, text, finding string }{
	{"composed-definition-with-a-union-of-refs-referenced-twice", `{"$id": "https://example.com/c0", "type": "object",
	  "properties": {"owner": {"$ref": "#/$defs/Owner"}, "coOwner": {"$ref": "#/$defs/Owner"}},
	  "$defs": {
	    "Base": {"type": "object", "properties": {"id": {"type": "string"}}, "required": ["id"]},
	    "Cat": {"type": "object", "properties": {"meow": {"type": "boolean"}}},
	    "Dog": {"type": "object", "properties": {"bark": {"type": "boolean"}}},
	    "Owner": {"type": "object", "allOf": [{"$ref": "#/$defs/Base"}],
	      "properties": {"pet": {"anyOf": [{"$ref": "#/$defs/Cat"}, {"$ref": "#/$defs/Dog"}]}}}}}`, "composed-definition-referenced-twice-duplicates-its-method"},
	{"composed-definition-without-rules-with-a-union-of-refs-referenced-twice", `{"$id": "https://example.com/c0b", "type": "object",
	  "properties": {"owner": {"$ref": "#/$defs/Owner"}, "coOwner": {"$ref": "#/$defs/Owner"}, "third": {"$ref": "#/$defs/Owner"}},
	  "$defs": {
	    "Base": {"type": "object", "properties": {"id": {"type": "string"}}},
	    "Cat": {"type": "object", "properties": {"meow": {"type": "boolean"}}, "required": ["meow"]},
	    "Dog": {"type": "object", "properties": {"bark": {"type": "boolean"}}, "required": ["bark"]},
	    "Owner": {"type": "object", "allOf": [{"$ref": "#/$defs/Base"}],
	      "properties": {"pet": {"anyOf": [{"$ref": "#/$defs/Cat"}, {"$ref": "#/$defs/Dog"}]}}}}}`, ""},
	{"definition-that-is-a-union-of-refs-referenced-twice", `{"$id": "https://example.com/c1", "type": "object",
	  "properties": {"first": {"$ref": "#/$defs/Pet"}, "second": {"$ref": "#/$defs/Pet"}},
	  "$defs": {
	    "Cat": {"type": "object", "properties": {"meow": {"type": "boolean"}}, "required": ["meow"]},
	    "Dog": {"type": "object", "properties": {"bark": {"type": "boolean"}}, "required": ["bark"]},
	    "Pet": {"type": "object", "anyOf": [{"$ref": "#/$defs/Cat"}, {"$ref": "#/$defs/Dog"}]}}}`, "union-definition-referenced-twice-duplicates-its-method"},
	{"allOf-of-refs-with-own-properties-and-a-union-in-array-items", `{"$id": "https://example.com/c2", "type": "object",
	  "properties": {"all": {"allOf": [{"$ref": "#/$defs/A"}, {"$ref": "#/$defs/B"}], "properties": {"own": {"type": "integer"}}},
	    "list": {"type": "array", "items": {"anyOf": [{"$ref": "#/$defs/A"}, {"type": "object", "properties": {"z": {"type": "number"}}}]}}},
	  "$defs": {"A": {"type": "object", "properties": {"a": {"type": "string"}}, "required": ["a"]},
	    "B": {"type": "object", "properties": {"b": {"type": "integer", "minimum": 1}}}}}`, ""},
	{"recursion-through-allOf", `{"$id": "https://example.com/c3", "type": "object", "properties": {"tree": {"$ref": "#/$defs/Node"}},
	  "$defs": {"Named": {"type": "object", "properties": {"name": {"type": "string"}}},
	    "Node": {"type": "object", "allOf": [{"$ref": "#/$defs/Named"}],
	      "properties": {"children": {"type": "array", "items": {"$ref": "#/$defs/Node"}}, "parent": {"$ref": "#/$defs/Node"}}}}}`, ""},
	{"shared-enums-nullable-refs-and-closed-objects", `{"$id": "https://example.com/c4", "type": "object",
	  "properties": {"a": {"$ref": "#/$defs/Color"}, "b": {"$ref": "#/$defs/Color"},
	    "c": {"type": "array", "items": {"$ref": "#/$defs/Color"}},
	    "d": {"type": "object", "additionalProperties": false, "properties": {"e": {"$ref": "#/$defs/Level"}}},
	    "f": {"type": "object", "additionalProperties": {"$ref": "#/$defs/Level"}}},
	  "required": ["a"],
	  "$defs": {"Color": {"type": "string", "enum": ["red", "green"]}, "Level": {"type": "integer", "enum": [1, 2, 3]}}}`, ""},
}

// HarnessCorpus: every corpus document generates, and the emitted file type-checks, under the
// default options, --only-models and --extra-imports.
func HarnessCorpus() {
	k := zzvrt.Choice(len(zzCorpus))
	c := zzCorpus[k]
	cfg := Config{DefaultPackageName: "example.com/gen", DefaultOutputName: "root.go", Warner: func(string) {},
		Tags: []string{"json", "yaml", "mapstructure"}}
	switch zzvrt.Choice(3) {
	case 1:
		cfg.OnlyModels = true
	case 2:
		cfg.ExtraImports = true
	}
	var sch schemas.Schema
	if err := json.Unmarshal([]byte(c.text), &sch); err != nil {
		zzvrt.Unreachable("corpus text does not parse: " + err.Error())
	}
	g, err := New(cfg)
	if err != nil {
		zzvrt.Unreachable("New failed")
	}
	zzvrt.Cover("corpus:" + c.name)
	zzvrt.Note("corpus=" + c.name)
	if err := g.addFile("root.json", &sch); err != nil {
		zzvrt.Note("generator error: " + err.Error())
		zzvrt.Check("C18.corpus.valid-schema-generates", false)
		return
	}
	src := string(g.Sources()["root.go"])
	zzvrt.Emit("root.go", src)
	h := zzvrt.Stage2(src)
	if !zzvrt.S2OK(h) {
		zzvrt.Note(zzvrt.S2Errors(h))
	}
	// recorded findings: definitions that are regenerated on every visit (composed with allOf, or
	// themselves a union) emit their UnmarshalJSON once per visit
	zzvrt.Check("C01.corpus.emitted-code-compiles", zzvrt.S2OK(h),
		zzvrt.Dev{Name: "union-definition-referenced-twice-duplicates-its-method", Cond: c.finding == "union-definition-referenced-twice-duplicates-its-method" && !cfg.OnlyModels},
		zzvrt.Dev{Name: "composed-definition-referenced-twice-duplicates-its-method", Cond: c.finding == "composed-definition-referenced-twice-duplicates-its-method" && !cfg.OnlyModels})
}

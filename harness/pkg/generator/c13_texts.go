//go:build verif

package generator

import (
	"encoding/json"
	"strings"

	"github.com/atombender/go-jsonschema/internal/zzvrt"
	"github.com/atombender/go-jsonschema/pkg/schemas"
)

// zzRefTexts: references in the positions where the generator resolves them by different
// routes (property, items, additionalProperties, allOf and anyOf branches), to definitions of
// every flavour: typed objects, a mixin that only adds `required`, the anything-schema, a
// format-typed string, an enum, a definition that itself refers on.
var zzRefTexts = []string{
	`{"$id": "https://example.com/r0", "type": "object", "properties": {
	   "owner": {"allOf": [{"$ref": "#/$defs/Person"}, {"$ref": "#/$defs/NeedsName"}]},
	   "guest": {"anyOf": [{"$ref": "#/$defs/Person"}, {"$ref": "#/$defs/Anything"}]},
	   "since": {"allOf": [{"$ref": "#/$defs/Stamp"}]}},
	  "$defs": {"Person": {"type": "object", "properties": {"name": {"type": "string"}, "age": {"type": "integer"}}},
	    "NeedsName": {"required": ["name"]}, "Anything": {}, "Stamp": {"type": "string", "format": "date-time"}}}`,
	`{"$id": "https://example.com/r1", "type": "object", "properties": {
	   "tags": {"type": "array", "items": {"$ref": "#/$defs/Tag"}},
	   "index": {"type": "object", "additionalProperties": {"$ref": "#/$defs/Alias"}},
	   "pick": {"anyOf": [{"$ref": "#/$defs/Tag"}, {"$ref": "#/$defs/Alias"}, {"type": "object", "properties": {"n": {"type": "number"}}}]}},
	  "$defs": {"Tag": {"type": "string", "enum": ["a", "b"]}, "Alias": {"$ref": "#/$defs/Box"},
	    "Box": {"type": "object", "properties": {"w": {"type": "integer", "minimum": 1}}, "required": ["w"]}}}`,
}

// HarnessC13Texts: each corpus document is spelled twice -- with the current keywords ($id,
// $defs, "#/$defs/...") and with the legacy ones (id, definitions, "#/definitions/...") -- and
// both go through the real parser and generator: the outcome and the emitted bytes are the same.
func HarnessC13Texts() {
	var texts []string
	texts = append(texts, zzSchemaTexts...)
	for _, c := range zzCorpus {
		texts = append(texts, c.text)
	}
	texts = append(texts, zzRefTexts...)
	k := zzvrt.Choice(len(texts))
	text := texts[k]
	if strings.Contains(text, `"$defs"`) && strings.Contains(text, `"definitions"`) {
		return // a document with both blocks has no second spelling
	}
	repl := func(t string, pairs ...string) string {
		for i := 0; i+1 < len(pairs); i += 2 {
			t = strings.ReplaceAll(t, pairs[i], pairs[i+1])
		}
		return t
	}
	cur := repl(text, `"definitions"`, `"$defs"`, "#/definitions/", "#/$defs/", `"id": "https://`, `"$id": "https://`)
	var which []string
	var pairs []string
	if zzvrt.Bool() {
		pairs = append(pairs, `"$id": "https://`, `"id": "https://`) // (the keyword, not a property called id)
		which = append(which, "id")
	}
	if zzvrt.Bool() {
		pairs = append(pairs, `"$defs"`, `"definitions"`)
		which = append(which, "definitions")
	}
	if zzvrt.Bool() {
		pairs = append(pairs, "#/$defs/", "#/definitions/")
		which = append(which, "ref-strings")
	}
	if len(pairs) == 0 {
		return
	}
	old := repl(cur, pairs...)
	cfg := Config{DefaultPackageName: "example.com/gen", DefaultOutputName: "root.go", Warner: func(string) {},
		Tags: []string{"json", "yaml", "mapstructure"}}
	if zzvrt.Bool() {
		cfg.ExtraImports = true
	}
	run := func(t string) (string, string) {
		var sch schemas.Schema
		if err := json.Unmarshal([]byte(t), &sch); err != nil {
			return "", "parse: " + err.Error()
		}
		g, err := New(cfg)
		if err != nil {
			zzvrt.Unreachable("New failed")
		}
		if err := g.addFile("root.json", &sch); err != nil {
			return "", "generate: " + err.Error()
		}
		return string(g.Sources()["root.go"]), ""
	}
	a, ea := run(cur)
	b, eb := run(old)
	zzvrt.Emit("current.go", a)
	zzvrt.Emit("legacy.go", b)
	zzvrt.Emit("current.json", cur)
	zzvrt.Emit("legacy.json", old)
	zzvrt.Cover("respelled-text:" + string(rune('a'+k)) + ":" + strings.Join(which, "+"))
	zzvrt.Note("respelled=" + strings.Join(which, "+") + " errors: " + ea + " / " + eb)
	zzvrt.Check("C13.texts.same-outcome-in-both-spellings", (ea == "") == (eb == ""))
	zzvrt.Check("C13.texts.byte-identical-output-in-both-spellings", a == b)
}

//go:build verif

package generator

import (
	"github.com/atombender/go-jsonschema/internal/zzvrt"
	"github.com/atombender/go-jsonschema/pkg/schemas"
)

// HarnessC10: the same sub-schema used inline and through $ref to a definition: same
// verdict on the same symbolic document; a definition used by two referrers is declared once.
func HarnessC10() {
	pt, ps := zzGen(zzvrt.Param("KINDS", zzEveryKind), zzvrt.Param("DEPTH", 1), true)
	n := zzvrt.Param("N", 2)
	required := zzvrt.Bool()
	srcI, rootI, errI := zzGenerate(zzCloneType(pt), required, false, Config{}, zzCloneDefs(zzAllDefs(ps)))
	srcR, rootR, errR := zzGenerate(zzCloneType(pt), required, true, Config{}, zzCloneDefs(zzAllDefs(ps)))
	cls := ps.kind
	if ps.nullable {
		cls += "?"
	}
	if required {
		cls += "!"
	}
	zzvrt.Note("shape=" + cls)
	if errI != nil || errR != nil {
		zzvrt.Check("C10.both-generate", errI == nil && errR == nil)
		return
	}
	zzvrt.Emit("inline.go", srcI)
	zzvrt.Emit("ref.go", srcR)
	hI, hR := zzvrt.Stage2(srcI), zzvrt.Stage2(srcR)
	if !zzvrt.S2OK(hI) || !zzvrt.S2OK(hR) {
		zzvrt.Note(zzvrt.S2Errors(hI) + zzvrt.S2Errors(hR))
		zzvrt.Check("C10.both-compile", false)
		return
	}
	d := zzvrt.NewDoc()
	zzTypeCorrectObject(d)
	f := zzMember(d, "x", ps, required, n)
	zzvrt.Assume(zzvrt.Not(f.dontCare))
	rI := zzvrt.Unmarshal(hI, rootI, "json", d)
	rR := zzvrt.Unmarshal(hR, rootR, "json", d)
	sI, sR := zzvrt.RStatus(rI), zzvrt.RStatus(rR)
	zzvrt.Cover("shape:" + cls)
	if sI == 2 || sR == 2 {
		zzvrt.Note(zzvrt.RMsg(rI) + " / " + zzvrt.RMsg(rR))
		zzvrt.Check("C10.no-panic", false)
		return
	}
	hasRule := zzHasValueRule(ps)
	zzvrt.Check("C10.ref-equals-inline", (sI == 0) == (sR == 0),
		zzvrt.Dev{Name: "nullable-definition-unvalidated", Cond: ps.nullable && hasRule},
		zzvrt.Dev{Name: "ref-to-format-definition-loses-unmarshaler", Cond: ps.format != "" && ps.kind == "string"},
		zzvrt.Dev{Name: "ref-to-array-definition-unvalidated", Cond: ps.kind == "array"})
}

// HarnessC10Shared: one definition, two referrers (and a recursive self reference): exactly
// one Go type is declared for it and generation terminates.
func HarnessC10Shared() {
	def := &schemas.Type{Type: schemas.TypeList{"object"}, Properties: map[string]*schemas.Type{
		"v":    {Type: schemas.TypeList{"integer"}},
		"next": {Ref: "#/$defs/Node"},
	}}
	// the recursive definition may also collect typed additional properties (it is still a
	// struct, and its self-reference still has to be a pointer)
	withAP := zzvrt.Bool()
	if withAP {
		def.AdditionalProperties = &schemas.Type{Type: schemas.TypeList{"string"}}
	}
	legacy := zzvrt.Bool()
	ref := "#/$defs/Node"
	if legacy {
		ref = "#/definitions/Node"
		def.Properties["next"].Ref = ref
	}
	root := &schemas.Type{Type: schemas.TypeList{"object"}, Properties: map[string]*schemas.Type{
		"first": {Ref: ref}, "second": {Ref: ref},
		"list": {Type: schemas.TypeList{"array"}, Items: &schemas.Type{Ref: ref}},
	}}
	sch := &schemas.Schema{ObjectAsType: (*schemas.ObjectAsType)(root), ID: "https://example.com/root",
		Definitions: schemas.Definitions{"Node": def}}
	g, err := New(Config{DefaultPackageName: "example.com/gen", DefaultOutputName: "root.go", Warner: func(string) {},
		Tags: []string{"json", "yaml", "mapstructure"}})
	if err != nil {
		zzvrt.Unreachable("New failed")
	}
	if err := g.addFile("root.json", sch); err != nil {
		zzvrt.Note(err.Error())
		zzvrt.Check("C10.recursive-definition-generates", false)
		return
	}
	src := string(g.Sources()["root.go"])
	zzvrt.Emit("root.go", src)
	h := zzvrt.Stage2(src)
	zzvrt.Cover("refs:" + ref + map[bool]string{true: "+additionalProperties", false: ""}[withAP])
	if !zzvrt.S2OK(h) {
		zzvrt.Note(zzvrt.S2Errors(h))
		zzvrt.Check("C10.recursive-definition-compiles", false)
		return
	}
	zzvrt.Check("C10.one-type-per-definition", zzvrt.S2HasType(h, "Node") && !zzvrt.S2HasType(h, "Node_1") && !zzvrt.S2HasType(h, "RootJsonFirst"))
	// documents nested 3 deep decode
	d := zzvrt.NewDoc()
	zzTypeCorrectObject(d)
	for _, p := range []string{"first", "first/next", "first/next/next"} {
		zzvrt.Assume(zzvrt.DIs(d, p, zzvrt.KObject))
		zzvrt.Assume(zzvrt.And(zzvrt.DIs(d, p+"/v", zzvrt.KNumber), zzvrt.DIsInt(d, p+"/v")))
		if withAP {
			// undeclared members are strings (or absent); none is named like the collecting field
			for i := 0; i < zzvrt.Param("E", 1); i++ {
				ep := p + "/+" + string(rune('0'+i))
				zzvrt.Assume(zzvrt.Or(zzvrt.DIs(d, ep, zzvrt.KAbsent), zzvrt.DIs(d, ep, zzvrt.KString)))
			}
			zzvrt.Assume(zzvrt.DIs(d, p+"/AdditionalProperties", zzvrt.KAbsent))
			zzvrt.Assume(zzvrt.DIs(d, p+"/additionalproperties", zzvrt.KAbsent))
		}
	}
	zzvrt.Assume(zzvrt.DIs(d, "first/next/next/next", zzvrt.KAbsent))
	zzvrt.Assume(zzvrt.DIs(d, "second", zzvrt.KAbsent))
	zzvrt.Assume(zzvrt.DIs(d, "list", zzvrt.KAbsent))
	r, accepted, ok := zzRunT("C10", h, g.getRootTypeName(sch, "root.json"), "json", d)
	if !ok {
		return
	}
	zzvrt.Check("C10.recursive-document-accepted", accepted)
	if accepted {
		zzvrt.Check("C10.recursive-value-kept", zzvrt.OInt(r, "First/Next/Next/V") == zzvrt.DInt(d, "first/next/next/v"))
	}
}

// HarnessC10Names: K definitions whose names normalise to ONE Go identifier, each with a
// schema drawn from a small pool (repetitions allowed, so equal schemas may share a
// declaration and different ones get suffixed names); every property that references a
// definition accepts exactly the documents of ITS definition's schema.
func HarnessC10Names() {
	switch zzvrt.Param("NESTED", 1) {
	case 2: // only the nested-vs-definition mode
		zzNestedNameCollision()
		return
	case 1:
		if zzvrt.Choice(2) == 1 {
			zzNestedNameCollision()
			return
		}
	}
	names := []string{"line-ref", "lineRef", "line_ref", "LineRef"}[:zzvrt.Param("NAMES", 3)]
	pool := []string{"integer", "string", "boolean", "enum:a,b", "enum:a,c"}[:zzvrt.Param("POOLKINDS", 5)]
	defs := schemas.Definitions{}
	props := map[string]*schemas.Type{}
	specs := map[string]*zzSpec{}
	cls := ""
	anyEnum := false
	for i, nm := range names {
		k := pool[zzvrt.Choice(len(pool))]
		p := "p" + string(rune('0'+i))
		props[p] = &schemas.Type{Ref: "#/$defs/" + nm}
		if len(k) > 5 && k[:5] == "enum:" {
			// string enums that differ in one member
			vals := []string{k[5:6], k[7:8]}
			defs[nm] = &schemas.Type{Type: schemas.TypeList{"string"}, Enum: []interface{}{vals[0], vals[1]}}
			specs[p] = &zzSpec{kind: "enum-string", enumS: vals}
			cls += "e" + vals[1]
			anyEnum = true
			continue
		}
		defs[nm] = &schemas.Type{Type: schemas.TypeList{k}}
		specs[p] = &zzSpec{kind: k}
		cls += k[:1]
	}
	root := &schemas.Type{Type: schemas.TypeList{"object"}, Properties: props}
	sch := &schemas.Schema{ObjectAsType: (*schemas.ObjectAsType)(root), ID: "https://example.com/root", Definitions: defs}
	g, err := New(Config{DefaultPackageName: "example.com/gen", DefaultOutputName: "root.go", Warner: func(string) {},
		Tags: []string{"json", "yaml", "mapstructure"}})
	if err != nil {
		zzvrt.Unreachable("New failed")
	}
	zzvrt.Witness("schema", sch)
	zzvrt.Note("kinds=" + cls)
	if err := g.addFile("root.json", sch); err != nil {
		zzvrt.Note(err.Error())
		zzvrt.Check("C10.names.generates", false)
		return
	}
	src := string(g.Sources()["root.go"])
	zzvrt.Emit("root.go", src)
	h := zzvrt.Stage2(src)
	if !zzvrt.S2OK(h) {
		zzvrt.Note(zzvrt.S2Errors(h))
		zzvrt.Check("C10.names.compiles", false)
		zzvrt.Check("C14.names.distinct-schema-types-get-distinct-type-names", false)
		return
	}
	zzvrt.Check("C14.names.distinct-schema-types-get-distinct-type-names", true)
	d := zzvrt.NewDoc()
	zzTypeCorrectObject(d)
	f := zzAllTrue()
	for i := range names {
		p := "p" + string(rune('0'+i))
		f = f.and(zzMember(d, p, specs[p], false, 1))
	}
	zzvrt.Assume(zzvrt.Not(f.dontCare))
	_, accepted, ok := zzRunT("C10.names", h, g.getRootTypeName(sch, "root.json"), "json", d)
	if !ok {
		return
	}
	zzvrt.Cover("colliding-names:" + cls)
	zzvrt.Check("C10.names.each-reference-means-its-own-definition", zzvrt.Iff(accepted, f.all()))
	zzvrt.Check("C03.names.wrong-type-rejected-through-colliding-definition-names", zzvrt.Implies(f.others("typ"), zzvrt.Iff(accepted, f.typ)))
	if anyEnum {
		zzvrt.Check("C08.names.each-reference-has-its-own-enum", zzvrt.Implies(f.others("enum"), zzvrt.Iff(accepted, f.enum)))
	}
}

// zzNestedNameCollision: a definition whose name is already the Go name that an INLINE nested
// type of another definition gets (definition Order with the inline object property item ->
// OrderItem, and a definition named OrderItem or order-item): each reference still means its
// own definition, whatever their members require.
func zzNestedNameCollision() {
	second := []string{"OrderItem", "order-item", "orderItem"}[zzvrt.Choice(3)]
	ka, kb := "string", "string"
	if zzvrt.Bool() {
		ka = "integer"
	}
	reqA, reqB := false, zzvrt.Bool()
	member := func(k string, req bool) (*schemas.Type, *zzSpec) {
		t := &schemas.Type{Type: schemas.TypeList{"object"}, Properties: map[string]*schemas.Type{"v": {Type: schemas.TypeList{k}}}}
		s := &zzSpec{kind: "object", props: map[string]*zzSpec{"v": {kind: k}}, order: []string{"v"}, required: map[string]bool{"v": req}}
		if req {
			t.Required = []string{"v"}
		}
		return t, s
	}
	inlineT, inlineS := member(ka, reqA)
	defT, defS := member(kb, reqB)
	order := &schemas.Type{Type: schemas.TypeList{"object"}, Properties: map[string]*schemas.Type{"item": inlineT}}
	orderS := &zzSpec{kind: "object", props: map[string]*zzSpec{"item": inlineS}, order: []string{"item"}, required: map[string]bool{}}
	defs := schemas.Definitions{"Order": order, second: defT}
	root := &schemas.Type{Type: schemas.TypeList{"object"}, Properties: map[string]*schemas.Type{
		"o": {Ref: "#/$defs/Order"}, "i": {Ref: "#/$defs/" + second},
		"list": {Type: schemas.TypeList{"array"}, Items: &schemas.Type{Ref: "#/$defs/" + second}}}}
	sch := &schemas.Schema{ObjectAsType: (*schemas.ObjectAsType)(root), ID: "https://example.com/root", Definitions: defs}
	g, err := New(Config{DefaultPackageName: "example.com/gen", DefaultOutputName: "root.go", Warner: func(string) {},
		Tags: []string{"json", "yaml", "mapstructure"}})
	if err != nil {
		zzvrt.Unreachable("New failed")
	}
	zzvrt.Witness("schema", sch)
	zzvrt.Note("nested-vs-definition: " + second)
	if err := g.addFile("root.json", sch); err != nil {
		zzvrt.Note(err.Error())
		zzvrt.Check("C10.names.generates", false)
		return
	}
	src := string(g.Sources()["root.go"])
	zzvrt.Emit("root.go", src)
	h := zzvrt.Stage2(src)
	if !zzvrt.S2OK(h) {
		zzvrt.Note(zzvrt.S2Errors(h))
		zzvrt.Check("C10.names.compiles", false)
		zzvrt.Check("C14.names.distinct-schema-types-get-distinct-type-names", false)
		return
	}
	zzvrt.Check("C14.names.distinct-schema-types-get-distinct-type-names", true)
	d := zzvrt.NewDoc()
	zzTypeCorrectObject(d)
	f := zzMember(d, "o", orderS, false, 1).and(zzMember(d, "i", defS, false, 1))
	f = f.and(zzMember(d, "list", &zzSpec{kind: "array", items: defS}, false, 1))
	zzvrt.Assume(zzvrt.Not(f.dontCare))
	zzvrt.Assume(zzvrt.And(zzvrt.Not(f.itemsUnchecked), zzvrt.Not(f.nullObject)))
	_, accepted, ok := zzRunT("C10.names", h, g.getRootTypeName(sch, "root.json"), "json", d)
	if !ok {
		return
	}
	zzvrt.Cover("nested-vs-definition:" + second)
	zzvrt.Check("C10.names.each-reference-means-its-own-definition", zzvrt.Iff(accepted, f.all()))
	zzvrt.Check("C04.names.required-of-the-referenced-definition", zzvrt.Implies(f.others("req"), zzvrt.Iff(accepted, f.req)))
	zzvrt.Check("C03.names.wrong-type-rejected-through-colliding-definition-names", zzvrt.Implies(f.others("typ"), zzvrt.Iff(accepted, f.typ)))
}

//go:build verif

package generator

import (
	"github.com/atombender/go-jsonschema/internal/zzvrt"
	"github.com/atombender/go-jsonschema/pkg/codegen"
)

// HarnessC04L2: requiredValidator + jsonFormatter ordering.  A struct with three members
// (a: plain, b: nullable, c: nullable) and a nondeterministic subset of them required; all
// presence flags of the document are symbolic at once, so every subset of removed keys is
// one query: accepted iff every required key is present (null counts as present).
func HarnessC04L2() {
	reqA, reqB, reqC := zzvrt.Bool(), zzvrt.Bool(), zzvrt.Bool()
	intT := codegen.PrimitiveType{Type: "int"}
	var ta codegen.Type = intT
	if !reqA {
		ta = codegen.WrapTypeInPointer(intT) // optional non-nullable properties are pointers
	}
	st := &codegen.StructType{Fields: []codegen.StructField{
		zzField("A", "a", ta, reqA),
		zzField("B", "b", codegen.WrapTypeInPointer(intT), reqB),
		zzField("C", "c", codegen.WrapTypeInPointer(codegen.PrimitiveType{Type: "string"}), reqC),
	}}
	var validators []validator
	if reqA {
		validators = append(validators, &requiredValidator{jsonName: "a", declName: "T"})
	}
	if reqB {
		validators = append(validators, &requiredValidator{jsonName: "b", declName: "T"})
	}
	if reqC {
		validators = append(validators, &requiredValidator{jsonName: "c", declName: "T"})
	}
	if len(validators) == 0 {
		return
	}
	format := "json"
	extra := zzvrt.Bool()
	if extra && zzvrt.Bool() {
		format = "yaml"
	}
	src := zzEmit(st, validators, extra)
	h, ok := zzMaterialise("C04.L2", src)
	if !ok {
		return
	}
	d := zzvrt.NewDoc()
	zzTypeCorrectObject(d)
	num := func(p string, nullable bool) bool {
		ok := zzvrt.Or(zzvrt.DIs(d, p, zzvrt.KAbsent), zzvrt.And(zzvrt.DIs(d, p, zzvrt.KNumber), zzvrt.DIsInt(d, p)))
		if nullable {
			ok = zzvrt.Or(ok, zzvrt.DIs(d, p, zzvrt.KNull))
		}
		return ok
	}
	zzvrt.Assume(num("a", !reqA))
	zzvrt.Assume(num("b", true))
	zzvrt.Assume(zzvrt.Or(zzvrt.DIs(d, "c", zzvrt.KAbsent), zzvrt.Or(zzvrt.DIs(d, "c", zzvrt.KNull), zzvrt.DIs(d, "c", zzvrt.KString))))
	_, accepted, ok := zzRun("C04.L2", h, format, d)
	if !ok {
		return
	}
	present := func(p string) bool { return zzvrt.Not(zzvrt.DIs(d, p, zzvrt.KAbsent)) }
	expected := true
	if reqA {
		expected = zzvrt.And(expected, present("a"))
	}
	if reqB {
		expected = zzvrt.And(expected, present("b"))
	}
	if reqC {
		expected = zzvrt.And(expected, present("c"))
	}
	zzvrt.Cover("format:" + format)
	zzvrt.Check("C04.L2.accept-iff-required-present", zzvrt.Iff(accepted, expected))
}

//go:build verif

package generator

import (
	"github.com/atombender/go-jsonschema/internal/zzvrt"
	"github.com/atombender/go-jsonschema/pkg/schemas"
)

// HarnessC16: one symbolic schema generated under two configurations that differ in exactly
// one output-shaping option; the two emitted files must relate as the option prescribes.
func HarnessC16() {
	var pt *schemas.Type
	var ps *zzSpec
	required, viaRef := false, false
	if zzvrt.Choice(2) == 1 {
		// composition shapes: anyOf / allOf whose branches are $refs to definitions
		mk := func(name string) *schemas.Type {
			return &schemas.Type{Type: schemas.TypeList{"object"}, Properties: map[string]*schemas.Type{
				name: {Type: schemas.TypeList{"string"}, MinLength: 1}}, Required: []string{name}}
		}
		ps = &zzSpec{kind: "anyOf-of-refs", defs: map[string]*schemas.Type{"Cat": mk("meow"), "Dog": mk("bark")}}
		pt = &schemas.Type{AnyOf: []*schemas.Type{{Ref: "#/$defs/Cat"}, {Ref: "#/$defs/Dog"}}}
		if zzvrt.Bool() {
			ps.kind = "allOf-of-refs"
			pt = &schemas.Type{AllOf: []*schemas.Type{{Ref: "#/$defs/Cat"}, {Ref: "#/$defs/Dog"}}}
		}
		required = zzvrt.Bool()
	} else {
		pt, ps = zzGen(zzvrt.Param("KINDS", zzEveryKind), zzvrt.Param("DEPTH", 1), true)
		required = zzvrt.Bool()
		viaRef = zzvrt.Bool()
	}
	base := Config{ExtraImports: true}
	other := base
	mode := ""
	switch zzvrt.Choice(3) {
	case 0:
		mode = "only-models"
		other.OnlyModels = true
	case 1:
		mode = "tags"
		// any tag list, with or without "json" (the base run uses json, yaml, mapstructure)
		lists := [][]string{{"json"}, {"yaml"}, {"json", "custom"}, {"mapstructure", "toml"}}
		other.Tags = lists[zzvrt.Choice(len(lists))]
	default:
		mode = "no-yaml"
		other.ExtraImports = false
	}
	// the schema is built twice from the same symbolic leaves (the generator mutates it)
	srcA, _, errA := zzGenerate(zzCloneType(pt), required, viaRef, base, zzCloneDefs(zzAllDefs(ps)))
	srcB, _, errB := zzGenerate(zzCloneType(pt), required, viaRef, other, zzCloneDefs(zzAllDefs(ps)))
	zzvrt.Note("mode=" + mode + " kind=" + ps.kind)
	zzvrt.Cover("mode:" + mode + "/kind:" + ps.kind)
	if (errA != nil) != (errB != nil) {
		zzvrt.Check("C16.same-success", false)
		return
	}
	if errA != nil {
		return
	}
	zzvrt.Emit("a.go", srcA)
	zzvrt.Emit("b.go", srcB)
	diff := zzvrt.CompareDecls(srcA, srcB, mode)
	if diff != "" {
		zzvrt.Note("difference: " + diff)
	}
	zzvrt.Check("C16."+mode, diff == "")
}

//go:build verif

package generator

import "github.com/atombender/go-jsonschema/internal/zzvrt"

// HarnessC17: with --extra-imports every generated type has UnmarshalJSON and UnmarshalYAML;
// on the same symbolic type-correct document (valid, or violating value rules) both give
// the same verdict and the same decoded value.
func HarnessC17() {
	mask := zzvrt.Param("KINDS", zzKString|zzKNumber|zzKInteger|zzKBoolean|zzKEnumString)
	depth := zzvrt.Param("DEPTH", 0)
	n := zzvrt.Param("N", 2)
	pt, ps := zzGen(mask, depth, true)
	if ps.hasDefault && ps.nullable {
		return // recorded finding: default into a pointer field does not compile (C09)
	}
	if !zzAssumeDefaultValid(ps) {
		return
	}
	required := zzvrt.Bool()
	viaRef := false
	if zzvrt.Param("REF", 1) == 1 {
		viaRef = zzvrt.Bool()
	}
	cfg := Config{ExtraImports: true}
	if zzvrt.Param("TAGSETS", 1) == 1 && zzvrt.Bool() {
		// the YAML method binds by key name, not by the yaml tag: it must be there without it too
		cfg.Tags = []string{"json", "mapstructure"}
	}
	src, rootType, err := zzGenerate(pt, required, viaRef, cfg)
	if err != nil {
		zzvrt.Note("generator error: " + err.Error())
		zzvrt.Check("C17.valid-schema-generates", false)
		return
	}
	zzvrt.Emit("root.go", src)
	h := zzvrt.Stage2(src)
	if !zzvrt.S2OK(h) {
		zzvrt.Note(zzvrt.S2Errors(h))
		zzvrt.Check("C17.emitted-code-compiles", false)
		return
	}
	d := zzvrt.NewDoc()
	zzTypeCorrectObject(d)
	f := zzMember(d, "x", ps, required, n)
	// C17 quantifies over type-correct documents (valid or violating value/required rules)
	zzvrt.Assume(zzvrt.And(f.typ, zzvrt.Not(f.dontCare)))
	rj := zzvrt.Unmarshal(h, rootType, "json", d)
	ry := zzvrt.Unmarshal(h, rootType, "yaml", d)
	sj, sy := zzvrt.RStatus(rj), zzvrt.RStatus(ry)
	cls := ps.kind
	if ps.nullable {
		cls += "?"
	}
	if required {
		cls += "!"
	}
	if viaRef {
		cls += "@ref"
	}
	zzvrt.Cover("shape:" + cls)
	zzvrt.Note("shape=" + cls)
	if sj == 2 || sy == 2 {
		zzvrt.Note(zzvrt.RMsg(rj) + " / " + zzvrt.RMsg(ry))
		zzvrt.Check("C17.no-panic", false)
		return
	}
	zzvrt.Check("C17.same-verdict", (sj == 0) == (sy == 0))
	if sj == 0 && sy == 0 {
		zzvrt.Check("C17.same-value", zzvrt.REqual(rj, ry))
	}
}

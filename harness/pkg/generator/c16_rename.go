//go:build verif

package generator

import (
	"github.com/atombender/go-jsonschema/internal/zzvrt"
	"github.com/atombender/go-jsonschema/pkg/schemas"
)

// HarnessC16Rename: the identifier-shaping options (--struct-name-from-title,
// --schema-root-type, --capitalization) change identifiers ONLY.  One symbolic schema -- a root
// object with a title, a string property and a property x of any kind of the grammar, among them
// objects that collect additional properties -- is generated without the option and with it; the
// names the option produces are drawn from a pool that contains identifiers the emitted methods
// use themselves (Plain, raw, err).  Both emitted programs run on the SAME symbolic document:
// same verdict, both reproduce the document when marshalled back, both collect exactly the
// undeclared members.
func HarnessC16Rename() {
	pt, ps := zzGen(zzvrt.Param("KINDS", zzEveryKind), zzvrt.Param("DEPTH", 1), true)
	required := zzvrt.Bool()
	titles := []string{"Plain", "Widget Thing", "raw", "err"}[:zzvrt.Param("TITLES", 2)]
	title := titles[zzvrt.Choice(len(titles))]
	base := Config{}
	other := base
	mode := ""
	switch zzvrt.Choice(3) {
	case 0:
		mode = "struct-name-from-title"
		other.StructNameFromTitle = true
	case 1:
		mode = "schema-root-type"
		other.SchemaMappings = []SchemaMapping{{SchemaID: "https://example.com/root", PackageName: "example.com/gen", OutputName: "root.go",
			RootType: []string{"Plain", "Renamed", "Raw", "Err"}[zzvrt.Choice(zzvrt.Param("TITLES", 2))]}}
	default:
		mode = "capitalization"
		other.Capitalizations = [][]string{{"ID", "P"}, {"NAME", "X"}}[zzvrt.Choice(2)]
	}
	gen := func(cfg Config) (string, string, error) {
		root := &schemas.Type{Type: schemas.TypeList{"object"}, Title: title, Properties: map[string]*schemas.Type{
			"x": zzCloneType(pt), "name": {Type: schemas.TypeList{"string"}}, "id": {Type: schemas.TypeList{"integer"}}}}
		if required {
			root.Required = []string{"x"}
		}
		var defs schemas.Definitions
		for k, v := range zzCloneDefs(zzAllDefs(ps)) {
			if defs == nil {
				defs = schemas.Definitions{}
			}
			defs[k] = v
		}
		sch := &schemas.Schema{ObjectAsType: (*schemas.ObjectAsType)(root), ID: "https://example.com/root", Definitions: defs}
		cfg.DefaultPackageName, cfg.DefaultOutputName, cfg.Warner = "example.com/gen", "root.go", func(string) {}
		cfg.Tags = []string{"json", "yaml", "mapstructure"}
		g, err := New(cfg)
		if err != nil {
			return "", "", err
		}
		zzvrt.Witness("schema", sch)
		if err := g.addFile("root.json", sch); err != nil {
			return "", "", err
		}
		return string(g.Sources()["root.go"]), g.getRootTypeName(sch, "root.json"), nil
	}
	srcA, rootA, errA := gen(base)
	srcB, rootB, errB := gen(other)
	zzvrt.Note("mode=" + mode + " kind=" + ps.kind + " title=" + title)
	zzvrt.Cover("rename:" + mode + "/kind:" + ps.kind)
	if (errA != nil) != (errB != nil) {
		zzvrt.Check("C16.rename.same-success", false)
		return
	}
	if errA != nil {
		return
	}
	zzvrt.Emit("a.go", srcA)
	zzvrt.Emit("b.go", srcB)
	ha, hb := zzvrt.Stage2(srcA), zzvrt.Stage2(srcB)
	if !zzvrt.S2OK(ha) {
		return // the base output is C01's business
	}
	if !zzvrt.S2OK(hb) {
		zzvrt.Note(zzvrt.S2Errors(hb))
		zzvrt.Check("C16.rename.output-still-compiles", false)
		return
	}
	d := zzvrt.NewDoc()
	zzTypeCorrectObject(d)
	zzvrt.Assume(zzvrt.Or(zzvrt.DIs(d, "name", zzvrt.KAbsent), zzvrt.DIs(d, "name", zzvrt.KString)))
	zzvrt.Assume(zzvrt.Or(zzvrt.DIs(d, "id", zzvrt.KAbsent), zzvrt.And(zzvrt.DIs(d, "id", zzvrt.KNumber), zzvrt.DIsInt(d, "id"))))
	f := zzMember(d, "x", ps, required, zzvrt.Param("N", 1))
	zzvrt.Assume(zzvrt.Not(f.dontCare))
	if ps.kind == "object-ap" {
		zzvrt.Assume(zzvrt.DIs(d, "x/AdditionalProperties", zzvrt.KAbsent))
	}
	ra, accA, ok := zzRunT("C16.rename", ha, rootA, "json", d)
	if !ok {
		return
	}
	rb, accB, ok := zzRunT("C16.rename", hb, rootB, "json", d)
	if !ok {
		return
	}
	zzvrt.Check("C16.rename.same-verdict", accA == accB)
	if accA && accB {
		zzvrt.Check("C16.rename.same-value-marshalled-back", zzvrt.Iff(zzvrt.RMarshalBack(ra, d), zzvrt.RMarshalBack(rb, d)))
		if ps.kind == "object-ap" && !zzvrt.OIsNil(ra, "X") && !zzvrt.OIsNil(rb, "X") {
			zzvrt.Check("C16.rename.same-additional-properties-collected",
				zzvrt.Iff(zzvrt.RExtrasCollected(ra, "X/AdditionalProperties", d, "x"), zzvrt.RExtrasCollected(rb, "X/AdditionalProperties", d, "x")))
		}
	}
}

//go:build verif

package generator

import (
	"github.com/atombender/go-jsonschema/internal/zzvrt"
	"github.com/atombender/go-jsonschema/pkg/schemas"
)

// HarnessC11Nested: a composition inside a composition.  x = allOf[$ref Named, Second] where
// Second (inline or a definition) declares the property owner, which is itself
// allOf[$ref D, Extra] -- D being the SAME definition the outer allOf refers to, or another
// definition with the same content.  Nothing here is recursive: x is valid iff it satisfies
// Named and, when owner is present, owner satisfies D and Extra (its required email).
func HarnessC11Nested() {
	n := zzvrt.Param("N", 2)
	mkNamed := func() (*schemas.Type, *zzSpec) {
		t := &schemas.Type{Type: schemas.TypeList{"object"}, Properties: map[string]*schemas.Type{"name": {Type: schemas.TypeList{"string"}}}}
		s := &zzSpec{kind: "object", props: map[string]*zzSpec{"name": {kind: "string"}}, order: []string{"name"}, required: map[string]bool{}}
		return t, s
	}
	named, namedS := mkNamed()
	if zzvrt.Bool() {
		l := zzLimit()
		named.Properties["name"].MinLength, namedS.props["name"].minLen = l, l
	}
	if zzvrt.Bool() {
		named.Required, namedS.required["name"] = []string{"name"}, true
	}
	defs := schemas.Definitions{"Named": named}
	innerRef := "#/$defs/Named"
	cls := "inner-refers-to-the-same-definition"
	if zzvrt.Bool() {
		other := zzCloneType(named)
		defs["Other"] = other
		innerRef = "#/$defs/Other"
		cls = "inner-refers-to-another-definition"
	}
	extra := &schemas.Type{Type: schemas.TypeList{"object"}, Properties: map[string]*schemas.Type{"email": {Type: schemas.TypeList{"string"}}}}
	extraS := &zzSpec{kind: "object", props: map[string]*zzSpec{"email": {kind: "string"}}, order: []string{"email"}, required: map[string]bool{}}
	if zzvrt.Bool() {
		extra.Required, extraS.required["email"] = []string{"email"}, true
		cls += ",email-required"
	}
	owner := &schemas.Type{AllOf: []*schemas.Type{{Ref: innerRef}, extra}}
	second := &schemas.Type{Type: schemas.TypeList{"object"}, Properties: map[string]*schemas.Type{"owner": owner}}
	var secondBranch *schemas.Type = second
	if zzvrt.Bool() {
		defs["Second"] = second
		secondBranch = &schemas.Type{Ref: "#/$defs/Second"}
		cls += ",second-branch-by-ref"
	}
	x := &schemas.Type{AllOf: []*schemas.Type{{Ref: "#/$defs/Named"}, secondBranch}}
	root := &schemas.Type{Type: schemas.TypeList{"object"}, Properties: map[string]*schemas.Type{"x": x}, Required: []string{"x"}}
	sch := &schemas.Schema{ObjectAsType: (*schemas.ObjectAsType)(root), ID: "https://example.com/root", Definitions: defs}
	g, err := New(Config{DefaultPackageName: "example.com/gen", DefaultOutputName: "root.go", Warner: func(string) {},
		Tags: []string{"json", "yaml", "mapstructure"}})
	if err != nil {
		zzvrt.Unreachable("New failed")
	}
	zzvrt.Witness("schema", sch)
	zzvrt.Note("shape=" + cls)
	if err := g.addFile("root.json", sch); err != nil {
		zzvrt.Note("generator error: " + err.Error())
		zzvrt.Check("C11.nested.valid-schema-generates", false)
		return
	}
	src := string(g.Sources()["root.go"])
	zzvrt.Emit("root.go", src)
	h := zzvrt.Stage2(src)
	if !zzvrt.S2OK(h) {
		zzvrt.Note(zzvrt.S2Errors(h))
		zzvrt.Check("C11.nested.emitted-code-compiles", false)
		return
	}
	d := zzvrt.NewDoc()
	zzTypeCorrectObject(d)
	zzvrt.Assume(zzvrt.DIs(d, "x", zzvrt.KObject))
	zzvrt.Assume(zzvrt.Or(zzvrt.DIs(d, "x/owner", zzvrt.KAbsent), zzvrt.DIs(d, "x/owner", zzvrt.KObject)))
	for _, m := range []string{"x/name", "x/owner/name", "x/owner/email"} {
		zzvrt.Assume(zzvrt.Or(zzvrt.DIs(d, m, zzvrt.KAbsent), zzvrt.DIs(d, m, zzvrt.KString)))
	}
	_, accepted, ok := zzRunT("C11.nested", h, g.getRootTypeName(sch, "root.json"), "json", d)
	if !ok {
		return
	}
	zzvrt.Cover("nested-composition:" + cls)
	outer := zzValue(d, "x", namedS, n, 0)
	in1 := zzValue(d, "x/owner", namedS, n, 0)
	in2 := zzValue(d, "x/owner", extraS, n, 0)
	noOwner := zzvrt.DIs(d, "x/owner", zzvrt.KAbsent)
	all := zzvrt.And(outer.all(), zzvrt.Or(noOwner, zzvrt.And(in1.all(), in2.all())))
	allB := zzvrt.And(outer.allBytes(), zzvrt.Or(noOwner, zzvrt.And(in1.allBytes(), in2.allBytes())))
	zzvrt.Assume(zzvrt.Iff(all, allB)) // outside the byte/rune length finding (C06)
	zzvrt.Check("C11.nested.allOf-inside-an-allOf-branch-is-still-a-conjunction", zzvrt.Iff(accepted, all))
}

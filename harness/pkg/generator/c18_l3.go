//go:build verif

package generator

import (
	"github.com/atombender/go-jsonschema/internal/zzvrt"
	"github.com/atombender/go-jsonschema/pkg/schemas"
)

// zzFault returns an ungeneratable schema element.
func zzFault(kind int) (*schemas.Type, string) {
	switch kind {
	case 0:
		return &schemas.Type{Type: schemas.TypeList{"numbr"}}, "unknown-type"
	case 1:
		return &schemas.Type{Ref: "#/$defs/NoSuchDefinition"}, "ref-to-missing-definition"
	case 2:
		return &schemas.Type{Type: schemas.TypeList{"string"}, Enum: []interface{}{}}, "empty-enum"
	case 3:
		return &schemas.Type{Enum: []interface{}{map[string]interface{}{"k": 1.0}}}, "non-primitive-enum"
	default:
		return &schemas.Type{Ref: "other.json#/nowhere"}, "ref-not-pointing-to-definition"
	}
}

// HarnessC18: a valid schema with ONE ungeneratable element injected at a nondeterministic
// position: generation must return an error (and never panic).
func HarnessC18() {
	fault, fname := zzFault(zzvrt.Choice(5))
	good := func() *schemas.Type { return &schemas.Type{Type: schemas.TypeList{"string"}} }
	obj := func(props map[string]*schemas.Type) *schemas.Type {
		return &schemas.Type{Type: schemas.TypeList{"object"}, Properties: props}
	}
	root := obj(map[string]*schemas.Type{"ok": good()})
	defs := schemas.Definitions{"Good": obj(map[string]*schemas.Type{"g": good()})}
	pos := ""
	swallowed := false
	switch zzvrt.Choice(20) {
	case 16:
		pos = "items-of-an-array-DEFINITION"
		defs["List"] = &schemas.Type{Type: schemas.TypeList{"array"}, Items: fault}
		root.Properties["l"] = &schemas.Type{Ref: "#/$defs/List"}
	case 17:
		pos = "items-of-a-nested-array-definition"
		defs["Grid"] = &schemas.Type{Type: schemas.TypeList{"array"}, Items: &schemas.Type{Type: schemas.TypeList{"array"}, Items: fault}}
	case 18:
		pos = "additionalProperties-of-a-map-DEFINITION"
		defs["Dict"] = &schemas.Type{Type: schemas.TypeList{"object"}, AdditionalProperties: fault}
		root.Properties["m"] = &schemas.Type{Ref: "#/$defs/Dict"}
	case 19:
		pos = "additionalProperties-of-a-map-property"
		root.Properties["m"] = &schemas.Type{Type: schemas.TypeList{"object"}, AdditionalProperties: fault}
	case 9:
		pos = "unreferenced-definition-itself"
		defs["Bad"] = fault
	case 10:
		pos = "referenced-definition-itself"
		defs["Bad"] = fault
		root.Properties["b"] = &schemas.Type{Ref: "#/$defs/Bad"}
	case 11:
		pos = "additional-properties"
		root.Properties["m"] = &schemas.Type{Type: schemas.TypeList{"object"}, AdditionalProperties: fault}
	case 12:
		pos = "item-of-array-in-array"
		root.Properties["arr"] = &schemas.Type{Type: schemas.TypeList{"array"}, Items: &schemas.Type{Type: schemas.TypeList{"array"}, Items: fault}}
	case 13:
		pos = "member-of-object-in-array"
		root.Properties["arr"] = &schemas.Type{Type: schemas.TypeList{"array"}, Items: obj(map[string]*schemas.Type{"bad": fault})}
	case 14:
		pos = "anyOf-branch-itself"
		root.Properties["any"] = &schemas.Type{AnyOf: []*schemas.Type{fault, obj(map[string]*schemas.Type{"q": good()})}}
		swallowed = fault.Ref != ""
	case 15:
		pos = "member-of-definition-referenced-by-allOf-branch"
		defs["Holder"] = obj(map[string]*schemas.Type{"bad": fault})
		root.Properties["all"] = &schemas.Type{AllOf: []*schemas.Type{{Ref: "#/$defs/Holder"}, obj(map[string]*schemas.Type{"q": good()})}}
	case 0:
		pos = "property"
		root.Properties["bad"] = fault
	case 1:
		pos = "array-item"
		root.Properties["arr"] = &schemas.Type{Type: schemas.TypeList{"array"}, Items: fault}
	case 2:
		pos = "nested-object-member"
		root.Properties["obj"] = obj(map[string]*schemas.Type{"bad": fault})
	case 3:
		pos = "definition-member"
		defs["Holder"] = obj(map[string]*schemas.Type{"bad": fault})
		root.Properties["h"] = &schemas.Type{Ref: "#/$defs/Holder"}
	case 4:
		pos = "unreferenced-definition-member"
		defs["Holder"] = obj(map[string]*schemas.Type{"bad": fault})
	case 5:
		pos = "member-of-allOf-branch"
		root.Properties["all"] = &schemas.Type{AllOf: []*schemas.Type{obj(map[string]*schemas.Type{"bad": fault}), obj(map[string]*schemas.Type{"q": good()})}}
	case 6:
		pos = "member-of-anyOf-branch"
		root.Properties["any"] = &schemas.Type{AnyOf: []*schemas.Type{obj(map[string]*schemas.Type{"bad": fault}), obj(map[string]*schemas.Type{"q": good()})}}
	case 7:
		pos = "own-property-beside-allOf"
		defs["Composed"] = &schemas.Type{Type: schemas.TypeList{"object"}, Properties: map[string]*schemas.Type{"bad": fault},
			AllOf: []*schemas.Type{{Ref: "#/$defs/Good"}}}
		root.Properties["c"] = &schemas.Type{Ref: "#/$defs/Composed"}
	default:
		pos = "allOf-branch-itself"
		root.Properties["all"] = &schemas.Type{AllOf: []*schemas.Type{fault, obj(map[string]*schemas.Type{"q": good()})}}
		// recorded finding n: resolveRefs swallows a branch that cannot be resolved (warning only)
		swallowed = fault.Ref != ""
	}
	sch := &schemas.Schema{ObjectAsType: (*schemas.ObjectAsType)(root), ID: "https://example.com/root", Definitions: defs}
	g, err := New(Config{DefaultPackageName: "example.com/gen", DefaultOutputName: "root.go", Warner: func(string) {},
		Tags: []string{"json", "yaml", "mapstructure"}})
	if err != nil {
		zzvrt.Unreachable("New failed")
	}
	zzvrt.Witness("schema", sch)
	zzvrt.Note("fault=" + fname + " at " + pos)
	err = g.addFile("root.json", sch)
	zzvrt.Cover("fault:" + fname + "@" + pos)
	zzvrt.Check("C18.ungeneratable-element-fails-the-run", err != nil,
		zzvrt.Dev{Name: "unresolvable-ref-branch-swallowed", Cond: swallowed})
}

// HarnessC18Valid: on valid shapes of the grammar the generator neither fails nor panics
// (the panic policy of this unit turns any feasible panic path into a violation).
func HarnessC18Valid() {
	pt, ps := zzGen(zzvrt.Param("KINDS", zzEveryKind), zzvrt.Param("DEPTH", 1), true)
	required := zzvrt.Bool()
	viaRef := zzvrt.Bool()
	cfg := Config{MinSizedInts: zzvrt.Bool(), ExtraImports: zzvrt.Bool(), OnlyModels: zzvrt.Bool()}
	_, _, err := zzGenerate(pt, required, viaRef, cfg, zzAllDefs(ps))
	zzvrt.Cover("kind:" + ps.kind)
	if err != nil {
		zzvrt.Note("generator error: " + err.Error())
	}
	zzvrt.Check("C18.valid-schema-generates", err == nil)
}

// HarnessC18Special: unusual but legal inputs on which the generator must not panic.
func HarnessC18Special() {
	root := &schemas.Type{Type: schemas.TypeList{"object"}, Properties: map[string]*schemas.Type{}}
	defs := schemas.Definitions{}
	switch zzvrt.Choice(9) {
	case 3, 4, 5, 6, 7, 8:
		// recursive reference graphs: generation must terminate whichever way the cycle is closed
		node := &schemas.Type{Type: schemas.TypeList{"object"}, Properties: map[string]*schemas.Type{"name": {Type: schemas.TypeList{"string"}}}}
		self := func() *schemas.Type { return &schemas.Type{Ref: "#/$defs/Node"} }
		extra := &schemas.Type{Type: schemas.TypeList{"object"}, Properties: map[string]*schemas.Type{"weight": {Type: schemas.TypeList{"number"}}}}
		how := []string{"direct", "array-items", "map-values", "anyOf-branch", "allOf-branch", "through-a-second-definition"}[zzvrt.Choice(6)]
		switch how {
		case "direct":
			node.Properties["child"] = self()
		case "array-items":
			node.Properties["child"] = &schemas.Type{Type: schemas.TypeList{"array"}, Items: self()}
		case "map-values":
			node.Properties["child"] = &schemas.Type{Type: schemas.TypeList{"object"}, AdditionalProperties: self()}
		case "anyOf-branch":
			node.Properties["child"] = &schemas.Type{AnyOf: []*schemas.Type{self(), extra}}
		case "allOf-branch":
			zzvrt.Note("known-if-panic=allOf-branch-referring-to-enclosing-definition-never-terminates")
			node.Properties["child"] = &schemas.Type{AllOf: []*schemas.Type{self(), extra}}
		default:
			node.Properties["child"] = &schemas.Type{Ref: "#/$defs/Other"}
			defs["Other"] = &schemas.Type{Type: schemas.TypeList{"object"}, Properties: map[string]*schemas.Type{"back": self()}}
		}
		zzvrt.Cover("special:recursive-reference/" + how)
		defs["Node"] = node
		root.Properties["root"] = self()
	case 0:
		zzvrt.Note("known-if-panic=self-reference-to-root-panics")
		zzvrt.Cover("special:self-ref-property")
		root.Properties["self"] = &schemas.Type{Ref: "#"}
	case 1:
		zzvrt.Note("known-if-panic=object-default-with-empty-key-panics")
		zzvrt.Cover("special:object-default-with-empty-key")
		root.Properties["o"] = &schemas.Type{Type: schemas.TypeList{"object"},
			Properties: map[string]*schemas.Type{"k": {Type: schemas.TypeList{"integer"}}},
			Default:    map[string]interface{}{"": 1.0}}
	default:
		zzvrt.Cover("special:empty-property-name")
		root.Properties[""] = &schemas.Type{Type: schemas.TypeList{"string"}}
	}
	sch := &schemas.Schema{ObjectAsType: (*schemas.ObjectAsType)(root), ID: "https://example.com/root", Definitions: defs}
	g, err := New(Config{DefaultPackageName: "example.com/gen", DefaultOutputName: "root.go", Warner: func(string) {},
		Tags: []string{"json", "yaml", "mapstructure"}})
	if err != nil {
		zzvrt.Unreachable("New failed")
	}
	zzvrt.Witness("schema", sch)
	err = g.addFile("root.json", sch)
	if err == nil {
		_ = g.Sources()
	}
	zzvrt.Check("C18.no-panic-on-unusual-input", true)
}

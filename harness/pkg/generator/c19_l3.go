//go:build verif

package generator

import (
	"github.com/atombender/go-jsonschema/internal/zzvrt"
	"github.com/atombender/go-jsonschema/pkg/schemas"
)

// HarnessC19AllTypes: EVERY type of the emitted package that has an UnmarshalJSON method --
// not only the root -- is total and all-or-nothing: called directly on an arbitrary symbolic
// document (any JSON value, or malformed bytes) with an arbitrary prior receiver, it returns
// nil or an error, never panics, and leaves the receiver untouched when it returns an error.
func HarnessC19AllTypes() {
	obj := func(props map[string]*schemas.Type, req ...string) *schemas.Type {
		return &schemas.Type{Type: schemas.TypeList{"object"}, Properties: props, Required: req}
	}
	str := func() *schemas.Type { return &schemas.Type{Type: schemas.TypeList{"string"}, MinLength: 2} }
	intMap := func() *schemas.Type {
		return &schemas.Type{Type: schemas.TypeList{"object"}, AdditionalProperties: &schemas.Type{Type: schemas.TypeList{"integer"}}}
	}
	var x *schemas.Type
	defs := schemas.Definitions{}
	shape := ""
	switch zzvrt.Choice(7) {
	case 6:
		// a generated type whose own name is the one the emitted methods use for their shadow type
		shape = "definitions-named-plain-and-Plain_0"
		defs["plain"] = obj(map[string]*schemas.Type{"text": str()}, "text")
		defs["Plain_0"] = obj(map[string]*schemas.Type{"n": {Type: schemas.TypeList{"integer"}, Minimum: zzF(1)}})
		x = obj(map[string]*schemas.Type{"body": {Ref: "#/$defs/plain"}, "alt": {Ref: "#/$defs/Plain_0"}}, "body")
	case 0:
		shape = "anyOf(map-of-integers, object)"
		x = &schemas.Type{AnyOf: []*schemas.Type{intMap(), obj(map[string]*schemas.Type{"a": str()}, "a")}}
	case 1:
		shape = "anyOf(object, object)"
		x = &schemas.Type{AnyOf: []*schemas.Type{obj(map[string]*schemas.Type{"a": str()}, "a"), obj(map[string]*schemas.Type{"b": {Type: schemas.TypeList{"integer"}}})}}
	case 2:
		shape = "allOf($ref, object)"
		defs["Base"] = obj(map[string]*schemas.Type{"a": str()}, "a")
		x = &schemas.Type{AllOf: []*schemas.Type{{Ref: "#/$defs/Base"}, obj(map[string]*schemas.Type{"b": {Type: schemas.TypeList{"integer"}}}, "b")}}
	case 3:
		shape = "object-with-typed-additional-properties"
		x = obj(map[string]*schemas.Type{"a": str()}, "a")
		x.AdditionalProperties = &schemas.Type{Type: schemas.TypeList{"integer"}}
	case 4:
		shape = "array-of-objects-with-enum"
		x = &schemas.Type{Type: schemas.TypeList{"array"}, MinItems: 1, Items: obj(map[string]*schemas.Type{
			"e": {Enum: []interface{}{"red", 1.0, nil}}, "s": {Type: schemas.TypeList{"string"}, Enum: []interface{}{"x", "y"}}}, "s")}
	default:
		shape = "named-scalar-definitions"
		defs["Port"] = &schemas.Type{Type: schemas.TypeList{"integer"}, Minimum: zzF(1)}
		defs["Name"] = &schemas.Type{Type: schemas.TypeList{"string"}, MinLength: 1}
		x = obj(map[string]*schemas.Type{"port": {Ref: "#/$defs/Port"}, "name": {Ref: "#/$defs/Name"}}, "port")
	}
	root := obj(map[string]*schemas.Type{"x": x})
	sch := &schemas.Schema{ObjectAsType: (*schemas.ObjectAsType)(root), ID: "https://example.com/root", Definitions: defs}
	g, err := New(Config{DefaultPackageName: "example.com/gen", DefaultOutputName: "root.go", Warner: func(string) {},
		Tags: []string{"json", "yaml", "mapstructure"}})
	if err != nil {
		zzvrt.Unreachable("New failed")
	}
	zzvrt.Witness("schema", sch)
	if err := g.addFile("root.json", sch); err != nil {
		zzvrt.Unreachable("generation failed: " + err.Error())
	}
	src := string(g.Sources()["root.go"])
	zzvrt.Emit("root.go", src)
	h := zzvrt.Stage2(src)
	if !zzvrt.S2OK(h) {
		zzvrt.Note(zzvrt.S2Errors(h))
		zzvrt.Check("C19.all-types.emitted-code-compiles", false)
		return
	}
	types := zzvrt.MethodTypes(src, "UnmarshalJSON")
	if len(types) == 0 {
		return
	}
	// one type per path (a free choice), one fresh document
	typ := types[zzvrt.Choice(len(types))]
	zzvrt.Cover("shape:" + shape + "/type:" + typ)
	zzvrt.Note("shape=" + shape + " type=" + typ)
	d := zzvrt.NewDoc()
	r := zzvrt.Unmarshal(h, typ, "json", d)
	st := zzvrt.RStatus(r)
	if st == 2 {
		zzvrt.Note(zzvrt.RMsg(r))
	}
	zzvrt.Check("C19.all-types.no-panic", st != 2)
	if st == 1 {
		zzvrt.Check("C19.all-types.receiver-unchanged-on-error", zzvrt.RUnchanged(r))
	}
}

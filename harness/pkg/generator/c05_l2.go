//go:build verif

package generator

import (
	"github.com/atombender/go-jsonschema/internal/zzvrt"
	"github.com/atombender/go-jsonschema/pkg/codegen"
)

// zzInBoundsF: reference model for a float64 value (intersection of all stated bounds).
func zzInBoundsF(x float64, minimum, maximum *float64, exMin, exMax *any) bool {
	ok := true
	if minimum != nil {
		strict := false
		if exMin != nil {
			if b, isBool := (*exMin).(bool); isBool {
				strict = b
			}
		}
		ok = zzvrt.And(ok, zzvrt.Or(x > *minimum, zzvrt.And(zzvrt.Not(strict), x == *minimum)))
	}
	if exMin != nil {
		if f, isNum := (*exMin).(float64); isNum {
			ok = zzvrt.And(ok, x > f)
		}
	}
	if maximum != nil {
		strict := false
		if exMax != nil {
			if b, isBool := (*exMax).(bool); isBool {
				strict = b
			}
		}
		ok = zzvrt.And(ok, zzvrt.Or(x < *maximum, zzvrt.And(zzvrt.Not(strict), x == *maximum)))
	}
	if exMax != nil {
		if f, isNum := (*exMax).(float64); isNum {
			ok = zzvrt.And(ok, x < f)
		}
	}
	return ok
}

// zzInBoundsI: the same for an int64 value, compared exactly with the float64 bounds.
func zzInBoundsI(x int64, minimum, maximum *float64, exMin, exMax *any) bool {
	ok := true
	if minimum != nil {
		strict := false
		if exMin != nil {
			if b, isBool := (*exMin).(bool); isBool {
				strict = b
			}
		}
		ok = zzvrt.And(ok, zzvrt.Or(zzvrt.IntGtF(x, *minimum), zzvrt.And(zzvrt.Not(strict), zzvrt.IntGeF(x, *minimum))))
	}
	if exMin != nil {
		if f, isNum := (*exMin).(float64); isNum {
			ok = zzvrt.And(ok, zzvrt.IntGtF(x, f))
		}
	}
	if maximum != nil {
		strict := false
		if exMax != nil {
			if b, isBool := (*exMax).(bool); isBool {
				strict = b
			}
		}
		ok = zzvrt.And(ok, zzvrt.Or(zzvrt.IntLtF(x, *maximum), zzvrt.And(zzvrt.Not(strict), zzvrt.IntLeF(x, *maximum))))
	}
	if exMax != nil {
		if f, isNum := (*exMax).(float64); isNum {
			ok = zzvrt.And(ok, zzvrt.IntLtF(x, f))
		}
	}
	return ok
}

func zzOutsideI64(minimum, maximum *float64, exMin, exMax *any) bool {
	lo, hi := -9223372036854775808.0, 9223372036854775808.0
	r := false
	for _, p := range []*float64{minimum, maximum} {
		if p != nil {
			r = zzvrt.Or(r, zzvrt.Or(*p < lo, *p >= hi))
		}
	}
	for _, e := range []*any{exMin, exMax} {
		if e != nil {
			if f, ok := (*e).(float64); ok {
				r = zzvrt.Or(r, zzvrt.Or(f < lo, f >= hi))
			}
		}
	}
	return r
}

// HarnessC05L2: numericValidator.generate/genBoundary/valueOf emit, through the real
// jsonFormatter, an UnmarshalJSON whose verdict on a symbolic document equals the
// reference model, for all bound values and all document values.
func HarnessC05L2() {
	isInt := zzvrt.Bool()
	nillable := zzvrt.Bool()
	minimum, maximum := zzOptF(), zzOptF()
	exMin, exMax := zzOptEx(), zzOptEx()
	numeric := func(e *any) bool {
		if e == nil {
			return false
		}
		_, ok := (*e).(float64)
		return ok
	}
	if minimum == nil && maximum == nil && !numeric(exMin) && !numeric(exMax) {
		return // no numeric validator is attached without a bound (attachment: L3 harness)
	}
	// snapshot: the validator only reads the bounds
	v := &numericValidator{jsonName: "x", fieldName: "X", isNillable: nillable, roundToInt: isInt,
		minimum: minimum, maximum: maximum, exclusiveMinimum: exMin, exclusiveMaximum: exMax}
	var ft codegen.Type = codegen.PrimitiveType{Type: "float64"}
	if isInt {
		ft = codegen.PrimitiveType{Type: "int"}
	}
	validators := []validator{}
	if nillable {
		ft = codegen.WrapTypeInPointer(ft)
	} else {
		validators = append(validators, &requiredValidator{jsonName: "x", declName: "T"})
	}
	validators = append(validators, v)
	src := zzEmitStruct(ft, !nillable, nil, validators, false)
	zzvrt.Emit("t.go", src)
	h := zzvrt.Stage2(src)
	if !zzvrt.S2OK(h) {
		zzvrt.Note(zzvrt.S2Errors(h))
		zzvrt.Check("C05.L2.emitted-code-compiles", false)
		return
	}
	zzvrt.Check("C05.L2.literals-fit", zzvrt.S2Fits(h))

	d := zzvrt.NewDoc()
	zzTypeCorrectObject(d)
	absent := zzvrt.DIs(d, "x", zzvrt.KAbsent)
	null := zzvrt.DIs(d, "x", zzvrt.KNull)
	num := zzvrt.DIs(d, "x", zzvrt.KNumber)
	zzvrt.Assume(zzvrt.Or(absent, zzvrt.Or(null, num)))
	if isInt {
		zzvrt.Assume(zzvrt.Implies(num, zzvrt.DIsInt(d, "x")))
	}
	r := zzvrt.Unmarshal(h, "T", "json", d)
	st := zzvrt.RStatus(r)
	if st == 2 {
		zzvrt.Note(zzvrt.RMsg(r))
		zzvrt.Check("C05.L2.no-panic", false)
		return
	}
	accepted := st == 0
	var inB bool
	if isInt {
		inB = zzInBoundsI(zzvrt.DInt(d, "x"), minimum, maximum, exMin, exMax)
	} else {
		inB = zzInBoundsF(zzvrt.DFloat(d, "x"), minimum, maximum, exMin, exMax)
	}
	cls := "float64"
	if isInt {
		cls = "int"
	}
	if nillable {
		cls = "*" + cls
	}
	zzvrt.Cover("carrier:" + cls)
	// Known deviation (finding c): for integer fields a bound outside the int64 range is
	// converted with int64(), which is implementation-defined there.
	outside := false
	if isInt {
		outside = zzOutsideI64(minimum, maximum, exMin, exMax)
	}
	devs := []zzvrt.Dev{{Name: "int-bound-outside-int64", Cond: outside}}
	if nillable {
		// optional/nullable: absent and null are never bound-checked
		expected := zzvrt.Or(absent, zzvrt.Or(null, zzvrt.And(num, inB)))
		zzvrt.Check("C05.L2.accept-iff-in-bounds", zzvrt.Iff(accepted, expected), devs...)
	} else {
		// required: absent is rejected; null at a non-nullable position is outside the property
		zzvrt.Assume(zzvrt.Not(null))
		expected := zzvrt.And(num, inB)
		zzvrt.Check("C05.L2.accept-iff-in-bounds", zzvrt.Iff(accepted, expected), devs...)
	}
	if accepted {
		// the decoded value is the document's value (C02 facet on this kernel)
		if !nillable {
			if isInt {
				zzvrt.Check("C05.L2.value-kept", zzvrt.OInt(r, "X") == zzvrt.DInt(d, "x"))
			} else {
				zzvrt.Check("C05.L2.value-kept", zzvrt.OFloat(r, "X") == zzvrt.DFloat(d, "x"))
			}
		}
	} else {
		zzvrt.Check("C05.L2.receiver-unchanged-on-error", zzvrt.RUnchanged(r))
	}
}

//go:build verif

package generator

import (
	"strconv"

	"github.com/atombender/go-jsonschema/internal/zzvrt"
	"github.com/atombender/go-jsonschema/pkg/codegen"
)

func zzOptLimit() int {
	if zzvrt.Bool() {
		n := zzvrt.Int()
		zzvrt.Assume(zzvrt.And(n > 0, n <= 1<<20))
		return n
	}
	return 0
}

// zzArrOK: every array at nesting level `level` (1 = the field itself) below path is either
// null/absent or has a length within [minItems, maxItems] (0 = not stated).
func zzArrOK(d int, path string, level, n int, minItems, maxItems int) bool {
	isArr := zzvrt.DIs(d, path, zzvrt.KArray)
	if level == 1 {
		ln := zzvrt.DLen(d, path)
		return zzvrt.Or(zzvrt.Not(isArr), zzLenOK(ln, minItems, maxItems))
	}
	ok := true
	for i := 0; i < n; i++ {
		inside := zzvrt.And(isArr, i < zzvrt.DLen(d, path))
		ok = zzvrt.And(ok, zzvrt.Or(zzvrt.Not(inside), zzArrOK(d, path+"/"+strconv.Itoa(i), level-1, n, minItems, maxItems)))
	}
	return ok
}

// zzArrShape: the document at path is null/absent or an array nested `depth` deep whose
// leaves are numbers (type-correct for [][]...float64).
func zzArrShape(d int, path string, depth, n int, top bool) bool {
	if depth == 0 {
		return zzvrt.DIs(d, path, zzvrt.KNumber)
	}
	isArr := zzvrt.DIs(d, path, zzvrt.KArray)
	ok := zzvrt.Or(isArr, zzvrt.DIs(d, path, zzvrt.KNull))
	if top {
		ok = zzvrt.Or(ok, zzvrt.DIs(d, path, zzvrt.KAbsent))
	}
	for i := 0; i < n; i++ {
		inside := zzvrt.And(isArr, i < zzvrt.DLen(d, path))
		ok = zzvrt.And(ok, zzvrt.Or(zzvrt.Not(inside), zzArrShape(d, path+"/"+strconv.Itoa(i), depth-1, n, false)))
	}
	return ok
}

// HarnessC07L2: arrayValidator.generate for one nesting level of a [][]..float64 field, with
// symbolic limits, on symbolic documents with arrays of symbolic length <= N per level.
func HarnessC07L2() {
	n := zzvrt.Param("N", 3)
	lo, hi := zzvrt.Param("MINDEPTH", 1), zzvrt.Param("DEPTH", 2)
	depth := lo + zzvrt.Choice(hi-lo+1) // nesting depth of the field's type
	level := 1 + zzvrt.Choice(depth)                     // level the validator is attached to
	minItems, maxItems := zzOptLimit(), zzOptLimit()
	if minItems == 0 && maxItems == 0 {
		return
	}
	var ft codegen.Type = codegen.PrimitiveType{Type: "float64"}
	for i := 0; i < depth; i++ {
		ft = &codegen.ArrayType{Type: ft}
	}
	v := &arrayValidator{jsonName: "x", fieldName: "X", arrayDepth: level, minItems: minItems, maxItems: maxItems}
	st := &codegen.StructType{Fields: []codegen.StructField{zzField("X", "x", ft, false)}}
	src := zzEmit(st, []validator{v}, false)
	h, ok := zzMaterialise("C07.L2", src)
	if !ok {
		return
	}
	d := zzvrt.NewDoc()
	zzTypeCorrectObject(d)
	zzvrt.Assume(zzArrShape(d, "x", depth, n, true))
	_, accepted, ok := zzRun("C07.L2", h, "json", d)
	if !ok {
		return
	}
	zzvrt.Cover("depth:" + strconv.Itoa(depth) + "/level:" + strconv.Itoa(level))
	zzvrt.Check("C07.L2.accept-iff-lengths-within-limits", zzvrt.Iff(accepted, zzArrOK(d, "x", level, n, minItems, maxItems)))
}

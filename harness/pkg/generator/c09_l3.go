//go:build verif

package generator

import "github.com/atombender/go-jsonschema/internal/zzvrt"

// HarnessC09: a property with a default: absent or null -> the decoded field equals the
// default; present -> the document value is kept; the default literal type-checks.
func HarnessC09() {
	mask := zzvrt.Param("KINDS", zzKString|zzKNumber|zzKInteger|zzKBoolean|zzKEnumString|zzKArray|zzKAny)
	n := zzvrt.Param("N", 2)
	pt, ps := zzGen(mask, zzvrt.Param("DEPTH", 1), true)
	if !ps.hasDefault {
		return
	}
	required := zzvrt.Bool()
	cfg := Config{}
	if zzvrt.Param("MINSIZED", 0) == 1 {
		cfg.MinSizedInts = zzvrt.Bool()
	}
	src, rootType, err := zzGenerate(pt, required, false, cfg)
	cls := ps.kind
	if ps.nullable {
		cls += "?"
	}
	if required {
		cls += "!"
	}
	zzvrt.Note("shape=" + cls)
	if err != nil {
		zzvrt.Note("generator error: " + err.Error())
		zzvrt.Check("C09.valid-schema-generates", false)
		return
	}
	zzvrt.Emit("root.go", src)
	h := zzvrt.Stage2(src)
	// Known deviation k: a default on a nullable (pointer-typed) field is emitted as a plain
	// literal (`plain.X = "dflt"` into *string), which does not compile.
	if !zzvrt.S2OK(h) {
		zzvrt.Note(zzvrt.S2Errors(h))
		zzvrt.Check("C09.default-literal-has-field-type", false, zzvrt.Dev{Name: "default-into-pointer-field", Cond: ps.nullable})
		return
	}
	if !zzAssumeDefaultValid(ps) {
		return
	}
	zzvrt.Check("C09.default-literal-has-field-type", true)
	zzvrt.Check("C09.literals-fit", zzvrt.S2Fits(h))
	d := zzvrt.NewDoc()
	zzTypeCorrectObject(d)
	f := zzMember(d, "x", ps, required, n)
	zzvrt.Assume(zzvrt.Not(f.dontCare))
	absent := zzvrt.DIs(d, "x", zzvrt.KAbsent)
	null := zzvrt.DIs(d, "x", zzvrt.KNull)
	r, accepted, ok := zzRunT("C09", h, rootType, "json", d)
	if !ok {
		return
	}
	zzvrt.Cover("shape:" + cls)
	missing := zzvrt.Or(absent, null)
	zzvrt.Check("C09.absent-or-null-accepted", zzvrt.Implies(missing, accepted))
	if !accepted {
		return
	}
	// value checks (scalars and arrays of strings)
	if zzvrt.OIsNil(r, "X") && (ps.kind != "array") && (ps.kind != "any") {
		zzvrt.Check("C09.default-applied", zzvrt.Not(missing))
		return
	}
	switch ps.kind {
	case "string", "enum-string":
		v := zzvrt.OStr(r, "X")
		zzvrt.Check("C09.default-applied", zzvrt.Implies(missing, v == ps.defS))
		zzvrt.Check("C09.present-value-wins", zzvrt.Implies(zzvrt.Not(missing), v == zzvrt.DStr(d, "x")))
	case "number":
		v := zzvrt.OFloat(r, "X")
		zzvrt.Check("C09.default-applied", zzvrt.Implies(missing, v == ps.defF))
		zzvrt.Check("C09.present-value-wins", zzvrt.Implies(zzvrt.Not(missing), v == zzvrt.DFloat(d, "x")))
	case "integer":
		v := zzvrt.OInt(r, "X")
		zzvrt.Check("C09.default-applied", zzvrt.Implies(missing, v == int64(ps.defF)))
		zzvrt.Check("C09.present-value-wins", zzvrt.Implies(zzvrt.Not(missing), v == zzvrt.DInt(d, "x")))
	case "any":
		// untyped property: when missing, the interface{} field holds the default (float64 0)
		if zzvrt.OKind(r, "X") == 2 {
			zzvrt.Check("C09.default-applied", zzvrt.Implies(missing, zzvrt.OFloat(r, "X") == ps.defF))
		} else {
			zzvrt.Check("C09.default-applied", zzvrt.Not(missing))
		}
	case "boolean":
		v := zzvrt.OBool(r, "X")
		zzvrt.Check("C09.default-applied", zzvrt.Implies(missing, v == ps.defB))
		zzvrt.Check("C09.present-value-wins", zzvrt.Implies(zzvrt.Not(missing), v == zzvrt.DBool(d, "x")))
	case "array":
		ln := zzvrt.OLen(r, "X")
		zzvrt.Check("C09.default-applied", zzvrt.Implies(missing, ln == 2))
		if ln == 2 {
			zzvrt.Check("C09.default-applied", zzvrt.Implies(missing, zzvrt.And(zzvrt.OStr(r, "X/0") == "a", zzvrt.OStr(r, "X/1") == "b")))
		}
		zzvrt.Check("C09.present-value-wins", zzvrt.Implies(zzvrt.Not(missing), ln == zzvrt.DLen(d, "x")))
	}
}

// zzAssumeDefaultValid assumes that the default of s is valid for s's own constraints
// (defaults that are invalid for their schema are outside the properties); false if it
// cannot be.
func zzAssumeDefaultValid(s *zzSpec) bool {
	if !s.hasDefault {
		return true
	}
	switch s.kind {
	case "number":
		zzvrt.Assume(zzInBoundsF(s.defF, s.min, s.max, s.exMin, s.exMax))
	case "integer":
		zzvrt.Assume(zzInBoundsI(int64(s.defF), s.min, s.max, s.exMin, s.exMax))
	case "string":
		zzvrt.Assume(zzLenOK(4, s.minLen, s.maxLen))
		if s.pattern != "" {
			return false // "dflt" does not match ^a
		}
	case "array":
		zzvrt.Assume(zzLenOK(2, s.minItems, s.maxItems))
	}
	return true
}

//go:build verif

package generator

import (
	"github.com/atombender/go-jsonschema/internal/zzvrt"
	"github.com/atombender/go-jsonschema/pkg/schemas"
)

// HarnessC09: a property with a default: absent or null -> the decoded field equals the
// default; present -> the document value is kept; the default literal type-checks.
func HarnessC09() {
	mask := zzvrt.Param("KINDS", zzKString|zzKNumber|zzKInteger|zzKBoolean|zzKEnumString|zzKArray|zzKAny)
	n := zzvrt.Param("N", 2)
	pt, ps := zzGen(mask, zzvrt.Param("DEPTH", 1), true)
	if !ps.hasDefault {
		return
	}
	required := zzvrt.Bool()
	cfg := Config{}
	if zzvrt.Param("MINSIZED", 0) == 1 {
		cfg.MinSizedInts = zzvrt.Bool()
	}
	src, rootType, err := zzGenerate(pt, required, false, cfg)
	cls := ps.kind
	if ps.nullable {
		cls += "?"
	}
	if required {
		cls += "!"
	}
	zzvrt.Note("shape=" + cls)
	if err != nil {
		zzvrt.Note("generator error: " + err.Error())
		zzvrt.Check("C09.valid-schema-generates", false)
		return
	}
	zzvrt.Emit("root.go", src)
	h := zzvrt.Stage2(src)
	// Known deviation k: a default on a nullable (pointer-typed) field is emitted as a plain
	// literal (`plain.X = "dflt"` into *string), which does not compile.
	if !zzvrt.S2OK(h) {
		zzvrt.Note(zzvrt.S2Errors(h))
		zzvrt.Check("C09.default-literal-has-field-type", false, zzvrt.Dev{Name: "default-into-pointer-field", Cond: ps.nullable})
		return
	}
	if !zzAssumeDefaultValid(ps) {
		return
	}
	zzvrt.Check("C09.default-literal-has-field-type", true)
	zzvrt.Check("C09.literals-fit", zzvrt.S2Fits(h))
	d := zzvrt.NewDoc()
	zzTypeCorrectObject(d)
	f := zzMember(d, "x", ps, required, n)
	zzvrt.Assume(zzvrt.Not(f.dontCare))
	absent := zzvrt.DIs(d, "x", zzvrt.KAbsent)
	null := zzvrt.DIs(d, "x", zzvrt.KNull)
	r, accepted, ok := zzRunT("C09", h, rootType, "json", d)
	if !ok {
		return
	}
	zzvrt.Cover("shape:" + cls)
	missing := zzvrt.Or(absent, null)
	zzvrt.Check("C09.absent-or-null-accepted", zzvrt.Implies(missing, accepted))
	if !accepted {
		return
	}
	// value checks (scalars and arrays of strings)
	if zzvrt.OIsNil(r, "X") && (ps.kind != "array") && (ps.kind != "any") {
		zzvrt.Check("C09.default-applied", zzvrt.Not(missing))
		return
	}
	switch ps.kind {
	case "string", "enum-string":
		v := zzvrt.OStr(r, "X")
		zzvrt.Check("C09.default-applied", zzvrt.Implies(missing, v == ps.defS))
		zzvrt.Check("C09.present-value-wins", zzvrt.Implies(zzvrt.Not(missing), v == zzvrt.DStr(d, "x")))
	case "number":
		v := zzvrt.OFloat(r, "X")
		zzvrt.Check("C09.default-applied", zzvrt.Implies(missing, v == ps.defF))
		zzvrt.Check("C09.present-value-wins", zzvrt.Implies(zzvrt.Not(missing), v == zzvrt.DFloat(d, "x")))
	case "integer":
		v := zzvrt.OInt(r, "X")
		zzvrt.Check("C09.default-applied", zzvrt.Implies(missing, v == int64(ps.defF)))
		zzvrt.Check("C09.present-value-wins", zzvrt.Implies(zzvrt.Not(missing), v == zzvrt.DInt(d, "x")))
	case "any":
		// untyped property: when missing, the interface{} field holds the default (float64 0)
		if zzvrt.OKind(r, "X") == 2 {
			zzvrt.Check("C09.default-applied", zzvrt.Implies(missing, zzvrt.OFloat(r, "X") == ps.defF))
		} else {
			zzvrt.Check("C09.default-applied", zzvrt.Not(missing))
		}
	case "boolean":
		v := zzvrt.OBool(r, "X")
		zzvrt.Check("C09.default-applied", zzvrt.Implies(missing, v == ps.defB))
		zzvrt.Check("C09.present-value-wins", zzvrt.Implies(zzvrt.Not(missing), v == zzvrt.DBool(d, "x")))
	case "array":
		ln := zzvrt.OLen(r, "X")
		zzvrt.Check("C09.default-applied", zzvrt.Implies(missing, ln == 2))
		if ln == 2 {
			zzvrt.Check("C09.default-applied", zzvrt.Implies(missing, zzvrt.And(zzvrt.OStr(r, "X/0") == ps.defArr[0], zzvrt.OStr(r, "X/1") == ps.defArr[1])))
		}
		zzvrt.Check("C09.present-value-wins", zzvrt.Implies(zzvrt.Not(missing), ln == zzvrt.DLen(d, "x")))
	}
}

// zzAssumeDefaultValid assumes that the default of s is valid for s's own constraints
// (defaults that are invalid for their schema are outside the properties); false if it
// cannot be.
func zzAssumeDefaultValid(s *zzSpec) bool {
	if !s.hasDefault {
		return true
	}
	switch s.kind {
	case "number":
		zzvrt.Assume(zzInBoundsF(s.defF, s.min, s.max, s.exMin, s.exMax))
	case "integer":
		zzvrt.Assume(zzInBoundsI(int64(s.defF), s.min, s.max, s.exMin, s.exMax))
	case "string":
		zzvrt.Assume(zzLenOK(4, s.minLen, s.maxLen))
		if s.pattern != "" {
			return false // "dflt" does not match ^a
		}
	case "array":
		zzvrt.Assume(zzLenOK(2, s.minItems, s.maxItems))
	}
	return true
}

// HarnessC09Siblings: two object schemas of the same shape that want the same Go type name
// (definition names that normalise to one identifier, or equal titles under
// --struct-name-from-title) and differ in exactly ONE keyword of their member v: a default
// (C09), minItems (C07), minLength (C06), minimum (C05), required (C04) or the enum list (C08).
// The name de-duplication by schema equality must keep them apart: each position keeps its
// own default and enforces its own rule.
func HarnessC09Siblings() {
	type variant struct {
		owner, what string
		mkA, mkB    func() (*schemas.Type, *zzSpec)
		reqA, reqB  bool
		defA, defB  interface{}
	}
	num := func(typ string, def interface{}) func() (*schemas.Type, *zzSpec) {
		return func() (*schemas.Type, *zzSpec) {
			return &schemas.Type{Type: schemas.TypeList{typ}, Default: def}, nil
		}
	}
	arr := func(minItems int) func() (*schemas.Type, *zzSpec) {
		return func() (*schemas.Type, *zzSpec) {
			return &schemas.Type{Type: schemas.TypeList{"array"}, MinItems: minItems, Items: &schemas.Type{Type: schemas.TypeList{"boolean"}}},
				&zzSpec{kind: "array", minItems: minItems, items: &zzSpec{kind: "boolean"}}
		}
	}
	str := func(minLen int) func() (*schemas.Type, *zzSpec) {
		return func() (*schemas.Type, *zzSpec) {
			return &schemas.Type{Type: schemas.TypeList{"string"}, MinLength: minLen}, &zzSpec{kind: "string", minLen: minLen}
		}
	}
	intMin := func(m float64) func() (*schemas.Type, *zzSpec) {
		return func() (*schemas.Type, *zzSpec) {
			return &schemas.Type{Type: schemas.TypeList{"integer"}, Minimum: zzF(m)}, &zzSpec{kind: "integer", min: zzF(m)}
		}
	}
	enum := func(vals ...string) func() (*schemas.Type, *zzSpec) {
		return func() (*schemas.Type, *zzSpec) {
			var e []interface{}
			for _, v := range vals {
				e = append(e, v)
			}
			return &schemas.Type{Type: schemas.TypeList{"string"}, Enum: e}, &zzSpec{kind: "enum-string", enumS: vals}
		}
	}
	plain := func() (*schemas.Type, *zzSpec) {
		return &schemas.Type{Type: schemas.TypeList{"integer"}}, &zzSpec{kind: "integer"}
	}
	vs := []variant{
		{owner: "C09", what: "default", mkA: num("integer", 1.0), mkB: num("integer", 2.0), defA: 1.0, defB: 2.0},
		{owner: "C09", what: "default", mkA: num("string", "x"), mkB: num("string", "y"), defA: "x", defB: "y"},
		{owner: "C09", what: "default", mkA: num("boolean", true), mkB: num("boolean", false), defA: true, defB: false},
		{owner: "C09", what: "default", mkA: num("integer", 3.0), mkB: num("integer", 3.0), defA: 3.0, defB: 3.0},
		{owner: "C07", what: "minItems", mkA: arr(1), mkB: arr(2)},
		{owner: "C06", what: "minLength", mkA: str(1), mkB: str(3)},
		{owner: "C05", what: "minimum", mkA: intMin(1), mkB: intMin(5)},
		{owner: "C04", what: "required", mkA: plain, mkB: plain, reqA: true, reqB: false},
		{owner: "C08", what: "enum", mkA: enum("a", "b"), mkB: enum("a", "c")},
		{owner: "C02", what: "format", mkA: func() (*schemas.Type, *zzSpec) {
			return &schemas.Type{Type: schemas.TypeList{"string"}, Format: "date-time"}, &zzSpec{kind: "string", format: "date-time"}
		}, mkB: str(0)},
	}
	vk := vs[zzvrt.Choice(len(vs))]
	ta, sa := vk.mkA()
	tb, sb := vk.mkB()
	mk := func(m *schemas.Type, req bool, title string) *schemas.Type {
		o := &schemas.Type{Type: schemas.TypeList{"object"}, Title: title, Properties: map[string]*schemas.Type{"v": m}}
		if req {
			o.Required = []string{"v"}
		}
		return o
	}
	root := &schemas.Type{Type: schemas.TypeList{"object"}, Required: []string{"p", "q"}}
	var defs schemas.Definitions
	cfg := Config{DefaultPackageName: "example.com/gen", DefaultOutputName: "root.go", Warner: func(string) {},
		Tags: []string{"json", "yaml", "mapstructure"}}
	mode := ""
	if zzvrt.Bool() {
		mode = "colliding-definition-names"
		defs = schemas.Definitions{"conf-a": mk(ta, vk.reqA, ""), "conf_a": mk(tb, vk.reqB, "")}
		root.Properties = map[string]*schemas.Type{"p": {Ref: "#/$defs/conf-a"}, "q": {Ref: "#/$defs/conf_a"}}
	} else {
		mode = "equal-titles"
		cfg.StructNameFromTitle = true
		root.Properties = map[string]*schemas.Type{"p": mk(ta, vk.reqA, "Settings"), "q": mk(tb, vk.reqB, "Settings")}
	}
	sch := &schemas.Schema{ObjectAsType: (*schemas.ObjectAsType)(root), ID: "https://example.com/root", Definitions: defs}
	g, err := New(cfg)
	if err != nil {
		zzvrt.Unreachable("New failed")
	}
	zzvrt.Witness("schema", sch)
	zzvrt.Note("mode=" + mode + " differs-in=" + vk.what)
	if err := g.addFile("root.json", sch); err != nil {
		zzvrt.Note("generator error: " + err.Error())
		zzvrt.Check(vk.owner+".siblings.valid-schema-generates", false)
		return
	}
	src := string(g.Sources()["root.go"])
	zzvrt.Emit("root.go", src)
	h := zzvrt.Stage2(src)
	if !zzvrt.S2OK(h) {
		zzvrt.Note(zzvrt.S2Errors(h))
		zzvrt.Check(vk.owner+".siblings.emitted-code-compiles", false)
		return
	}
	d := zzvrt.NewDoc()
	zzTypeCorrectObject(d)
	zzvrt.Assume(zzvrt.And(zzvrt.DIs(d, "p", zzvrt.KObject), zzvrt.DIs(d, "q", zzvrt.KObject)))
	zzvrt.Cover("siblings:" + mode + "/" + vk.what)
	if vk.what == "default" {
		for _, m := range []string{"p/v", "q/v"} {
			zzvrt.Assume(zzvrt.Or(zzvrt.DIs(d, m, zzvrt.KAbsent), zzvrt.DIs(d, m, zzvrt.KNull)))
		}
		r, accepted, ok := zzRunT("C09.siblings", h, g.getRootTypeName(sch, "root.json"), "json", d)
		if !ok {
			return
		}
		zzvrt.Check("C09.siblings.absent-or-null-accepted", accepted)
		if !accepted {
			return
		}
		same := func(path string, want interface{}) bool {
			switch w := want.(type) {
			case float64:
				return zzvrt.OInt(r, path) == int64(w)
			case string:
				return zzvrt.OStr(r, path) == w
			case bool:
				return zzvrt.OBool(r, path) == w
			}
			return false
		}
		zzvrt.Check("C09.siblings.each-position-keeps-its-own-default", zzvrt.And(same("P/V", vk.defA), same("Q/V", vk.defB)))
		return
	}
	// rule variants: each position enforces ITS schema
	n := zzvrt.Param("N", 2)
	fa := zzMember(d, "p/v", sa, vk.reqA, n)
	fb := zzMember(d, "q/v", sb, vk.reqB, n)
	f := fa.and(fb)
	if vk.what == "format" {
		// the library-typed position makes no promise about which strings parse: keep it absent
		zzvrt.Assume(zzvrt.DIs(d, "p/v", zzvrt.KAbsent))
	}
	zzvrt.Assume(zzvrt.Not(f.dontCare))
	zzvrt.Assume(zzvrt.Iff(f.str, f.strBytes)) // outside the byte/rune length finding
	_, accepted, ok := zzRunT(vk.owner+".siblings", h, g.getRootTypeName(sch, "root.json"), "json", d)
	if !ok {
		return
	}
	zzvrt.Check(vk.owner+".siblings.same-named-types-keep-their-own-"+vk.what, zzvrt.Iff(accepted, f.all()))
	zzvrt.Check("C10.siblings.one-type-per-distinct-schema", zzvrt.Iff(accepted, f.all()))
}

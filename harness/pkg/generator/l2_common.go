//go:build verif

package generator

import (
	"github.com/atombender/go-jsonschema/internal/zzvrt"
	"github.com/atombender/go-jsonschema/pkg/codegen"
	"github.com/atombender/go-jsonschema/pkg/schemas"
)

func zzOptF() *float64 {
	if zzvrt.Bool() {
		f := zzvrt.Float64()
		return &f
	}
	return nil
}

func zzOptEx() *any {
	switch zzvrt.Choice(3) {
	case 0:
		return nil
	case 1:
		var a any = zzvrt.SymBool()
		return &a
	default:
		var a any = zzvrt.Float64()
		return &a
	}
}

// zzEmit emits, with the repository's real code (schemaGenerator.generateUnmarshaler, the
// formatters, the emitter, gofmt), a complete file declaring `type T <st>` with the
// unmarshalers generated for the validators.
func zzEmit(st *codegen.StructType, validators []validator, extraImports bool) string {
	return zzEmitExtra(st, validators, extraImports, nil)
}

func zzEmitExtra(st *codegen.StructType, validators []validator, extraImports bool, imports []string) string {
	decl := codegen.TypeDecl{Name: "T", Type: st, SchemaType: &schemas.Type{}}
	g, err := New(Config{ExtraImports: extraImports, DefaultPackageName: "example.com/gen", DefaultOutputName: "t.go",
		Warner: func(string) {}, Tags: []string{"json", "yaml", "mapstructure"}})
	if err != nil {
		zzvrt.Unreachable("generator.New failed")
	}
	out, err := g.findOutputFileForSchemaID("zz")
	if err != nil {
		zzvrt.Unreachable("findOutputFileForSchemaID failed")
	}
	out.declsByName["T"] = &decl
	sg := newSchemaGenerator(g, &schemas.Schema{ID: "zz"}, "t.json", out)
	for _, imp := range imports {
		out.file.Package.AddImport(imp, "")
	}
	out.file.Package.AddDecl(&decl)
	sg.generateUnmarshaler(decl, validators)
	for name, src := range g.Sources() {
		if name == "t.go" {
			return string(src)
		}
	}
	zzvrt.Unreachable("no source for t.go")
	return ""
}

func zzField(name, jsonName string, t codegen.Type, required bool) codegen.StructField {
	tags := `json:"` + jsonName + `,omitempty" yaml:"` + jsonName + `,omitempty" mapstructure:"` + jsonName + `,omitempty"`
	if required {
		tags = `json:"` + jsonName + `" yaml:"` + jsonName + `" mapstructure:"` + jsonName + `"`
	}
	return codegen.StructField{Name: name, Type: t, Tags: tags, JSONName: jsonName, SchemaType: &schemas.Type{}}
}

// zzEmitStruct: `type T struct { X <fieldType> }`.
func zzEmitStruct(fieldType codegen.Type, required bool, imports []string, validators []validator, extraImports bool) string {
	st := &codegen.StructType{Fields: []codegen.StructField{zzField("X", "x", fieldType, required)}}
	return zzEmit(st, validators, extraImports)
}

// zzMaterialise runs stage 2 on emitted text and reports compile problems under id.
func zzMaterialise(id, src string) (int, bool) {
	zzvrt.Emit("t.go", src)
	h := zzvrt.Stage2(src)
	if !zzvrt.S2OK(h) {
		zzvrt.Note(zzvrt.S2Errors(h))
		zzvrt.Check(id+".emitted-code-compiles", false)
		return h, false
	}
	zzvrt.Check(id+".literals-fit", zzvrt.S2Fits(h))
	return h, true
}

// zzRun decodes doc d with (*T).Unmarshal<format>; ok=false if it panicked (reported).
func zzRun(id string, h int, format string, d int) (r int, accepted bool, ok bool) {
	return zzRunT(id, h, "T", format, d)
}

func zzRunT(id string, h int, typ, format string, d int) (r int, accepted bool, ok bool) {
	r = zzvrt.Unmarshal(h, typ, format, d)
	st := zzvrt.RStatus(r)
	if st == 2 {
		zzvrt.Note(zzvrt.RMsg(r))
		zzvrt.Check(id+".no-panic", false)
		return r, false, false
	}
	if st != 0 && zzvrt.S2HasMethod(h, typ, "Unmarshal"+zzUpper(format)) {
		// only generated methods make the all-or-nothing promise (plain encoding/json decoding
		// of a type without a generated method fills the target as it goes)
		zzvrt.Check(id+".receiver-unchanged-on-error", zzvrt.RUnchanged(r))
	}
	return r, st == 0, true
}

// zzTypeCorrectObject assumes a well-formed document whose root is an object.
func zzTypeCorrectObject(d int) {
	zzvrt.Assume(zzvrt.Not(zzvrt.DMalformed(d)))
	zzvrt.Assume(zzvrt.DIs(d, "", zzvrt.KObject))
}

func zzUpper(format string) string {
	if format == "yaml" {
		return "YAML"
	}
	return "JSON"
}

//go:build verif

package generator

import (
	"github.com/atombender/go-jsonschema/internal/zzvrt"
	"github.com/atombender/go-jsonschema/pkg/codegen"
	"github.com/atombender/go-jsonschema/pkg/schemas"
)

func zzOptF() *float64 {
	if zzvrt.Bool() {
		f := zzvrt.Float64()
		return &f
	}
	return nil
}

func zzOptEx() *any {
	switch zzvrt.Choice(3) {
	case 0:
		return nil
	case 1:
		var a any = zzvrt.SymBool()
		return &a
	default:
		var a any = zzvrt.Float64()
		return &a
	}
}

// zzEmitStruct emits, with the repository's real code (schemaGenerator.generateUnmarshaler,
// the formatters, the emitter, gofmt), a complete file declaring
// `type T struct { X <fieldType> }` with the unmarshalers generated for the validators.
func zzEmitStruct(fieldType codegen.Type, required bool, imports []string, validators []validator, extraImports bool) string {
	tags := `json:"x,omitempty" yaml:"x,omitempty" mapstructure:"x,omitempty"`
	if required {
		tags = `json:"x" yaml:"x" mapstructure:"x"`
	}
	st := &codegen.StructType{Fields: []codegen.StructField{{
		Name: "X", Type: fieldType, Tags: tags, JSONName: "x", SchemaType: &schemas.Type{},
	}}}
	decl := codegen.TypeDecl{Name: "T", Type: st, SchemaType: &schemas.Type{}}
	g, err := New(Config{ExtraImports: extraImports, DefaultPackageName: "example.com/gen", DefaultOutputName: "t.go",
		Warner: func(string) {}, Tags: []string{"json", "yaml", "mapstructure"}})
	if err != nil {
		zzvrt.Unreachable("generator.New failed")
	}
	out, err := g.findOutputFileForSchemaID("zz")
	if err != nil {
		zzvrt.Unreachable("findOutputFileForSchemaID failed")
	}
	out.declsByName["T"] = &decl
	sg := newSchemaGenerator(g, &schemas.Schema{ID: "zz"}, "t.json", out)
	for _, imp := range imports {
		out.file.Package.AddImport(imp, "")
	}
	out.file.Package.AddDecl(&decl)
	sg.generateUnmarshaler(decl, validators)
	for name, src := range g.Sources() {
		if name == "t.go" {
			return string(src)
		}
	}
	zzvrt.Unreachable("no source for t.go")
	return ""
}

// zzTypeCorrectObject assumes a well-formed document whose root is an object.
func zzTypeCorrectObject(d int) {
	zzvrt.Assume(zzvrt.Not(zzvrt.DMalformed(d)))
	zzvrt.Assume(zzvrt.DIs(d, "", zzvrt.KObject))
}

//go:build verif

package generator

import (
	"github.com/atombender/go-jsonschema/internal/zzvrt"
	"github.com/atombender/go-jsonschema/pkg/codegen"
)

const zzPattern = "^a"

// zzLenOK: reference model of minLength/maxLength on a length n (0 means "not stated": the
// parsed representation cannot distinguish 0 from absent, DESIGN §9).
func zzLenOK(n, minLength, maxLength int) bool {
	return zzvrt.And(zzvrt.Or(minLength == 0, n >= minLength), zzvrt.Or(maxLength == 0, n <= maxLength))
}

// HarnessC06L2: stringValidator.generate through the real formatter; the verdict of the
// emitted code on a symbolic string (arbitrary byte and rune lengths, arbitrary match
// outcome) equals the reference model for all limits.
func HarnessC06L2() {
	nillable := zzvrt.Bool()
	minLength, maxLength := 0, 0
	if zzvrt.Bool() {
		minLength = zzvrt.Int()
		zzvrt.Assume(zzvrt.And(minLength > 0, minLength <= 1<<20))
	}
	if zzvrt.Bool() {
		maxLength = zzvrt.Int()
		zzvrt.Assume(zzvrt.And(maxLength > 0, maxLength <= 1<<20))
	}
	pattern := ""
	if zzvrt.Bool() {
		pattern = zzPattern
	}
	if minLength == 0 && maxLength == 0 && pattern == "" {
		return
	}
	v := &stringValidator{jsonName: "x", fieldName: "X", minLength: minLength, maxLength: maxLength, isNillable: nillable, pattern: pattern}
	var ft codegen.Type = codegen.PrimitiveType{Type: "string"}
	validators := []validator{}
	if nillable {
		ft = codegen.WrapTypeInPointer(ft)
	} else {
		validators = append(validators, &requiredValidator{jsonName: "x", declName: "T"})
	}
	validators = append(validators, v)
	st := &codegen.StructType{Fields: []codegen.StructField{zzField("X", "x", ft, !nillable)}}
	g := zzEmitWithImports(st, validators, pattern != "")
	h, ok := zzMaterialise("C06.L2", g)
	if !ok {
		return
	}
	d := zzvrt.NewDoc()
	zzTypeCorrectObject(d)
	absent := zzvrt.DIs(d, "x", zzvrt.KAbsent)
	null := zzvrt.DIs(d, "x", zzvrt.KNull)
	str := zzvrt.DIs(d, "x", zzvrt.KString)
	zzvrt.Assume(zzvrt.Or(absent, zzvrt.Or(null, str)))
	r, accepted, ok := zzRun("C06.L2", h, "json", d)
	if !ok {
		return
	}
	s := zzvrt.DStr(d, "x")
	matchOK := true
	if pattern != "" {
		matchOK = zzvrt.Matches(s, pattern)
	}
	valid := zzvrt.And(zzLenOK(zzvrt.RuneLen(s), minLength, maxLength), matchOK)
	validBytes := zzvrt.And(zzLenOK(len(s), minLength, maxLength), matchOK)
	cls := "string"
	if nillable {
		cls = "*string"
	}
	zzvrt.Cover("carrier:" + cls)
	var expected, expectedBytes bool
	if nillable {
		expected = zzvrt.Or(absent, zzvrt.Or(null, zzvrt.And(str, valid)))
		expectedBytes = zzvrt.Or(absent, zzvrt.Or(null, zzvrt.And(str, validBytes)))
	} else {
		zzvrt.Assume(zzvrt.Not(null))
		expected = zzvrt.And(str, valid)
		expectedBytes = zzvrt.And(str, validBytes)
	}
	// Known deviation (finding i): the generated code measures length in bytes.
	zzvrt.Check("C06.L2.accept-iff-length-and-pattern", zzvrt.Iff(accepted, expected),
		zzvrt.Dev{Name: "length-in-bytes", Cond: zzvrt.Iff(accepted, expectedBytes)})
	if accepted && !nillable {
		zzvrt.Check("C06.L2.value-kept", zzvrt.OStr(r, "X") == s)
	}
}

// zzEmitWithImports is zzEmit plus the regexp import that structFieldValidators adds when a
// pattern is present (attachment itself is covered by the L3 harness).
func zzEmitWithImports(st *codegen.StructType, validators []validator, regexpImport bool) string {
	if !regexpImport {
		return zzEmit(st, validators, false)
	}
	return zzEmitExtra(st, validators, false, []string{"regexp"})
}

//go:build verif

package generator

import (
	"github.com/atombender/go-jsonschema/internal/zzvrt"
	"github.com/atombender/go-jsonschema/pkg/schemas"
)

// HarnessC17Composite: composed types -- anyOf with a map-typed branch, anyOf of two objects,
// allOf of a $ref and an object, an object that collects typed additional properties --
// generated with --extra-imports; the JSON and the YAML method of the root type run on the same
// symbolic type-correct document (members absent or of their declared type, one extra integer
// member): same verdict, equal decoded values (including what the additional-properties map holds).
func HarnessC17Composite() {
	obj := func(props map[string]*schemas.Type, req ...string) *schemas.Type {
		return &schemas.Type{Type: schemas.TypeList{"object"}, Properties: props, Required: req}
	}
	str := func() *schemas.Type { return &schemas.Type{Type: schemas.TypeList{"string"}, MinLength: 2} }
	intg := func() *schemas.Type { return &schemas.Type{Type: schemas.TypeList{"integer"}} }
	var x *schemas.Type
	defs := schemas.Definitions{}
	shape := ""
	switch zzvrt.Choice(5) {
	case 0:
		shape = "anyOf(map-of-integers, object)"
		x = &schemas.Type{AnyOf: []*schemas.Type{{Type: schemas.TypeList{"object"}, AdditionalProperties: intg()}, obj(map[string]*schemas.Type{"a": str()}, "a")}}
	case 1:
		shape = "anyOf(object, object)"
		x = &schemas.Type{AnyOf: []*schemas.Type{obj(map[string]*schemas.Type{"a": str()}, "a"), obj(map[string]*schemas.Type{"b": intg()})}}
	case 2:
		shape = "allOf($ref, object)"
		defs["Base"] = obj(map[string]*schemas.Type{"a": str()}, "a")
		x = &schemas.Type{AllOf: []*schemas.Type{{Ref: "#/$defs/Base"}, obj(map[string]*schemas.Type{"b": intg()}, "b")}}
	case 3:
		shape = "object-with-typed-additional-properties"
		x = obj(map[string]*schemas.Type{"a": str()}, "a")
		x.AdditionalProperties = intg()
	default:
		shape = "anyOf(object-with-typed-additional-properties, object)"
		first := obj(map[string]*schemas.Type{"a": str()}, "a")
		first.AdditionalProperties = intg()
		x = &schemas.Type{AnyOf: []*schemas.Type{first, obj(map[string]*schemas.Type{"b": intg()}, "b")}}
	}
	required := zzvrt.Bool()
	root := obj(map[string]*schemas.Type{"x": x})
	if required {
		root.Required = []string{"x"}
	}
	sch := &schemas.Schema{ObjectAsType: (*schemas.ObjectAsType)(root), ID: "https://example.com/root", Definitions: defs}
	g, err := New(Config{DefaultPackageName: "example.com/gen", DefaultOutputName: "root.go", Warner: func(string) {},
		Tags: []string{"json", "yaml", "mapstructure"}, ExtraImports: true})
	if err != nil {
		zzvrt.Unreachable("New failed")
	}
	zzvrt.Witness("schema", sch)
	zzvrt.Note("shape=" + shape)
	if err := g.addFile("root.json", sch); err != nil {
		zzvrt.Note("generator error: " + err.Error())
		zzvrt.Check("C17.composite.valid-schema-generates", false)
		return
	}
	src := string(g.Sources()["root.go"])
	zzvrt.Emit("root.go", src)
	h := zzvrt.Stage2(src)
	if !zzvrt.S2OK(h) {
		zzvrt.Note(zzvrt.S2Errors(h))
		// (whether the composed output compiles is C01's and C11's business)
		return
	}
	d := zzvrt.NewDoc()
	zzTypeCorrectObject(d)
	zzvrt.Assume(zzvrt.Or(zzvrt.DIs(d, "x", zzvrt.KAbsent), zzvrt.DIs(d, "x", zzvrt.KObject)))
	zzvrt.Assume(zzvrt.Or(zzvrt.DIs(d, "x/a", zzvrt.KAbsent), zzvrt.DIs(d, "x/a", zzvrt.KString)))
	for _, m := range []string{"x/b", "x/+0"} {
		zzvrt.Assume(zzvrt.Or(zzvrt.DIs(d, m, zzvrt.KAbsent), zzvrt.And(zzvrt.DIs(d, m, zzvrt.KNumber), zzvrt.DIsInt(d, m))))
	}
	// stated bound: no member named like the Go field that collects the extras (encoding/json
	// would bind it to that untagged field, in any letter case; YAML binds by exact key)
	zzvrt.Assume(zzvrt.DIs(d, "x/AdditionalProperties", zzvrt.KAbsent))
	zzvrt.Assume(zzvrt.DIs(d, "x/additionalproperties", zzvrt.KAbsent))
	rootType := g.getRootTypeName(sch, "root.json")
	rj := zzvrt.Unmarshal(h, rootType, "json", d)
	ry := zzvrt.Unmarshal(h, rootType, "yaml", d)
	sj, sy := zzvrt.RStatus(rj), zzvrt.RStatus(ry)
	zzvrt.Cover("composite:" + shape)
	if sj == 2 || sy == 2 {
		zzvrt.Note(zzvrt.RMsg(rj) + " / " + zzvrt.RMsg(ry))
		zzvrt.Check("C17.composite.no-panic", false)
		return
	}
	zzvrt.Check("C17.composite.same-verdict", (sj == 0) == (sy == 0))
	if sj == 0 && sy == 0 {
		zzvrt.Check("C17.composite.same-value", zzvrt.REqual(rj, ry))
	}
}

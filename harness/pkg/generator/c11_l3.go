//go:build verif

package generator

import (
	"strconv"

	"github.com/atombender/go-jsonschema/internal/zzvrt"
	"github.com/atombender/go-jsonschema/pkg/schemas"
)

// zzBranch draws one object branch over the property names {a, b}: which of them it
// declares, which it requires, and symbolic string-length constraints on each.
func zzBranch(idx int) (*schemas.Type, *zzSpec) {
	t := &schemas.Type{Type: schemas.TypeList{"object"}, Properties: map[string]*schemas.Type{}}
	s := &zzSpec{kind: "object", props: map[string]*zzSpec{}, required: map[string]bool{}}
	if zzvrt.Param("NESTED", 0) == 1 {
		// every branch declares the SAME object-valued property o and adds its own member
		// (k0, k1, ...) to it, required or not: the nested schemas must be merged, too
		k := "k" + strconv.Itoa(idx)
		inner := &schemas.Type{Type: schemas.TypeList{"object"}, Properties: map[string]*schemas.Type{k: {Type: schemas.TypeList{"string"}}}}
		is := &zzSpec{kind: "object", props: map[string]*zzSpec{k: {kind: "string"}}, order: []string{k}, required: map[string]bool{}}
		if zzvrt.Bool() {
			inner.Required = []string{k}
			is.required[k] = true
		}
		t.Properties["o"] = inner
		s.props["o"], s.order = is, []string{"o"}
		if zzvrt.Bool() {
			t.Required = []string{"o"}
			s.required["o"] = true
		}
		return t, s
	}
	var names []string
	switch zzvrt.Choice(zzvrt.Param("NAMES", 3)) {
	case 0:
		names = []string{"a"}
	case 1:
		names = []string{"a", "b"}
	default:
		names = []string{"b"}
	}
	for k, n := range names {
		pt := &schemas.Type{Type: schemas.TypeList{"string"}}
		ps := &zzSpec{kind: "string"}
		nc := zzvrt.Param("CONSTR", 3)
		if k > 0 {
			nc = zzvrt.Param("CONSTR2", nc)
		}
		switch zzvrt.Choice(nc) {
		case 1:
			ps.minLen = zzLimit()
		case 2:
			ps.maxLen = zzLimit()
		}
		pt.MinLength, pt.MaxLength = ps.minLen, ps.maxLen
		t.Properties[n] = pt
		s.props[n] = ps
		s.order = append(s.order, n)
		if zzvrt.Bool() {
			t.Required = append(t.Required, n)
			s.required[n] = true
		}
	}
	return t, s
}

// HarnessC11: allOf of object branches is their conjunction, anyOf their disjunction.
func HarnessC11() {
	anyOf := zzvrt.Choice(2) == 1
	nb := zzvrt.Param("B", 2)
	n := zzvrt.Param("N", 2)
	var branches []*schemas.Type
	var specs []*zzSpec
	defs := schemas.Definitions{}
	cls := "allOf"
	if anyOf {
		cls = "anyOf"
	}
	for i := 0; i < nb; i++ {
		bt, bs := zzBranch(i)
		specs = append(specs, bs)
		if r := zzvrt.Param("REF", 1); r == 2 || (r == 1 && zzvrt.Bool()) {
			name := "Branch" + strconv.Itoa(i)
			defs[name] = bt
			branches = append(branches, &schemas.Type{Ref: "#/$defs/" + name})
			cls += "@"
		} else {
			branches = append(branches, bt)
			cls += "."
		}
	}
	x := &schemas.Type{}
	if anyOf {
		x.AnyOf = branches
	} else {
		x.AllOf = branches
	}
	root := &schemas.Type{Type: schemas.TypeList{"object"}, Properties: map[string]*schemas.Type{"x": x}, Required: []string{"x"}}
	if zzvrt.Param("TWICE", 0) == 1 {
		// a second composition (generated BEFORE x: properties go in name order) that shares
		// its first branch with x and adds a branch of its own about another member, c: what it
		// composes must stay its own -- x knows nothing about c
		extra := &schemas.Type{Type: schemas.TypeList{"object"}, Properties: map[string]*schemas.Type{
			"c": {Type: schemas.TypeList{"string"}, MinLength: zzLimit()}}, Required: []string{"c"}}
		w := &schemas.Type{}
		if anyOf {
			w.AnyOf = []*schemas.Type{branches[0], extra}
		} else {
			w.AllOf = []*schemas.Type{branches[0], extra}
		}
		root.Properties["w"] = w
		cls += "+w"
	}
	sch := &schemas.Schema{ObjectAsType: (*schemas.ObjectAsType)(root), ID: "https://example.com/root", Definitions: defs}
	g, err := New(Config{DefaultPackageName: "example.com/gen", DefaultOutputName: "root.go", Warner: func(string) {},
		Tags: []string{"json", "yaml", "mapstructure"}})
	if err != nil {
		zzvrt.Unreachable("New failed")
	}
	zzvrt.Witness("schema", sch)
	if err := g.addFile("root.json", sch); err != nil {
		zzvrt.Note("generator error: " + err.Error())
		zzvrt.Check("C11.valid-schema-generates", false)
		return
	}
	src := ""
	for name, b := range g.Sources() {
		if name == "root.go" {
			src = string(b)
		}
	}
	zzvrt.Emit("root.go", src)
	zzvrt.Note("shape=" + cls)
	h := zzvrt.Stage2(src)
	allRef := true
	for _, b := range branches {
		if b.Ref == "" {
			allRef = false
		}
	}
	if !zzvrt.S2OK(h) {
		zzvrt.Note(zzvrt.S2Errors(h))
		// recorded finding: an anyOf branch given by $ref to a definition that needs no
		// validation has no UnmarshalJSON, but the anyOf dispatcher calls it
		zzvrt.Check("C11.emitted-code-compiles", false, zzvrt.Dev{Name: "anyOf-ref-branch-without-unmarshaler", Cond: anyOf && cls != "anyOf.."})
		return
	}
	_ = allRef
	d := zzvrt.NewDoc()
	zzTypeCorrectObject(d)
	zzvrt.Assume(zzvrt.DIs(d, "x", zzvrt.KObject))
	for _, m := range []string{"a", "b"} {
		zzvrt.Assume(zzvrt.Or(zzvrt.DIs(d, "x/"+m, zzvrt.KAbsent), zzvrt.DIs(d, "x/"+m, zzvrt.KString)))
	}
	zzvrt.Assume(zzvrt.Or(zzvrt.DIs(d, "x/o", zzvrt.KAbsent), zzvrt.DIs(d, "x/o", zzvrt.KObject)))
	zzvrt.Assume(zzvrt.DIs(d, "w", zzvrt.KAbsent))
	for i := 0; i < nb; i++ {
		m := "x/o/k" + strconv.Itoa(i)
		zzvrt.Assume(zzvrt.Or(zzvrt.DIs(d, m, zzvrt.KAbsent), zzvrt.DIs(d, m, zzvrt.KString)))
	}
	_, accepted, ok := zzRunT("C11", h, g.getRootTypeName(sch, "root.json"), "json", d)
	if !ok {
		return
	}
	zzvrt.Cover("shape:" + cls)
	all, some := true, false
	allB, someB := true, false
	allReq, allOthers := true, true
	for _, bs := range specs {
		f := zzValue(d, "x", bs, n, 0)
		allReq = zzvrt.And(allReq, f.req)
		allOthers = zzvrt.And(allOthers, f.others("req"))
		all = zzvrt.And(all, f.all())
		some = zzvrt.Or(some, f.all())
		allB = zzvrt.And(allB, f.allBytes())
		someB = zzvrt.Or(someB, f.allBytes())
	}
	nested := zzvrt.Param("NESTED", 0) == 1
	if anyOf {
		zzvrt.Assume(zzvrt.Iff(some, someB)) // outside the byte/rune length finding (C06)
		// recorded finding: the union struct types an object-valued property declared by several
		// branches with the FIRST branch's nested type, whose own rules then apply to every document
		zzvrt.Check("C11.anyOf-is-disjunction", zzvrt.Iff(accepted, some),
			zzvrt.Dev{Name: "anyOf-nested-object-typed-by-first-branch", Cond: nested})
	} else {
		zzvrt.Assume(zzvrt.Iff(all, allB))
		// recorded finding: when two branches state the SAME keyword on the same property, the
		// merge keeps the first branch's value instead of enforcing both
		same := false
		for i := 0; i < len(specs); i++ {
			for j := i + 1; j < len(specs); j++ {
				for name, pi := range specs[i].props {
					if pj, ok := specs[j].props[name]; ok {
						if (pi.minLen != 0 && pj.minLen != 0) || (pi.maxLen != 0 && pj.maxLen != 0) {
							same = true
						}
					}
				}
			}
		}
		// recorded finding: when the first branch is a $ref, the nested object it shares with
		// later branches keeps the Go type generated for the definition BEFORE the merge
		stale := zzvrt.Dev{Name: "allOf-ref-first-nested-object-keeps-stale-type", Cond: nested && branches[0].Ref != ""}
		zzvrt.Check("C11.allOf-is-conjunction", zzvrt.Iff(accepted, all), zzvrt.Dev{Name: "allOf-same-keyword-first-branch-wins", Cond: same}, stale)
		if !same {
			// C04: a key required by ANY branch (at any depth of the merged object) is required
			zzvrt.Check("C04.allOf.required-of-every-branch", zzvrt.Implies(allOthers, zzvrt.Iff(accepted, allReq)), stale)
		}
	}
}

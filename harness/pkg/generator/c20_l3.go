//go:build verif

package generator

import (
	"errors"
	"path/filepath"
	"strings"

	"github.com/atombender/go-jsonschema/internal/zzvrt"
	"github.com/atombender/go-jsonschema/pkg/schemas"
)

// zzLoader serves parsed schemas by file name (the Config.Loader seam the code already has).
type zzLoader struct{ files map[string]*schemas.Schema }

func (l *zzLoader) Load(uri, parent string) (*schemas.Schema, error) {
	if s, ok := l.files[filepath.Base(uri)]; ok {
		return s, nil
	}
	return nil, errors.New("zzLoader: no such schema " + uri)
}

const zzDir = "/tmp/zzvfs/schemas"

// HarnessC20: two schema files with different ids, mapped to packages/outputs in several
// ways, one referring to the other; both argument orders.  Every schema's types land once,
// in the file and package of its id; cross-package references are qualified and imported
// (the emitted packages type-check together); each $ref keeps the meaning it has in its own
// document (C10).
func HarnessC20() {
	mn := zzvrt.Int()
	zzvrt.Assume(zzvrt.And(mn > 0, mn <= 1<<20))
	// money.json: root object Money{amount: integer, currency: string minLength mn}, with a
	// local definition Base used through allOf
	mi := zzvrt.Int()
	zzvrt.Assume(zzvrt.And(mi > 0, mi <= 1<<20))
	moneyBase := &schemas.Type{Type: schemas.TypeList{"object"}, Properties: map[string]*schemas.Type{
		"code":  {Type: schemas.TypeList{"string"}, MinLength: mn},
		"parts": {Type: schemas.TypeList{"array"}, Items: &schemas.Type{Type: schemas.TypeList{"string"}}, MinItems: mi}}, Required: []string{"code"}}
	partsSpec := &zzSpec{kind: "array", minItems: mi, items: &zzSpec{kind: "string"}}
	money := &schemas.Type{Type: schemas.TypeList{"object"}, Properties: map[string]*schemas.Type{
		"amount": {Type: schemas.TypeList{"integer"}},
		"tag":    {AllOf: []*schemas.Type{{Ref: "#/$defs/Base"}}},
		"direct": {Ref: "#/$defs/Base"},
	}, Required: []string{"amount"}}
	moneySch := &schemas.Schema{ObjectAsType: (*schemas.ObjectAsType)(money), ID: "https://example.com/money",
		Definitions: schemas.Definitions{"Base": moneyBase}}
	// order.json: refers to money.json and has its OWN, different definition named Base
	orderBase := &schemas.Type{Type: schemas.TypeList{"object"}, Properties: map[string]*schemas.Type{
		"id": {Type: schemas.TypeList{"integer"}}}, Required: []string{"id"}}
	order := &schemas.Type{Type: schemas.TypeList{"object"}, Properties: map[string]*schemas.Type{
		"price": {Ref: "money.json"},
		"meta":  {AllOf: []*schemas.Type{{Ref: "#/$defs/Base"}}},
	}, Required: []string{"price"}}
	orderSch := &schemas.Schema{ObjectAsType: (*schemas.ObjectAsType)(order), ID: "https://example.com/order",
		Definitions: schemas.Definitions{"Base": orderBase}}

	layout := zzvrt.Choice(zzvrt.Param("LAYOUTS", 4))
	pkgOrder, pkgMoney := "zzreplay/api/order", "zzreplay/common/money"
	switch layout {
	case 1:
		// both schemas in ONE package and file
		pkgMoney = pkgOrder
	case 2:
		// two packages whose import paths share the last element
		pkgOrder, pkgMoney = "zzreplay/api/types", "zzreplay/common/types"
	case 3:
		// ONE package, two files
		pkgMoney = pkgOrder
	}
	outOrder, outMoney := "order.go", "money.go"
	if layout == 1 {
		outMoney = outOrder
	}
	cfg := Config{Warner: func(string) {}, Tags: []string{"json", "yaml", "mapstructure"},
		Loader: &zzLoader{files: map[string]*schemas.Schema{"money.json": moneySch, "order.json": orderSch}},
		SchemaMappings: []SchemaMapping{
			{SchemaID: "https://example.com/order", PackageName: pkgOrder, OutputName: outOrder},
			{SchemaID: "https://example.com/money", PackageName: pkgMoney, OutputName: outMoney},
		}}
	zzvrt.VFile(zzDir + "/money.json")
	zzvrt.VFile(zzDir + "/order.json")
	g, err := New(cfg)
	if err != nil {
		zzvrt.Unreachable("New failed")
	}
	first, second := "order.json", "money.json"
	if zzvrt.Bool() {
		first, second = second, first
	}
	onlyOrder := zzvrt.Bool() // the second file may also be absent from the command line
	files := []string{first, second}
	if onlyOrder {
		files = []string{"order.json"}
	}
	for _, f := range files {
		sch, lerr := cfg.Loader.Load(f, "")
		if lerr != nil {
			zzvrt.Unreachable("loader")
		}
		if err := g.addFile(zzDir+"/"+f, sch); err != nil {
			zzvrt.Note("generator error: " + err.Error())
			zzvrt.Check("C20.generates", false)
			return
		}
	}
	srcs := g.Sources()
	cls := []string{"two-packages", "one-package", "same-last-path-element", "one-package-two-files"}[layout]
	zzvrt.Note("layout=" + cls + " first=" + first)
	if layout == 1 {
		// recorded finding (alias clash): in the one-package layout the clashing alias also makes
		// the output depend on the argument order; orders are compared per class
		zzvrt.Cover("layout:" + cls + "/first:" + first + "/files:" + map[bool]string{true: "1", false: "2"}[onlyOrder])
	} else {
		zzvrt.Cover("layout:" + cls)
	}
	// outputs carry exactly the mapped names
	zzvrt.Check("C20.output-names", len(srcs) == map[bool]int{true: 1, false: 2}[layout == 1] && srcs[outOrder] != nil && srcs[outMoney] != nil)
	// argument order / presence of the other file on the command line must not matter
	zzvrt.Emit("order.go", string(srcs[outOrder]))
	zzvrt.Emit("money.go", string(srcs[outMoney]))
	if layout == 3 {
		// (the two files of one package are not type-checked together here: placement only)
		moneyRoot, orderRoot := "type "+g.getRootTypeName(moneySch, "money.json")+" struct", "type "+g.getRootTypeName(orderSch, "order.json")+" struct"
		zzvrt.Check("C20.types-land-in-their-file", strings.Count(string(srcs[outMoney]), moneyRoot) == 1 && strings.Count(string(srcs[outOrder]), orderRoot) == 1 &&
			!strings.Contains(string(srcs[outOrder]), moneyRoot) && !strings.Contains(string(srcs[outMoney]), orderRoot))
		return
	}
	// the packages type-check together; Money is declared in its own package only
	hMoney := zzvrt.Stage2As(string(srcs[outMoney]), pkgMoney)
	if !zzvrt.S2OK(hMoney) {
		zzvrt.Note(zzvrt.S2Errors(hMoney))
		// recorded finding: two schemas with same-named definitions (both dereferenced through
		// allOf) in ONE package emit a clashing alias `type Base = Base_1`
		zzvrt.Check("C20.packages-build-together", false, zzvrt.Dev{Name: "same-named-definitions-in-one-package-clash", Cond: layout == 1})
		return
	}
	hOrder := hMoney
	if layout != 1 {
		hOrder = zzvrt.Stage2As(string(srcs[outOrder]), pkgOrder)
		if !zzvrt.S2OK(hOrder) {
			zzvrt.Note(zzvrt.S2Errors(hOrder))
			zzvrt.Check("C20.packages-build-together", false)
			// C10: a reference into another document names the type declared for that document
			// (qualified by, and importing, the package it was mapped to)
			zzvrt.Check("C10.cross-document-reference-names-the-referenced-type", false)
			return
		}
	}
	zzvrt.Check("C20.packages-build-together", true)
	zzvrt.Check("C10.cross-document-reference-names-the-referenced-type", true)
	moneyRoot := g.getRootTypeName(moneySch, "money.json")
	orderRoot := g.getRootTypeName(orderSch, "order.json")
	zzvrt.Check("C20.types-land-in-their-package", zzvrt.S2HasType(hMoney, moneyRoot) && zzvrt.S2HasType(hOrder, orderRoot) &&
		(layout == 1 || !zzvrt.S2HasType(hOrder, moneyRoot)))

	// C10: each document's "#/$defs/Base" keeps its own meaning: decode a symbolic document
	// with the Money type; tag.code is governed by money.json's Base (string, minLength mn)
	d := zzvrt.NewDoc()
	zzTypeCorrectObject(d)
	zzvrt.Assume(zzvrt.And(zzvrt.DIs(d, "amount", zzvrt.KNumber), zzvrt.DIsInt(d, "amount")))
	zzvrt.Assume(zzvrt.DIs(d, "tag", zzvrt.KObject))
	zzvrt.Assume(zzvrt.Or(zzvrt.DIs(d, "tag/code", zzvrt.KAbsent), zzvrt.DIs(d, "tag/code", zzvrt.KString)))
	// (the other document's Base has a member id: present or not, it means nothing here)
	zzvrt.Assume(zzvrt.Or(zzvrt.DIs(d, "tag/id", zzvrt.KAbsent), zzvrt.And(zzvrt.DIs(d, "tag/id", zzvrt.KNumber), zzvrt.DIsInt(d, "tag/id"))))
	// direct (money.json's Base again, referred to directly): absent, or an object with a valid
	// code and parts absent or an array of strings, at least mi of them
	zzvrt.Assume(zzvrt.DIs(d, "tag/parts", zzvrt.KAbsent))
	noDirect := zzvrt.DIs(d, "direct", zzvrt.KAbsent)
	zzvrt.Assume(zzvrt.Or(noDirect, zzvrt.DIs(d, "direct", zzvrt.KObject)))
	if zzvrt.Param("DIRECT", 0) == 0 {
		zzvrt.Assume(noDirect) // (units that do not own the array check leave the member out)
	}
	zzvrt.Assume(zzvrt.DIs(d, "direct/id", zzvrt.KAbsent))
	dc := zzvrt.DStr(d, "direct/code")
	zzvrt.Assume(zzvrt.Or(noDirect, zzvrt.And(zzvrt.DIs(d, "direct/code", zzvrt.KString), zzvrt.And(len(dc) >= mn, zzvrt.RuneLen(dc) >= mn))))
	zzvrt.Assume(zzvrt.Or(zzvrt.DIs(d, "direct/parts", zzvrt.KAbsent), zzvrt.DIs(d, "direct/parts", zzvrt.KArray)))
	pf := zzValue(d, "direct/parts", partsSpec, zzvrt.Param("N", 2), 0)
	zzvrt.Assume(zzvrt.Or(zzvrt.DIs(d, "direct/parts", zzvrt.KAbsent), pf.others("arr")))
	partsOK := zzvrt.Or(noDirect, zzvrt.Or(zzvrt.DIs(d, "direct/parts", zzvrt.KAbsent), pf.arr))
	_, accepted, ok := zzRunT("C20", hMoney, moneyRoot, "json", d)
	if !ok {
		return
	}
	s := zzvrt.DStr(d, "tag/code")
	codeOK := zzvrt.And(zzvrt.DIs(d, "tag/code", zzvrt.KString), len(s) >= mn)
	valid := zzvrt.And(codeOK, partsOK)
	// C07: the array limit stated in money.json's Base holds in whichever package it landed
	zzvrt.Check("C07.multi-doc.array-limits-of-each-document-hold", zzvrt.Implies(codeOK, zzvrt.Iff(accepted, partsOK)))
	zzvrt.Assume(zzvrt.Iff(len(s) >= mn, zzvrt.RuneLen(s) >= mn)) // outside the byte/rune finding
	zzvrt.Check("C10.ref-keeps-its-document-meaning", zzvrt.Iff(accepted, valid))
	// C11: the allOf in money.json is the conjunction of ITS document's branches
	zzvrt.Check("C11.multi-doc.allOf-of-a-ref-branch-means-its-own-document", zzvrt.Iff(accepted, valid))
	// C04: `code` is required by money.json's Base, which Money composes through allOf/$ref
	zzvrt.Check("C04.multi-doc.required-through-allOf-ref-branch", zzvrt.Implies(zzvrt.DIs(d, "tag/code", zzvrt.KAbsent), zzvrt.Not(accepted)))
	// C10: seen from the REFERRING document, price is governed by money.json's root schema
	// (amount: required integer), whichever package and file that schema was mapped to
	d2 := zzvrt.NewDoc()
	zzTypeCorrectObject(d2)
	zzvrt.Assume(zzvrt.DIs(d2, "price", zzvrt.KObject))
	zzvrt.Assume(zzvrt.DIs(d2, "meta", zzvrt.KAbsent))
	zzvrt.Assume(zzvrt.DIs(d2, "price/tag", zzvrt.KAbsent))
	zzvrt.Assume(zzvrt.DIs(d2, "price/direct", zzvrt.KAbsent))
	zzvrt.Assume(zzvrt.Or(zzvrt.DIs(d2, "price/amount", zzvrt.KAbsent), zzvrt.Or(zzvrt.DIs(d2, "price/amount", zzvrt.KString),
		zzvrt.And(zzvrt.DIs(d2, "price/amount", zzvrt.KNumber), zzvrt.DIsInt(d2, "price/amount")))))
	_, accepted2, ok := zzRunT("C10.multi-doc", hOrder, orderRoot, "json", d2)
	if !ok {
		return
	}
	zzvrt.Check("C10.cross-document-reference-means-the-referenced-schema", zzvrt.Iff(accepted2, zzvrt.DIs(d2, "price/amount", zzvrt.KNumber)))
}

// ---- the real loaders on a virtual file system (C10 file resolution, C20 placement) ----

const zzFS = "/tmp/zzvfs/in"

func zzNewFS(cfg Config) *Generator {
	cfg.Warner = func(string) {}
	if cfg.Tags == nil {
		cfg.Tags = []string{"json", "yaml", "mapstructure"}
	}
	g, err := New(cfg) // Loader nil: the default cached multi/file loader
	if err != nil {
		zzvrt.Unreachable("New failed")
	}
	return g
}

// HarnessC10Files: a chain of file references across directories (root -> model/order ->
// model/types/money), each $ref resolved relative to the document that contains it, with or
// without --resolve-extension probing; a decoy money.json sits where a resolution relative to
// the root document would find it (a resolution relative to the working directory finds nothing).  The emitted root type enforces the REAL
// money.json on a symbolic document.
func HarnessC10Files() {
	mn := zzvrt.Int()
	zzvrt.Assume(zzvrt.And(mn > 0, mn <= 1<<20))
	ext := ".json"
	cfg := Config{DefaultPackageName: "example.com/gen", DefaultOutputName: "out.go"}
	if zzvrt.Bool() {
		ext = "" // references written without extension, found by probing
		cfg.ResolveExtensions = []string{".yaml", ".json"}
	}
	zzvrt.VFileData(zzFS+"/schemas/root.json", `{"$id": "https://example.com/root", "type": "object",
  "properties": {"order": {"$ref": "model/order.v2`+ext+`"}}, "required": ["order"]}`)
	// a cycle through two files in different directories (order refers back to root)
	back := zzvrt.Bool()
	backProp := ""
	if back {
		backProp = `, "back": {"$ref": "../root` + ext + `"}`
	}
	// (the referenced name has a dot in its last element; a file named by the text before the
	// dot sits next to it)
	zzvrt.VFileData(zzFS+"/schemas/model/order.json", `{"$id": "https://example.com/old-order", "type": "object", "properties": {"price": {"type": "integer"}}}`)
	zzvrt.VFileData(zzFS+"/schemas/model/order.v2.json", `{"$id": "https://example.com/order", "type": "object",
  "properties": {"price": {"$ref": "types/money`+ext+`"}`+backProp+`}, "required": ["price"]}`)
	zzvrt.VFileData(zzFS+"/schemas/model/types/money.json", `{"$id": "https://example.com/money", "type": "object",
  "properties": {"code": {"type": "string", "minLength": 3}}, "required": ["code"]}`)
	// decoys: what a resolution relative to the wrong document would pick up
	zzvrt.VFileData(zzFS+"/schemas/types/money.json", `{"$id": "https://example.com/decoy", "type": "object", "properties": {"code": {"type": "integer"}}}`)
	_ = mn
	g := zzNewFS(cfg)
	zzvrt.Cover("file-chain:ext=" + ext + map[bool]string{true: "/cycle", false: ""}[back])
	if err := g.DoFile(zzFS + "/schemas/root.json"); err != nil {
		zzvrt.Note("generator error: " + err.Error())
		// recorded finding: the generator created for a referenced file keeps the raw $ref string as
		// its file name; a reference cycle through files in different directories re-enters a
		// document through that generator and resolves its references against the raw string
		zzvrt.Check("C10.files.chain-of-relative-references-resolves", false,
			zzvrt.Dev{Name: "file-reference-cycle-across-directories-fails", Cond: back})
		return
	}
	zzvrt.Check("C10.files.chain-of-relative-references-resolves", true)
	src := string(g.Sources()["out.go"])
	zzvrt.Emit("out.go", src)
	h := zzvrt.Stage2(src)
	if !zzvrt.S2OK(h) {
		zzvrt.Note(zzvrt.S2Errors(h))
		zzvrt.Check("C10.files.emitted-code-compiles", false)
		return
	}
	d := zzvrt.NewDoc()
	zzTypeCorrectObject(d)
	zzvrt.Assume(zzvrt.DIs(d, "order", zzvrt.KObject))
	zzvrt.Assume(zzvrt.DIs(d, "order/price", zzvrt.KObject))
	zzvrt.Assume(zzvrt.DIs(d, "order/back", zzvrt.KAbsent))
	rootType := "RootJson"
	if !zzvrt.S2HasType(h, rootType) {
		rootType = "Root" // --resolve-extension .json also trims the extension from type names
	}
	_, accepted, ok := zzRunT("C10.files", h, rootType, "json", d)
	if !ok {
		return
	}
	code := zzvrt.DStr(d, "order/price/code")
	zzvrt.Assume(zzvrt.Iff(len(code) >= 3, zzvrt.RuneLen(code) >= 3)) // outside the byte/rune finding
	zzvrt.Check("C10.files.reference-means-the-file-next-to-its-referrer",
		zzvrt.Iff(accepted, zzvrt.And(zzvrt.DIs(d, "order/price/code", zzvrt.KString), len(code) >= 3)))
}

// HarnessC20Solo: two schema files with the SAME base name in different directories, mapped
// to different packages and files: whatever the argument order, each output is byte-identical
// to the output of generating that schema alone.
func HarnessC20Solo() {
	zzvrt.VFileData(zzFS+"/billing/config.json", `{"$id": "https://example.com/billing", "type": "object",
  "properties": {"currency": {"type": "string", "minLength": 3}}, "required": ["currency"],
  "$defs": {"item": {"type": "object", "properties": {"sku": {"type": "string"}}}}}`)
	zzvrt.VFileData(zzFS+"/shipping/config.json", `{"$id": "https://example.com/shipping", "type": "object",
  "properties": {"carrier": {"type": "string"}, "first": {"$ref": "#/$defs/item"}}, "required": ["carrier"],
  "$defs": {"item": {"type": "object", "properties": {"weight": {"type": "integer", "minimum": 0}}}}}`)
	maps := []SchemaMapping{
		{SchemaID: "https://example.com/billing", PackageName: "example.com/gen/billing", OutputName: "gen/billing/config.go"},
		{SchemaID: "https://example.com/shipping", PackageName: "example.com/gen/shipping", OutputName: "gen/shipping/config.go"},
	}
	if zzvrt.Bool() {
		maps[0].RootType, maps[1].RootType = "Settings", "Settings"
	}
	files := []string{zzFS + "/billing/config.json", zzFS + "/shipping/config.json"}
	outs := []string{"gen/billing/config.go", "gen/shipping/config.go"}
	solo := map[string]string{}
	for k, f := range files {
		g := zzNewFS(Config{SchemaMappings: maps, DefaultPackageName: "example.com/gen", DefaultOutputName: "-"})
		if err := g.DoFile(f); err != nil {
			zzvrt.Unreachable("solo generation failed: " + err.Error())
		}
		solo[outs[k]] = string(g.Sources()[outs[k]])
	}
	first, second := 0, 1
	if zzvrt.Bool() {
		first, second = 1, 0
	}
	g := zzNewFS(Config{SchemaMappings: maps, DefaultPackageName: "example.com/gen", DefaultOutputName: "-"})
	for _, k := range []int{first, second} {
		if err := g.DoFile(files[k]); err != nil {
			zzvrt.Note("generator error: " + err.Error())
			zzvrt.Check("C20.solo.two-schemas-generate-together", false)
			return
		}
	}
	zzvrt.Cover("same-base-name/first:" + files[first])
	srcs := g.Sources()
	zzvrt.Check("C20.solo.exactly-the-mapped-outputs", len(srcs) == 2)
	for _, o := range outs {
		zzvrt.Emit(o, string(srcs[o]))
		zzvrt.Check("C20.solo.each-output-equals-its-solo-run", string(srcs[o]) == solo[o])
	}
}

// HarnessC13Files: the same schemas spelled as JSON files and as YAML files (a root with a
// property, a nullable type list, an enum, a $ref written WITHOUT extension to a sibling file
// that --resolve-extension probing finds, and an allOf branch referring to the same file):
// both directories generate, and generate byte-identical code.
func HarnessC13Files() {
	zzvrt.VFileData(zzFS+"/j/order.json", `{"$id": "https://example.com/order", "title": "An order", "type": "object",
  "properties": {
    "id": {"type": "integer", "minimum": 1},
    "note": {"type": ["string", "null"], "maxLength": 10},
    "state": {"enum": ["open", "closed", 3, null]},
    "customer": {"$ref": "customer"},
    "codes": {"type": "object", "properties": {"404": {"type": "string"}, "true": {"type": "boolean"}, "items": {"type": "array", "items": {"type": "object", "properties": {"7": {"type": "integer"}}}}}},
    "since": {"type": "string", "default": "2020-01-01"},
    "billing": {"allOf": [{"$ref": "customer"}, {"type": "object", "properties": {"vat": {"type": "string"}}, "required": ["vat"]}]}
  },
  "required": ["id"]}`)
	zzvrt.VFileData(zzFS+"/j/customer.json", `{"$id": "https://example.com/customer", "type": "object",
  "properties": {"name": {"type": "string", "minLength": 1}}, "required": ["name"]}`)
	zzvrt.VFileData(zzFS+"/y/order.yaml", `$id: https://example.com/order
title: An order
type: object
properties:
  id:
    type: integer
    minimum: 1
  note:
    type: [string, "null"]
    maxLength: 10
  state:
    enum: [open, closed, 3, null]
  customer:
    $ref: customer
  # keys and scalars that YAML reads as something other than a string unless told otherwise
  codes:
    type: object
    properties:
      404: {type: string}
      true: {type: boolean}
      items:
        type: array
        items:
          type: object
          properties:
            7: {type: integer}
  since:
    type: string
    default: 2020-01-01
  billing:
    allOf:
      - $ref: customer
      - type: object
        properties:
          vat: {type: string}
        required: [vat]
required: [id]
`)
	zzvrt.VFileData(zzFS+"/y/customer.yaml", `$id: https://example.com/customer
type: object
properties:
  name:
    type: string
    minLength: 1
required:
  - name
`)
	maps := []SchemaMapping{{SchemaID: "https://example.com/order", RootType: "Order"}, {SchemaID: "https://example.com/customer", RootType: "Customer"}}
	gen := func(file string) (string, error) {
		g := zzNewFS(Config{DefaultPackageName: "example.com/gen", DefaultOutputName: "out.go", SchemaMappings: maps,
			ResolveExtensions: []string{".json", ".yaml"}, YAMLExtensions: []string{".yml", ".yaml"}})
		for k := range maps {
			g.config.SchemaMappings[k].PackageName = "example.com/gen"
		}
		if err := g.DoFile(file); err != nil {
			return "", err
		}
		return string(g.Sources()["out.go"]), nil
	}
	js, errJ := gen(zzFS + "/j/order.json")
	ys, errY := gen(zzFS + "/y/order.yaml")
	zzvrt.Cover("json-vs-yaml-files")
	if errJ != nil || errY != nil {
		if errJ != nil {
			zzvrt.Note("json: " + errJ.Error())
		}
		if errY != nil {
			zzvrt.Note("yaml: " + errY.Error())
		}
		zzvrt.Check("C13.files.both-spellings-generate", false)
		return
	}
	zzvrt.Emit("json.go", js)
	zzvrt.Emit("yaml.go", ys)
	zzvrt.Check("C13.files.yaml-and-json-spellings-generate-identical-code", js == ys)
}

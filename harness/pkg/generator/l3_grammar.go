//go:build verif

package generator

import (
	"encoding/json"

	"github.com/atombender/go-jsonschema/internal/zzvrt"
	"github.com/atombender/go-jsonschema/pkg/schemas"
)

// zzSpec is the harness' own description of a (sub)schema, built together with the
// *schemas.Type handed to the generator.  The reference model reads the spec, never the
// schemas.Type (the generator mutates schemas in place).
type zzSpec struct {
	kind     string // string number integer boolean array object enum-string enum-int enum-mixed any
	nullable bool
	format   string

	min, max     *float64
	exMin, exMax *any
	multipleOf   *float64

	minLen, maxLen int
	pattern        string

	minItems, maxItems int
	items              *zzSpec

	defs     map[string]*schemas.Type // definitions the root schema must carry for this shape
	props    map[string]*zzSpec
	order    []string
	required map[string]bool

	enumS []string
	enumF []float64

	enumAny  []interface{} // kind "enum": the members as decoded JSON values (any primitive type, null)
	enumType string        // ... and the declared type, if any

	hasDefault bool
	defArr     []string
	defF       float64
	defS       string
	defB       bool

	viaRef bool
	ghost  bool // the required list names an undeclared key "ghost"
}

const (
	zzKString = 1 << iota
	zzKNumber
	zzKInteger
	zzKBoolean
	zzKArray
	zzKObject
	zzKEnumString
	zzKEnumInt
	zzKEnumMixed
	zzKAny
	zzKFormat
	zzKMap
	zzKEnumStrNull
	zzKNull
	zzKObjAP
)

func zzTypeList(name string, nullable bool) schemas.TypeList {
	if nullable {
		if zzvrt.Param("ORDER", 0) == 1 && zzvrt.Bool() {
			return schemas.TypeList{"null", name} // either order
		}
		return schemas.TypeList{name, "null"}
	}
	return schemas.TypeList{name}
}

func zzAnyPtr(v any) *any { return &v }

// zzNumericShape draws one of the bound shapes used at L3 (the L1/L2 kernels cover all 36
// presence/kind combinations; here the point is attachment and wiring).
func zzNumericShape(t *schemas.Type, s *zzSpec) {
	if zzvrt.Param("PARSEDBOUNDS", 0) == 1 {
		zzParsedBounds(t, s)
		return
	}
	f := func() *float64 { v := zzvrt.Float64(); return &v }
	if zzvrt.Param("BOUNDCONST", 0) == 1 {
		// stated bounds whose decimal text needs many digits, an exponent, or both
		consts := []float64{0.1234564, 1e-7, -2.5e-6, 1e21, 123456789.125, 0.30000000000000004}
		f = func() *float64 { v := consts[zzvrt.Choice(len(consts))]; return &v }
	}
	shape := 0
	if m := zzvrt.Param("NUMSHAPEMASK", 0); m != 0 {
		// only the shapes whose bit is set
		var allowed []int
		for k := 0; k < 7; k++ {
			if m&(1<<k) != 0 {
				allowed = append(allowed, k)
			}
		}
		shape = allowed[zzvrt.Choice(len(allowed))]
	} else {
		shape = zzvrt.Choice(zzvrt.Param("NUMSHAPES", 7))
	}
	switch shape {
	case 0: // no bounds
	case 1:
		s.min = f()
	case 2:
		s.max = f()
	case 3:
		s.min, s.max = f(), f()
	case 4:
		s.exMin, s.max = zzAnyPtr(zzvrt.Float64()), f()
	case 5:
		s.min, s.max = f(), f()
		s.exMin, s.exMax = zzAnyPtr(zzvrt.SymBool()), zzAnyPtr(zzvrt.SymBool())
	case 6:
		s.exMin, s.exMax = zzAnyPtr(zzvrt.Float64()), zzAnyPtr(zzvrt.Float64())
	}
	// multipleOf: integral, fractional and (last) an arbitrary positive value
	switch zzvrt.Choice(zzvrt.Param("MULT", 1)) {
	case 1:
		s.multipleOf = zzF(1)
	case 2:
		s.multipleOf = zzF(0.5)
	case 3:
		s.multipleOf = zzF(3)
	case 4:
		s.multipleOf = zzF(2.5)
	case 5:
		s.multipleOf = zzF(300)
	case 6:
		m := zzvrt.Float64()
		zzvrt.Assume(m > 0)
		s.multipleOf = &m
	}
	cp := func(p *float64) *float64 {
		if p == nil {
			return nil
		}
		v := *p
		return &v
	}
	t.MultipleOf = cp(s.multipleOf)
	cpa := func(p *any) *any {
		if p == nil {
			return nil
		}
		v := *p
		return &v
	}
	t.Minimum, t.Maximum, t.ExclusiveMinimum, t.ExclusiveMaximum = cp(s.min), cp(s.max), cpa(s.exMin), cpa(s.exMax)
}

func zzF(v float64) *float64 { return &v }

// zzEnumStrings: the two members of a string enum: plain words, or (ENUMTEXT=1) text with the
// characters that matter to the code emitter (format verbs, quotes, backslash, newline).
func zzEnumStrings() []string {
	if zzvrt.Param("ENUMTEXT", 0) == 1 && zzvrt.Bool() {
		return []string{"100%d %s", "a\"b\\c\nd"}
	}
	return []string{"red", "green"}
}

func zzLimit() int {
	n := zzvrt.Int()
	zzvrt.Assume(zzvrt.And(n > 0, n <= 1<<20))
	return n
}

// zzGen draws a schema of one of the kinds in mask at nesting depth <= depth.
func zzGen(mask int, depth int, allowNullable bool) (*schemas.Type, *zzSpec) {
	var kinds []int
	for k := 1; k <= zzKObjAP; k <<= 1 {
		if mask&k != 0 {
			if (k == zzKArray || k == zzKObject) && depth <= 0 {
				continue
			}
			kinds = append(kinds, k)
		}
	}
	k := kinds[zzvrt.Choice(len(kinds))]
	t := &schemas.Type{}
	s := &zzSpec{}
	nullable := false
	if allowNullable && zzvrt.Param("NULLABLE", 1) == 1 && k != zzKNull && k != zzKEnumString && k != zzKEnumInt && k != zzKEnumMixed && k != zzKAny && k != zzKEnumStrNull {
		nullable = zzvrt.Bool()
	}
	s.nullable = nullable
	switch k {
	case zzKString:
		s.kind = "string"
		t.Type = zzTypeList("string", nullable)
		if zzvrt.Param("STRSHAPES", 8) >= 8 {
			if zzvrt.Bool() {
				s.minLen = zzLimit()
			}
			if zzvrt.Bool() {
				s.maxLen = zzLimit()
			}
			if zzvrt.Bool() {
				s.pattern = zzPattern
				if zzvrt.Param("PATTEXT", 0) == 1 && zzvrt.Bool() {
					// a pattern whose text matters to the code emitter (format verbs, a backquote
					// cannot occur in a raw string literal)
					s.pattern = "^[0-9]{1,3}%d%%$"
				}
			}
		} else {
			switch zzvrt.Choice(zzvrt.Param("STRSHAPES", 8)) {
			case 1:
				s.minLen, s.maxLen, s.pattern = zzLimit(), zzLimit(), zzPattern
			case 2:
				s.maxLen = zzLimit()
			}
		}
		t.MinLength, t.MaxLength, t.Pattern = s.minLen, s.maxLen, s.pattern
		if zzvrt.Param("STRFMT", 0) == 1 && zzvrt.Bool() {
			// a format the generator maps to no library type is an annotation: the string stays
			// a plain string and keeps its rules
			t.Format = []string{"email", "uuid", "hostname"}[zzvrt.Choice(3)]
		}
	case zzKNumber:
		s.kind = "number"
		t.Type = zzTypeList("number", nullable)
		zzNumericShape(t, s)
		zzAnnotationFormat(t)
	case zzKInteger:
		s.kind = "integer"
		t.Type = zzTypeList("integer", nullable)
		zzNumericShape(t, s)
		zzAnnotationFormat(t)
	case zzKBoolean:
		s.kind = "boolean"
		t.Type = zzTypeList("boolean", nullable)
		zzAnnotationFormat(t)
	case zzKFormat:
		s.kind = "string"
		t.Type = zzTypeList("string", nullable)
		fs := []string{"date", "time", "date-time", "ipv4", "ipv6"}
		s.format = fs[zzvrt.Choice(len(fs))]
		t.Format = s.format
	case zzKArray:
		s.kind = "array"
		t.Type = zzTypeList("array", nullable)
		if zzvrt.Param("ARRSHAPES", 4) >= 4 {
			if zzvrt.Bool() {
				s.minItems = zzLimit()
			}
			if zzvrt.Bool() {
				s.maxItems = zzLimit()
			}
		} else {
			switch zzvrt.Choice(zzvrt.Param("ARRSHAPES", 4)) {
			case 1:
				s.minItems, s.maxItems = zzLimit(), zzLimit()
			case 2:
				s.minItems = zzLimit()
			}
		}
		t.MinItems, t.MaxItems = s.minItems, s.maxItems
		im := mask &^ (zzKObject | zzKEnumMixed | zzKAny)
		if pm := zzvrt.Param("ITEMKINDS", 0); pm != 0 {
			im = pm
		}
		it, is := zzGen(im, depth-1, false)
		t.Items, s.items = it, is
	case zzKObject:
		s.kind = "object"
		t.Type = zzTypeList("object", nullable)
		om := mask &^ zzKObject
		if pm := zzvrt.Param("ITEMKINDS", 0); pm != 0 {
			om = pm
		}
		pt, ps := zzGen(om, depth-1, true)
		req := zzvrt.Bool()
		t.Properties = map[string]*schemas.Type{"p": pt}
		s.props = map[string]*zzSpec{"p": ps}
		s.order = []string{"p"}
		s.required = map[string]bool{"p": req}
		if req {
			t.Required = []string{"p"}
		}
		if zzvrt.Param("GHOSTREQ", 0) == 1 && zzvrt.Bool() {
			// the required list also names a key the object does not declare, before or after the
			// declared one (the documents of the unit carry that key, so it decides nothing)
			if zzvrt.Bool() {
				t.Required = append([]string{"ghost"}, t.Required...)
			} else {
				t.Required = append(t.Required, "ghost")
			}
			s.ghost = true
		}
	case zzKEnumString:
		s.kind = "enum-string"
		if zzvrt.Bool() {
			t.Type = schemas.TypeList{"string"}
		}
		s.enumS = zzEnumStrings()
		t.Enum = []interface{}{s.enumS[0], s.enumS[1]}
	case zzKEnumInt:
		s.kind = "enum-int"
		if zzvrt.Bool() {
			t.Type = schemas.TypeList{"integer"}
			s.format = "typed"
		}
		s.enumF = []float64{1, 2}
		if zzvrt.Param("ENUMBIG", 0) == 1 && zzvrt.Bool() {
			// members near the edge of what a JSON number (float64) holds exactly: odd integers
			// between 2^52 and 2^53, positive and negative, and zero
			s.enumF = []float64{9007199254740991, -4503599627370497, 0}
		}
		t.Enum = nil
		for _, v := range s.enumF {
			t.Enum = append(t.Enum, v)
		}
	case zzKEnumMixed:
		s.kind = "enum-mixed"
		s.enumS = []string{"a"}
		s.enumF = []float64{1.5}
		t.Enum = []interface{}{"a", 1.5, true, nil}
	case zzKAny:
		s.kind = "any"
	case zzKObjAP:
		// an object with a declared property AND typed additionalProperties: struct with an
		// AdditionalProperties map that collects the undeclared members
		s.kind = "object-ap"
		t.Type = zzTypeList("object", nullable)
		req := zzvrt.Bool()
		t.Properties = map[string]*schemas.Type{"p": {Type: schemas.TypeList{"string"}}}
		t.AdditionalProperties = &schemas.Type{Type: schemas.TypeList{"integer"}}
		s.props = map[string]*zzSpec{"p": {kind: "string"}}
		s.order = []string{"p"}
		s.required = map[string]bool{"p": req}
		if req {
			t.Required = []string{"p"}
		}
		s.items = &zzSpec{kind: "integer"}
	case zzKNull:
		// {"type": "null"}: only null is a value of this position
		s.kind = "null"
		t.Type = schemas.TypeList{"null"}
	case zzKEnumStrNull:
		// strings plus null, untyped or with the two-entry type list
		s.kind = "enum-string-null"
		if zzvrt.Bool() {
			t.Type = schemas.TypeList{"string", "null"}
		}
		s.enumS = zzEnumStrings()
		t.Enum = []interface{}{s.enumS[0], s.enumS[1], nil}
	case zzKMap:
		// an object without properties whose additionalProperties are typed: map[string]T
		s.kind = "map"
		t.Type = zzTypeList("object", nullable)
		elems := []string{"string", "number", "integer", "boolean", "ref:integer"}
		e := elems[zzvrt.Choice(len(elems))]
		if e == "ref:integer" {
			// values typed only indirectly, through a $ref to a definition
			t.AdditionalProperties = &schemas.Type{Ref: "#/$defs/MapElem"}
			s.defs = map[string]*schemas.Type{"MapElem": {Type: schemas.TypeList{"integer"}}}
			e = "integer"
		} else {
			t.AdditionalProperties = &schemas.Type{Type: schemas.TypeList{e}}
		}
		s.items = &zzSpec{kind: e}
	}
	if zzvrt.Param("DESC", 0) == 1 && zzvrt.Bool() {
		// free text that ends up in comments of the emitted file
		t.Description = "first line\nsecond */ line // with \"quotes\", `backticks`, 100%d and a trailing backslash \\"
		t.Title = "A */ title\nwith a newline"
		if zzvrt.Bool() {
			// a SHORT text with line breaks (and an empty line)
			t.Description = "two\nlines\n\nand more"
		}
	}
	if zzvrt.Param("DEFAULTS", 0) == 1 && !(zzvrt.Param("NONULL", 0) == 1 && s.nullable) && zzvrt.Bool() {
		switch s.kind {
		case "string":
			if s.format == "" {
				s.hasDefault, s.defS = true, "dflt"
				t.Default = "dflt"
			}
		case "number":
			s.hasDefault, s.defF = true, 1.5
			t.Default = 1.5
		case "integer":
			s.hasDefault, s.defF = true, 3
			t.Default = 3.0
		case "boolean":
			s.hasDefault, s.defB = true, true
			t.Default = true
		case "any":
			// untyped property (interface{} field) whose default is a Go zero value, or a number
			// with a fractional part
			s.hasDefault, s.defF = true, 0
			if zzvrt.Bool() {
				s.defF = 2.5
			}
			t.Default = s.defF
		case "enum-string":
			s.hasDefault, s.defS = true, s.enumS[1]
			t.Default = s.enumS[1]
		case "array":
			if s.items != nil && s.items.kind == "string" {
				s.hasDefault = true
				s.defArr = []string{"a", "b"}
				if zzvrt.Param("DEFTEXT", 0) == 1 && zzvrt.Bool() {
					// elements whose text matters to the literal renderer
					s.defArr = []string{"100%d %s", "q\"uote\\back"}
				}
				t.Default = []interface{}{s.defArr[0], s.defArr[1]}
			}
		}
	}
	return t, s
}

// zzCloneType deep-copies a schema (sharing the symbolic leaves' values).
func zzCloneType(t *schemas.Type) *schemas.Type {
	if t == nil {
		return nil
	}
	c := *t
	cpF := func(p *float64) *float64 {
		if p == nil {
			return nil
		}
		v := *p
		return &v
	}
	cpA := func(p *any) *any {
		if p == nil {
			return nil
		}
		v := *p
		return &v
	}
	c.Minimum, c.Maximum, c.MultipleOf = cpF(t.Minimum), cpF(t.Maximum), cpF(t.MultipleOf)
	c.ExclusiveMinimum, c.ExclusiveMaximum = cpA(t.ExclusiveMinimum), cpA(t.ExclusiveMaximum)
	c.Items = zzCloneType(t.Items)
	if t.AnyOf != nil {
		c.AnyOf = nil
		for _, b := range t.AnyOf {
			c.AnyOf = append(c.AnyOf, zzCloneType(b))
		}
	}
	if t.AllOf != nil {
		c.AllOf = nil
		for _, b := range t.AllOf {
			c.AllOf = append(c.AllOf, zzCloneType(b))
		}
	}
	c.AdditionalProperties = zzCloneType(t.AdditionalProperties)
	if t.Properties != nil {
		c.Properties = map[string]*schemas.Type{}
		for k, v := range t.Properties {
			c.Properties[k] = zzCloneType(v)
		}
	}
	if t.Enum != nil {
		c.Enum = append([]interface{}{}, t.Enum...)
	}
	c.Type = append(schemas.TypeList{}, t.Type...)
	if len(t.Type) == 0 {
		c.Type = nil
	}
	c.Required = append([]string{}, t.Required...)
	if len(t.Required) == 0 {
		c.Required = nil
	}
	return &c
}

func zzCloneDefs(m map[string]*schemas.Type) map[string]*schemas.Type {
	out := map[string]*schemas.Type{}
	for k, v := range m {
		out[k] = zzCloneType(v)
	}
	return out
}

// zzSchemaKeywords: every keyword the parser knows (pkg/schemas ObjectAsType and the legacy pass).
var zzSchemaKeywords = []string{"$schema", "$ref", "multipleOf", "maximum", "exclusiveMaximum", "minimum", "exclusiveMinimum",
	"maxLength", "minLength", "pattern", "additionalItems", "items", "maxItems", "minItems", "uniqueItems",
	"maxProperties", "minProperties", "required", "properties", "patternProperties", "additionalProperties",
	"enum", "type", "allOf", "anyOf", "oneOf", "not", "title", "description", "default", "format", "media",
	"binaryEncoding", "dependentRequired", "$defs", "dependentSchemas", "goJSONSchema",
	"dependencies", "definitions", "$id", "id"}

// zzParsedBounds: the bound keywords of a number/integer schema arrive as a symbolic SCHEMA
// DOCUMENT -- minimum and maximum absent or a number, exclusiveMinimum and exclusiveMaximum
// absent, a boolean (draft 4) or a number (draft 6+), in every mixture -- and go through the
// REAL Type.UnmarshalJSON; what the generator gets is what the parser made of them, while the
// reference model's spec is read off the document itself.
func zzParsedBounds(t *schemas.Type, s *zzSpec) {
	d := zzvrt.NewDoc()
	zzvrt.Assume(zzvrt.Not(zzvrt.DMalformed(d)))
	zzvrt.Assume(zzvrt.DIs(d, "", zzvrt.KObject))
	for _, k := range zzSchemaKeywords {
		switch k {
		case "minimum", "maximum":
			zzvrt.Assume(zzvrt.Or(zzvrt.DIs(d, k, zzvrt.KAbsent), zzvrt.DIs(d, k, zzvrt.KNumber)))
		case "exclusiveMinimum", "exclusiveMaximum":
			zzvrt.Assume(zzvrt.Or(zzvrt.DIs(d, k, zzvrt.KAbsent), zzvrt.Or(zzvrt.DIs(d, k, zzvrt.KNumber), zzvrt.DIs(d, k, zzvrt.KBool))))
		default:
			zzvrt.Assume(zzvrt.DIs(d, k, zzvrt.KAbsent))
		}
	}
	var pt schemas.Type
	if err := json.Unmarshal(zzvrt.DocBytes(d, ""), &pt); err != nil {
		zzvrt.Note("parser: " + err.Error())
		zzvrt.Check("C05.L3.bound-keywords-parse", false)
		zzvrt.Assume(false)
	}
	num := func(k string) *float64 {
		if zzvrt.DIs(d, k, zzvrt.KNumber) {
			v := zzvrt.DFloat(d, k)
			return &v
		}
		return nil
	}
	excl := func(k string) *any {
		if zzvrt.DIs(d, k, zzvrt.KBool) {
			return zzAnyPtr(zzvrt.DBool(d, k))
		}
		if p := num(k); p != nil {
			return zzAnyPtr(*p)
		}
		return nil
	}
	s.min, s.max, s.exMin, s.exMax = num("minimum"), num("maximum"), excl("exclusiveMinimum"), excl("exclusiveMaximum")
	t.Minimum, t.Maximum, t.ExclusiveMinimum, t.ExclusiveMaximum = pt.Minimum, pt.Maximum, pt.ExclusiveMinimum, pt.ExclusiveMaximum
}

// zzAnnotationFormat (NONSTRFMT=1): a `format` on a number, integer or boolean schema. The
// formats are defined for strings; on any other type the keyword is an annotation and the
// value keeps the JSON type the schema states.
func zzAnnotationFormat(t *schemas.Type) {
	if zzvrt.Param("NONSTRFMT", 0) == 1 && zzvrt.Bool() {
		fs := []string{"date-time", "date", "time", "ipv4", "ipv6", "email"}
		t.Format = fs[zzvrt.Choice(len(fs))]
	}
}

//go:build verif

package codegen

import (
	"math"

	"github.com/atombender/go-jsonschema/internal/zzvrt"
)

func zzOptF() *float64 {
	if zzvrt.Bool() {
		f := zzvrt.Float64()
		return &f
	}
	return nil
}

func zzOptEx() *any {
	switch zzvrt.Choice(3) {
	case 0:
		return nil
	case 1:
		var a any = zzvrt.SymBool()
		return &a
	default:
		var a any = zzvrt.Float64()
		return &a
	}
}

// zzBounds is a value snapshot of the four bound keywords.
type zzBounds struct {
	hasMin, hasMax         bool
	min, max               float64
	exMinKind, exMaxKind   int // 0 absent, 1 bool, 2 number
	exMinB, exMaxB         bool
	exMinF, exMaxF         float64
}

func zzSnap(minimum, maximum *float64, exMin, exMax *any) zzBounds {
	var b zzBounds
	if minimum != nil {
		b.hasMin, b.min = true, *minimum
	}
	if maximum != nil {
		b.hasMax, b.max = true, *maximum
	}
	if exMin != nil {
		switch v := (*exMin).(type) {
		case bool:
			b.exMinKind, b.exMinB = 1, v
		case float64:
			b.exMinKind, b.exMinF = 2, v
		}
	}
	if exMax != nil {
		switch v := (*exMax).(type) {
		case bool:
			b.exMaxKind, b.exMaxB = 1, v
		case float64:
			b.exMaxKind, b.exMaxF = 2, v
		}
	}
	return b
}

// admI: the signed 64-bit integer x satisfies every stated bound (exact comparison).
func (b zzBounds) admI(x int64) bool {
	ok := true
	if b.hasMin {
		strict := b.exMinKind == 1 && b.exMinB
		if b.exMinKind == 1 {
			ok = zzvrt.And(ok, zzvrt.Or(zzvrt.IntGtF(x, b.min), zzvrt.And(zzvrt.Not(b.exMinB), zzvrt.IntGeF(x, b.min))))
		} else {
			_ = strict
			ok = zzvrt.And(ok, zzvrt.IntGeF(x, b.min))
		}
	}
	if b.exMinKind == 2 {
		ok = zzvrt.And(ok, zzvrt.IntGtF(x, b.exMinF))
	}
	if b.hasMax {
		if b.exMaxKind == 1 {
			ok = zzvrt.And(ok, zzvrt.Or(zzvrt.IntLtF(x, b.max), zzvrt.And(zzvrt.Not(b.exMaxB), zzvrt.IntLeF(x, b.max))))
		} else {
			ok = zzvrt.And(ok, zzvrt.IntLeF(x, b.max))
		}
	}
	if b.exMaxKind == 2 {
		ok = zzvrt.And(ok, zzvrt.IntLtF(x, b.exMaxF))
	}
	return ok
}

// admU: same for an unsigned 64-bit integer.
func (b zzBounds) admU(x uint64) bool {
	ok := true
	if b.hasMin {
		if b.exMinKind == 1 {
			ok = zzvrt.And(ok, zzvrt.Or(zzvrt.UintGtF(x, b.min), zzvrt.And(zzvrt.Not(b.exMinB), zzvrt.UintGeF(x, b.min))))
		} else {
			ok = zzvrt.And(ok, zzvrt.UintGeF(x, b.min))
		}
	}
	if b.exMinKind == 2 {
		ok = zzvrt.And(ok, zzvrt.UintGtF(x, b.exMinF))
	}
	if b.hasMax {
		if b.exMaxKind == 1 {
			ok = zzvrt.And(ok, zzvrt.Or(zzvrt.UintLtF(x, b.max), zzvrt.And(zzvrt.Not(b.exMaxB), zzvrt.UintLeF(x, b.max))))
		} else {
			ok = zzvrt.And(ok, zzvrt.UintLeF(x, b.max))
		}
	}
	if b.exMaxKind == 2 {
		ok = zzvrt.And(ok, zzvrt.UintLtF(x, b.exMaxF))
	}
	return ok
}

func (b zzBounds) nonIntegral() bool {
	r := false
	if b.hasMin {
		r = zzvrt.Or(r, zzvrt.Not(zzvrt.IsIntegral(b.min)))
	}
	if b.hasMax {
		r = zzvrt.Or(r, zzvrt.Not(zzvrt.IsIntegral(b.max)))
	}
	if b.exMinKind == 2 {
		r = zzvrt.Or(r, zzvrt.Not(zzvrt.IsIntegral(b.exMinF)))
	}
	if b.exMaxKind == 2 {
		r = zzvrt.Or(r, zzvrt.Not(zzvrt.IsIntegral(b.exMaxF)))
	}
	return r
}

// admF: the integer x, given as an integral float64, satisfies every stated bound.
func (b zzBounds) admF(x float64) bool {
	ok := true
	if b.hasMin {
		if b.exMinKind == 1 {
			ok = zzvrt.And(ok, zzvrt.Or(x > b.min, zzvrt.And(zzvrt.Not(b.exMinB), x >= b.min)))
		} else {
			ok = zzvrt.And(ok, x >= b.min)
		}
	}
	if b.exMinKind == 2 {
		ok = zzvrt.And(ok, x > b.exMinF)
	}
	if b.hasMax {
		if b.exMaxKind == 1 {
			ok = zzvrt.And(ok, zzvrt.Or(x < b.max, zzvrt.And(zzvrt.Not(b.exMaxB), x <= b.max)))
		} else {
			ok = zzvrt.And(ok, x <= b.max)
		}
	}
	if b.exMaxKind == 2 {
		ok = zzvrt.And(ok, x < b.exMaxF)
	}
	return ok
}

type zzRange struct {
	signed bool
	width  int
	lo, hi int64   // for signed types and for unsigned types narrower than 64 bits
	flo    float64 // inclusive lower limit as float64
	fhiX   float64 // EXCLUSIVE upper limit as float64 (2^k is exact, 2^k-1 is not for k=63,64)
}

func zzTypeRange(t string) (zzRange, bool) {
	switch t {
	case "int8":
		return zzRange{true, 8, math.MinInt8, math.MaxInt8, -128, 128}, true
	case "int16":
		return zzRange{true, 16, math.MinInt16, math.MaxInt16, -32768, 32768}, true
	case "int32":
		return zzRange{true, 32, math.MinInt32, math.MaxInt32, -2147483648, 2147483648}, true
	case "int64", "int":
		return zzRange{true, 64, math.MinInt64, math.MaxInt64, -9223372036854775808, 9223372036854775808}, true
	case "uint8":
		return zzRange{false, 8, 0, math.MaxUint8, 0, 256}, true
	case "uint16":
		return zzRange{false, 16, 0, math.MaxUint16, 0, 65536}, true
	case "uint32":
		return zzRange{false, 32, 0, math.MaxUint32, 0, 4294967296}, true
	case "uint64", "uint":
		return zzRange{false, 64, 0, math.MaxInt64, 0, 18446744073709551616}, true // int64 view: upper half handled separately
	}
	return zzRange{}, false
}

func (r zzRange) holdsI(x int64) bool   { return zzvrt.And(x >= r.lo, x <= r.hi) }
func (r zzRange) holdsF(x float64) bool { return zzvrt.And(x >= r.flo, x < r.fhiX) }

var zzAllTypes = []string{"int8", "uint8", "int16", "uint16", "int32", "uint32", "int64", "uint64"}

// zzC15Setup draws the symbolic bounds (within the stated limits) and calls the real
// PrimitiveTypeFromJSONSchemaType with minIntSize=true.
func zzC15Setup() (before, after zzBounds, typ string, rng zzRange) {
	minimum, maximum := zzOptF(), zzOptF()
	exMin, exMax := zzOptEx(), zzOptEx()
	before = zzSnap(minimum, maximum, exMin, exMax)
	// bounds within +-2^64 (DESIGN C15 bounds)
	lim := 18446744073709551616.0
	for _, p := range []*float64{minimum, maximum} {
		if p != nil {
			zzvrt.Assume(zzvrt.And(*p > -lim, *p < lim))
		}
	}
	// exclusive-form bounds: |b| <= 2^53, where b+-1 is exact in float64 (beyond that the
	// JSON number itself is already rounded; stated as outside the claim)
	p53 := 9007199254740992.0
	if before.exMinKind == 2 {
		zzvrt.Assume(zzvrt.And(before.exMinF >= -p53, before.exMinF <= p53))
	}
	if before.exMaxKind == 2 {
		zzvrt.Assume(zzvrt.And(before.exMaxF >= -p53, before.exMaxF <= p53))
	}
	if before.exMinKind == 1 && before.hasMin {
		zzvrt.Assume(zzvrt.Or(zzvrt.Not(before.exMinB), zzvrt.And(before.min >= -p53, before.min <= p53)))
	}
	if before.exMaxKind == 1 && before.hasMax {
		zzvrt.Assume(zzvrt.Or(zzvrt.Not(before.exMaxB), zzvrt.And(before.max >= -p53, before.max <= p53)))
	}

	t, err := PrimitiveTypeFromJSONSchemaType("integer", "", false, true, &minimum, &maximum, &exMin, &exMax)
	if err != nil {
		zzvrt.Unreachable("PrimitiveTypeFromJSONSchemaType failed for integer")
	}
	pt, ok := t.(PrimitiveType)
	if !ok {
		zzvrt.Unreachable("not a PrimitiveType")
	}
	rng, ok = zzTypeRange(pt.Type)
	if !ok {
		zzvrt.Unreachable("unknown integer type " + pt.Type)
	}
	after = zzSnap(minimum, maximum, exMin, exMax)
	zzvrt.Cover("type:" + pt.Type)
	zzvrt.Note("type=" + pt.Type)
	return before, after, pt.Type, rng
}

// HarnessC15L1F: the integer domain is "integers exactly representable in float64" (all
// |x| <= 2^53 and every type limit 2^k); every query is pure floating point.
func HarnessC15L1F() {
	before, after, _, rng := zzC15Setup()
	x := zzvrt.Float64()
	zzvrt.Assume(zzvrt.IsIntegral(x))
	// stated domain of this unit: |x| < 2^53, where every integer and x+-1 are exact in float64
	// (with IEEE semantics and no such bound the solver offers x = -9.9e232 under a one-sided
	// bound -- an integer no Go type holds, which the property cannot be about; the 64-bit edges
	// belong to the int64/uint64 unit).  Found as a false alarm of the thorough tier and corrected.
	zzvrt.Assume(zzvrt.And(x > -9007199254740992.0, x < 9007199254740992.0))

	// (1) representable
	zzvrt.Check("C15.L1.representable", zzvrt.Implies(before.admF(x), rng.holdsF(x)))
	// (3)+(4) within the type's range, the remaining bounds (with the values they have after
	// the call) admit exactly what the stated bounds admitted.
	zzvrt.Check("C15.L1.sound-removal", zzvrt.Implies(rng.holdsF(x), zzvrt.Iff(after.admF(x), before.admF(x))))

	// (2) narrowest.  The admitted set is the integer interval [loE, hiE] (lemma checked); a
	// narrower type T' would do iff it contains both ends.
	inf := math.Inf(1)
	loE, hiE := -inf, inf
	if before.hasMin {
		c := math.Ceil(before.min)
		if before.exMinKind == 1 {
			c = zzvrt.IteF(before.exMinB, math.Floor(before.min)+1, c)
		}
		loE = zzvrt.IteF(c > loE, c, loE)
	}
	if before.exMinKind == 2 {
		c := math.Floor(before.exMinF) + 1
		loE = zzvrt.IteF(c > loE, c, loE)
	}
	if before.hasMax {
		c := math.Floor(before.max)
		if before.exMaxKind == 1 {
			c = zzvrt.IteF(before.exMaxB, math.Ceil(before.max)-1, c)
		}
		hiE = zzvrt.IteF(c < hiE, c, hiE)
	}
	if before.exMaxKind == 2 {
		c := math.Ceil(before.exMaxF) - 1
		hiE = zzvrt.IteF(c < hiE, c, hiE)
	}
	zzvrt.Check("C15.L1.lemma-interval", zzvrt.Iff(before.admF(x), zzvrt.And(x >= loE, x <= hiE)))
	nonEmpty := loE <= hiE
	for _, cand := range zzAllTypes {
		cr, _ := zzTypeRange(cand)
		if cr.width >= rng.width {
			continue
		}
		zzvrt.Check("C15.L1.narrowest", zzvrt.Implies(nonEmpty, zzvrt.Or(loE < cr.flo, hiE >= cr.fhiX)))
	}
}

// HarnessC15L1B: the integer domain is every int64 plus the uint64 window above MaxInt64,
// compared exactly with the float64 bounds (bit-vector/float conversions: slower queries).
func HarnessC15L1B() {
	before, after, typ, rng := zzC15Setup()
	x := zzvrt.Int64()
	u := zzvrt.Uint64()
	zzvrt.Assume(u > math.MaxInt64)

	zzvrt.Check("C15.L1.representable.int64", zzvrt.Implies(before.admI(x), rng.holdsI(x)))
	// Integers above MaxInt64 need uint64 -- provided no negative integer is admitted (if
	// both are admitted no Go integer type fits; outside the property).
	nonNeg := false
	if before.hasMin {
		nonNeg = zzvrt.Or(nonNeg, before.min > -1)
		if before.exMinKind == 1 {
			nonNeg = zzvrt.Or(nonNeg, zzvrt.And(before.exMinB, before.min >= -1))
		}
	}
	if before.exMinKind == 2 {
		nonNeg = zzvrt.Or(nonNeg, before.exMinF >= -1)
	}
	zzvrt.Check("C15.L1.representable.uint64hi", zzvrt.Implies(zzvrt.And(before.admU(u), nonNeg), typ == "uint64"))
	zzvrt.Check("C15.L1.sound-removal.int64", zzvrt.Implies(rng.holdsI(x), zzvrt.Iff(after.admI(x), before.admI(x))))
	if typ == "uint64" {
		zzvrt.Check("C15.L1.sound-removal.uint64hi", zzvrt.Iff(after.admU(u), before.admU(u)))
	}
}

//go:build verif

package types

import (
	"github.com/atombender/go-jsonschema/internal/zzvrt"
)

// HarnessDatePrintParse: every valid date marshals to text that unmarshals to the same date.
func HarnessDatePrintParse() {
	d := SerializableDate{zzvrt.SymDate()}
	b, err := d.MarshalJSON()
	zzvrt.Cover("date:print-parse")
	zzvrt.Check("C02.types.date-marshals", err == nil)
	var back SerializableDate
	uerr := back.UnmarshalJSON(b)
	zzvrt.Check("C02.types.date-text-parses-back", uerr == nil)
	if uerr == nil {
		zzvrt.Check("C02.types.date-survives-the-round-trip", zzvrt.SameInstant(back.Time, d.Time))
	}
}

// HarnessDateParsePrint: whatever bytes UnmarshalJSON accepts, MarshalJSON prints back
// unchanged (null is accepted as a no-op and is the one exception).
func HarnessDateParsePrint() {
	n := zzvrt.Choice(zzvrt.Param("L", 14))
	in := zzvrt.SymBytes(n)
	var d SerializableDate
	err := d.UnmarshalJSON(in)
	zzvrt.Cover("date:parse-print")
	if err != nil {
		return
	}
	if string(in) == "null" {
		return
	}
	out, merr := d.MarshalJSON()
	zzvrt.Check("C02.types.accepted-date-marshals", merr == nil)
	if merr == nil {
		zzvrt.Check("C02.types.accepted-date-text-is-reproduced", zzvrt.BytesEq(out, in))
	}
}

// HarnessTimePrintParse / HarnessTimeParsePrint: the same for SerializableTime.
func HarnessTimePrintParse() {
	t := SerializableTime{zzvrt.SymClock()}
	b, err := t.MarshalJSON()
	zzvrt.Cover("time:print-parse")
	zzvrt.Check("C02.types.time-marshals", err == nil)
	var back SerializableTime
	uerr := back.UnmarshalJSON(b)
	zzvrt.Check("C02.types.time-text-parses-back", uerr == nil)
	if uerr == nil {
		zzvrt.Check("C02.types.time-survives-the-round-trip", zzvrt.SameInstant(back.Time, t.Time))
	}
}

func HarnessTimeParsePrint() {
	n := zzvrt.Choice(zzvrt.Param("L", 14))
	in := zzvrt.SymBytes(n)
	var t SerializableTime
	err := t.UnmarshalJSON(in)
	zzvrt.Cover("time:parse-print")
	if err != nil {
		return
	}
	if string(in) == "null" {
		return
	}
	out, merr := t.MarshalJSON()
	zzvrt.Check("C02.types.accepted-time-marshals", merr == nil)
	if merr == nil {
		// recorded finding: fractional seconds are accepted and dropped on the way back
		zzvrt.Check("C02.types.accepted-time-text-is-reproduced", zzvrt.BytesEq(out, in),
			zzvrt.Dev{Name: "time-fractional-seconds-dropped", Cond: len(in) > 10})
	}
}

// HarnessDateAllOrNothing / HarnessTimeAllOrNothing (C19): UnmarshalJSON on L symbolic bytes with
// an arbitrary PRIOR value in the receiver: when it returns an error the receiver still holds
// the prior value.
func HarnessDateAllOrNothing() {
	n := zzvrt.Choice(zzvrt.Param("L", 14))
	in := zzvrt.SymBytes(n)
	prior := zzvrt.SymDate()
	d := SerializableDate{prior}
	err := d.UnmarshalJSON(in)
	zzvrt.Cover("date:all-or-nothing")
	if err != nil {
		zzvrt.Check("C19.types.date-receiver-unchanged-on-error", zzvrt.SameInstant(d.Time, prior))
	}
}

func HarnessTimeAllOrNothing() {
	n := zzvrt.Choice(zzvrt.Param("L", 14))
	in := zzvrt.SymBytes(n)
	prior := zzvrt.SymClock()
	t := SerializableTime{prior}
	err := t.UnmarshalJSON(in)
	zzvrt.Cover("time:all-or-nothing")
	if err != nil {
		zzvrt.Check("C19.types.time-receiver-unchanged-on-error", zzvrt.SameInstant(t.Time, prior))
	}
}

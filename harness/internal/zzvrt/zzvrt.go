//go:build verif

// Package zzvrt declares the intrinsics that verification harnesses use.  The functions
// have no bodies: the gosym engine intercepts them.  The package exists only in the
// go/packages overlay; it is never written into the repository.
package zzvrt

import "time"

// Free (solver-less) nondeterministic choices: the engine forks.
func Bool() bool
func Choice(n int) int

// Symbolic values: fresh SMT variables.  Float64 is finite (JSON cannot carry NaN/Inf).
func SymBool() bool
func Float64() float64
func Int64() int64
func Int() int
func Uint64() uint64
func Rune() rune
func Str() string

// Assume restricts the path to values satisfying c.
func Assume(c bool)

// Non-short-circuit connectives on (possibly symbolic) booleans.
func And(a, b bool) bool
func Or(a, b bool) bool
func Not(a bool) bool
func Implies(a, b bool) bool
func Iff(a, b bool) bool
func IteF(c bool, a, b float64) float64
func IteI(c bool, a, b int64) int64

// IsIntegral reports whether f has no fractional part.
func IsIntegral(f float64) bool

// CeilI / FloorI: least integer >= f / greatest integer <= f (f within int64 range).
func CeilI(f float64) int64
func FloorI(f float64) int64

// Exact comparisons (over the reals) between an integer and a float64.
func IntGeF(x int64, b float64) bool
func IntGtF(x int64, b float64) bool
func IntLeF(x int64, b float64) bool
func IntLtF(x int64, b float64) bool
func UintGeF(x uint64, b float64) bool
func UintGtF(x uint64, b float64) bool
func UintLeF(x uint64, b float64) bool
func UintLtF(x uint64, b float64) bool

// Dev is a behavioural deviation offered to Check: "the implementation behaves like the
// reference model patched by <Name>".  See DESIGN §7.1.
type Dev struct {
	Name string
	Cond bool
}

// Check asserts cond for all values on the current path.
func Check(id string, cond bool, devs ...Dev)

// Cover marks a shape class as reached (vacuity guard).
func Cover(tag string)


// SchedulesDone: from here on a range over a map is no longer a schedule choice (key order);
// for steps that repeat work whose schedules have been explored already.
func SchedulesDone()

func Emit(name, text string)
func Note(s string)
func Param(name string, def int) int
func Witness(name string, v any)
func Events() []string
func Unreachable(why string)

// ---- stage 2: the emitted program (DESIGN §4) ----

// JSON kinds of a document node.
const (
	KAbsent = 0
	KNull   = 1
	KBool   = 2
	KNumber = 3
	KString = 4
	KArray  = 5
	KObject = 6
)

// Stage2 parses, type-checks (against the real dependency packages) and builds SSA for
// emitted Go text; the result is a handle.
func Stage2(src string) int
func Stage2As(src, importPath string) int
func S2OK(h int) bool
func S2Errors(h int) string
func S2FmtStable(h int) bool
func S2Fits(h int) bool
func S2HasType(h int, typ string) bool
func S2HasMethod(h int, typ, method string) bool

// NewDoc creates a symbolic document; Unmarshal runs (*typ).UnmarshalJSON / UnmarshalYAML of
// the emitted package on it and returns a result handle.
func NewDoc() int
func Unmarshal(h int, typ, format string, doc int) int

// RStatus: 0 accepted, 1 rejected with an error, 2 panicked.
func RStatus(r int) int
func RMsg(r int) string
func RUnchanged(r int) bool

// RMarshalBack: json.Marshal of (a pointer to) the decoded value reproduces every non-empty
// declared value of doc (keys the output omits must be absent, null or empty in doc; keys the
// document lacks may appear; undeclared keys are outside the statement).
func RMarshalBack(r, doc int) bool

// RExtrasCollected: the map field at goPath of the decoded value holds exactly the undeclared
// members (the extra members that are present) of the document node at docPath, with their values.
func RExtrasCollected(r int, goPath string, doc int, docPath string) bool

// REqual: the values decoded by two runs are equal (structurally, symbolic leaves by term).
func REqual(r1, r2 int) bool

// Document accessors (path: member names / array indices separated by '/', "" = root;
// extra members of an object are "+0", "+1", ...).
func DIs(doc int, path string, kind int) bool
func DBool(doc int, path string) bool
func DInt(doc int, path string) int64
func DIsInt(doc int, path string) bool
func DFloat(doc int, path string) float64
func DStr(doc int, path string) string
func DLen(doc int, path string) int
func DMalformed(doc int) bool
func RuneLen(s string) int
func Matches(s, pattern string) bool

// Decoded-value accessors (path of Go field names / indices below the receiver).
func OGet(r int, path string) any
func OIsNil(r int, path string) bool
func OInt(r int, path string) int64
func OFloat(r int, path string) float64
func OStr(r int, path string) string
func OBool(r int, path string) bool
func OLen(r int, path string) int

// OKind: dynamic kind of an interface{} value: 0 nil, 1 bool, 2 number, 3 string, 4 other.
func OKind(r int, path string) int

// CompareDecls compares two emitted files at the declaration level; "" = they relate as
// mode prescribes ("only-models": same type declarations, no funcs/vars in the second;
// "tags": equal after erasing struct tags; "no-yaml": second = first minus YAML code).
func CompareDecls(a, b, mode string) string

// ---- text kernels (pkg/types): symbolic bytes and calendar times ----

// SymBytes: n symbolic bytes.  SymDate: a valid calendar date (years 0..9999) at midnight UTC.
// SymClock: a time of day on 0000-01-01 UTC, whole seconds.  SameInstant: equal times.
func SymBytes(n int) []byte
func SymDate() time.Time
func SymClock() time.Time
func SameInstant(a, b time.Time) bool
func BytesEq(a, b []byte) bool

// StringConsts: "Name|Type|Value" of every string constant declared in the emitted source (sorted).
func StringConsts(src string) []string

// MethodTypes: the names of the types in the emitted source that declare the method (sorted).
func MethodTypes(src, method string) []string

// VFile declares a path of the virtual file system (os.Stat succeeds exactly for these).
func VFile(path string)

// ---- the CLI as a unit (main.go's Run closure with the real loaders and parser) ----

// VFileData declares a file of the virtual file system with concrete content.
func VFileData(path, content string)

// CatchExit runs f and returns the status the program passed to os.Exit (-1: f returned).
// At most one call per harness path.
func CatchExit(f func()) int

// Outcome: stdout, stderr and every file written (all under /tmp/zzvfs/out), canonically
// ordered; Stdout/Stderr/WrittenFiles/WrittenFile give the parts.
func Outcome() string
func Stdout() string
func Stderr() string
func WrittenFiles() []string
func WrittenFile(path string) string

// RuneString returns a string of n symbolic runes (each ranging over all realizable Unicode
// attribute classes); RuneCount / RuneAt inspect (possibly symbolic) strings rune-wise.
func RuneString(n int) string
func RuneCount(s string) int
func RuneAt(s string, i int) rune

// RuneSource: the input rune a (case-mapped) result rune derives from.
func RuneSource(r rune) rune

// ---- schema documents through the real parser (C13) ----

// DocBytes: the bytes of a (sub)document, to hand to json.Unmarshal / UnmarshalJSON methods.
func DocBytes(doc int, path string) []byte

// DocAlias: a view of doc in which, at every object level, viewKey reads base's baseKey (pairs
// viewKey, baseKey) and base's baseKey itself is not visible: the same document re-spelled.
func DocAlias(doc int, pairs ...string) int

// DocWrapArray: the document [x] where x is the node at path of doc.
func DocWrapArray(doc int, path string) int

// SameParsed: structural equality of two parsed values (symbolic leaves by term), ignoring
// the named struct fields.
func SameParsed(a, b any, ignoreFields ...string) bool

//go:build verif

package text

import (
	"unicode"

	"github.com/atombender/go-jsonschema/internal/zzvrt"
)

// HarnessC14L1: Identifierize on strings of R symbolic runes (every rune ranges over all
// realizable Unicode attribute classes): the result is a non-empty, exported, valid Go
// identifier.
func HarnessC14L1() {
	n := 1 + zzvrt.Choice(zzvrt.Param("R", 3))
	s := zzvrt.RuneString(n)
	c := NewCaser(nil, nil)
	id := c.Identifierize(s)
	cnt := zzvrt.RuneCount(id)
	zzvrt.Cover("runes:" + string(rune('0'+n)))
	zzvrt.Check("C14.L1.non-empty", cnt > 0)
	if cnt == 0 {
		return
	}
	first := zzvrt.RuneAt(id, 0)
	// recorded finding q: a lower-case letter without an upper-case mapping stays lower-case
	zzvrt.Check("C14.L1.exported", unicode.IsUpper(first),
		zzvrt.Dev{Name: "lowercase-letter-without-uppercase-mapping", Cond: zzvrt.And(zzvrt.And(unicode.IsLower(first), unicode.IsLetter(first)),
			unicode.ToUpper(zzvrt.RuneSource(first)) == zzvrt.RuneSource(first))})
	valid := true
	nonNd := false
	for i := 0; i < cnt; i++ {
		r := zzvrt.RuneAt(id, i)
		ok := zzvrt.Or(unicode.IsLetter(r), zzvrt.Or(unicode.IsDigit(r), r == '_'))
		if i == 0 {
			ok = zzvrt.Or(unicode.IsLetter(r), r == '_')
		}
		valid = zzvrt.And(valid, ok)
		nonNd = zzvrt.Or(nonNd, zzvrt.And(unicode.IsNumber(r), zzvrt.Not(unicode.IsDigit(r))))
	}
	// recorded finding p: numerals that are not decimal digits (No, Nl) are kept
	zzvrt.Check("C14.L1.valid-identifier", valid, zzvrt.Dev{Name: "non-decimal-numerals-kept", Cond: nonNd})
}

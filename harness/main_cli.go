//go:build verif

package main

import (
	"fmt"
	"sort"
	"strings"

	"github.com/atombender/go-jsonschema/internal/zzvrt"
	"github.com/atombender/go-jsonschema/pkg/generator"
)

// The CLI as a unit: main.go's Run closure is driven with the flag variables set directly
// (cobra's flag parsing is a library and stays outside), on a virtual file system whose
// schema files go through the real loaders and the real parser.

const (
	zzIn  = "/tmp/zzvfs/in"
	zzOut = "/tmp/zzvfs/out"

	zzWidget = `{"$id": "https://example.com/widget#", "title": "Widget Thing", "type": "object",
  "properties": {"size": {"type": "integer", "minimum": 1, "maximum": 100}}, "required": ["size"]}`
	zzGadget = `{"$id": "https://example.com/gadget", "type": "object",
  "properties": {"w": {"$ref": "widget.json"}}}`
	zzBadType    = `{"$id": "https://example.com/bad", "type": "object", "properties": {"p": {"type": "numbr"}}}`
	zzBadRef     = `{"$id": "https://example.com/bad", "type": "object", "properties": {"p": {"$ref": "#/$defs/Missing"}}}`
	zzBadFileRef = `{"$id": "https://example.com/bad", "type": "object", "properties": {"p": {"$ref": "nowhere.json"}}}`
	zzMalformed  = `{"$id": "https://example.com/bad", "type": "object", `
)

func zzResetFlags() {
	verbose, extraImports, onlyModels, structNameFromTitle, minSizedInts = false, false, false, false, false
	defaultPackage, defaultOutput = "", "-"
	schemaPackages, schemaOutputs, schemaRootTypes = nil, nil, nil
	capitalizations, resolveExtensions = nil, nil
	yamlExtensions = []string{".yml", ".yaml"}
	tags = []string{"json", "yaml", "mapstructure"}
}

const (
	zzBadDefs  = `{"$id": "https://example.com/bad", "type": "object", "definitions": {"A": {"type": "string"}, "B": {"type": 7}}}`
	zzBadDefs2 = `{"$id": "https://example.com/bad", "type": "object", "$defs": {"A": {"required": "sku"}}}`
	zzBadProps = `{"$id": "https://example.com/bad", "type": "object", "properties": {"p": {"properties": []}}}`
	// a file that cannot be parsed, referenced first from an allOf/anyOf branch (where a
	// resolution failure is only a warning) and needed again afterwards
	zzUsesTwice = `{"$id": "https://example.com/uses", "type": "object", "properties": {
	  "a": {"allOf": [{"$ref": "malformed.json"}, {"type": "object", "properties": {"k": {"type": "string"}}}]},
	  "z": {"$ref": "malformed.json"}}}`
	zzUsesAnyOf = `{"$id": "https://example.com/uses2", "type": "object", "properties": {
	  "a": {"anyOf": [{"$ref": "baddefs.json"}, {"type": "object", "properties": {"k": {"type": "string"}}}]}}}`
	zzBadItems = `{"$id": "https://example.com/bad", "type": "object", "properties": {"p": {"type": "array", "items": {"minLength": "3"}}}}`
)

// zzDirs: the same schema directory at different places; the place must not matter (C12).
var zzDirs = []string{zzIn, "/tmp/zzvfs/in#42/schemas", "/tmp/zzvfs/what?/in", "/tmp/zzvfs/a b/in.d"}

func zzFilesAt(dir string) {
	zzvrt.VFileData(dir+"/widget.json", zzWidget)
	zzvrt.VFileData(dir+"/gadget.json", zzGadget)
}

func zzFiles() {
	zzvrt.VFileData(zzIn+"/usestwice.json", zzUsesTwice)
	zzvrt.VFileData(zzIn+"/usesanyof.json", zzUsesAnyOf)
	zzvrt.VFileData(zzIn+"/baddefs.json", zzBadDefs)
	zzvrt.VFileData(zzIn+"/baddefs2.json", zzBadDefs2)
	zzvrt.VFileData(zzIn+"/badprops.json", zzBadProps)
	zzvrt.VFileData(zzIn+"/baditems.json", zzBadItems)
	zzvrt.VFileData(zzIn+"/widget.json", zzWidget)
	zzvrt.VFileData(zzIn+"/gadget.json", zzGadget)
	zzvrt.VFileData(zzIn+"/badtype.json", zzBadType)
	zzvrt.VFileData(zzIn+"/badref.json", zzBadRef)
	zzvrt.VFileData(zzIn+"/badfileref.json", zzBadFileRef)
	zzvrt.VFileData(zzIn+"/malformed.json", zzMalformed)
}

// HarnessCLIDeterminism (C12): under every iteration order of every map the CLI ranges over
// (flag maps, allKeys, Sources, ...), the same arguments give the same exit status, the same
// bytes on stdout and the same files with the same names.
func HarnessCLIDeterminism() {
	zzResetFlags()
	zzFiles()
	defaultPackage = "gen"
	// where the schema directory lives is not part of the class: all places must agree
	zzIn := zzDirs[zzvrt.Choice(len(zzDirs))]
	zzFilesAt(zzIn)
	args := []string{zzIn + "/widget.json"}
	sc := zzvrt.Choice(zzvrt.Param("SCENARIOS", 9))
	switch sc {
	case 0: // no mapping, standard output
	case 1: // one schema, package and output mapped under the same key
		schemaPackages = []string{"https://example.com/widget#=example.com/widgets"}
		schemaOutputs = []string{"https://example.com/widget#=" + zzOut + "/w/widget.go"}
	case 2: // two spellings of one id: only the exact one applies
		schemaPackages = []string{"https://example.com/widget=example.com/other"}
		schemaOutputs = []string{"https://example.com/widget#=" + zzOut + "/w/widget.go"}
	case 3: // both spellings in one flag map, different values
		schemaPackages = []string{"https://example.com/widget=example.com/other", "https://example.com/widget#=example.com/widgets"}
		schemaRootTypes = []string{"https://example.com/widget=Other", "https://example.com/widget#=Widget"}
	case 4: // two schemas, everything mapped
		args = []string{zzIn + "/gadget.json", zzIn + "/widget.json"}
		schemaPackages = []string{"https://example.com/widget#=example.com/widgets", "https://example.com/gadget=example.com/gadgets"}
		schemaOutputs = []string{"https://example.com/widget#=" + zzOut + "/w/widget.go", "https://example.com/gadget=" + zzOut + "/g/gadget.go"}
		schemaRootTypes = []string{"https://example.com/gadget=TheGadget"}
	case 5: // two schemas, one default output file
		args = []string{zzIn + "/gadget.json"}
		defaultOutput = zzOut + "/all.go"
	case 8: // an ORDERED option list: two resolve extensions that both apply to the file named on
		// the command line (its root type name strips the first that fits) and to an extension-less
		// $ref (the first existing candidate is loaded)
		resolveExtensions = []string{".json", ".schema.json"}
		zzvrt.VFileData(zzIn+"/thing.schema.json", `{"$id": "https://example.com/thing", "type": "object", "properties": {"part": {"$ref": "part"}}}`)
		zzvrt.VFileData(zzIn+"/part.json", `{"$id": "https://example.com/part-a", "type": "object", "properties": {"n": {"type": "integer"}}}`)
		zzvrt.VFileData(zzIn+"/part.schema.json", `{"$id": "https://example.com/part-b", "type": "object", "properties": {"s": {"type": "string"}}}`)
		args = []string{zzIn + "/thing.schema.json"}
	case 7: // two ids with DIFFERENT sets of mapping flags: output only / package and root type only
		args = []string{zzIn + "/gadget.json"}
		schemaOutputs = []string{"https://example.com/widget#=" + zzOut + "/w/widget.go"}
		schemaPackages = []string{"https://example.com/gadget=example.com/gadgets"}
		schemaRootTypes = []string{"https://example.com/gadget=TheGadget"}
	default: // two schemas: one to a file, the other to standard output
		args = []string{zzIn + "/widget.json", zzIn + "/gadget.json"}
		schemaOutputs = []string{"https://example.com/gadget=" + zzOut + "/g/gadget.go"}
	}
	code := zzvrt.CatchExit(func() { rootCmd.Run(rootCmd, args) })
	zzvrt.Cover(fmt.Sprintf("cli-scenario:%d", sc))
	zzvrt.Emit("outcome.txt", fmt.Sprintf("exit=%d\n%s", code, zzvrt.Outcome()))
	zzvrt.Check("C12.cli.run-succeeds", code == 0)
	if sc == 7 {
		// C20: every mapping applies to its own id only
		zzvrt.Check("C20.cli.each-mapping-applies-to-its-own-schema-only", code == 0 &&
			strings.Contains(zzvrt.WrittenFile(zzOut+"/w/widget.go"), "type WidgetJson struct") &&
			!strings.Contains(zzvrt.WrittenFile(zzOut+"/w/widget.go"), "TheGadget") &&
			len(zzvrt.WrittenFiles()) == 1 && zzvrt.Stdout() == "") // (a mapping without output: referenced, not written)
	}
}

// HarnessCLIFailures (C18): a run either succeeds completely (status 0, output complete) or
// fails with a non-zero status and a diagnostic on stderr, nothing on stdout and no file
// created -- whichever input or flag is at fault, wherever it sits among the arguments.
func HarnessCLIFailures() {
	zzResetFlags()
	zzFiles()
	defaultPackage = "gen"
	good := zzIn + "/widget.json"
	toFile := zzvrt.Bool()
	if toFile {
		defaultOutput = zzOut + "/gen.go"
		schemaOutputs = []string{"https://example.com/widget#=" + zzOut + "/w/widget.go"}
	}
	var args []string
	fault := ""
	switch zzvrt.Choice(12) {
	case 10:
		fault = "unparsable-file-referenced-from-allOf-and-again-by-a-property"
		args = []string{zzIn + "/usestwice.json"}
	case 11:
		fault = "unparsable-file-referenced-from-anyOf-and-again-on-the-command-line"
		args = []string{zzIn + "/usesanyof.json", zzIn + "/baddefs.json"}
	case 0:
		fault = "none"
		args = []string{good}
	case 1:
		fault = "no-arguments"
	case 2:
		fault = "no-package"
		defaultPackage = ""
		args = []string{good}
	case 3:
		fault = "malformed-mapping-flag"
		args = []string{good}
		bad := []string{"https://example.com/widget#"}
		switch zzvrt.Choice(3) {
		case 0:
			schemaPackages = bad
		case 1:
			schemaOutputs = bad
		default:
			schemaRootTypes = bad
		}
	default:
		// one bad input file, before or after a good one
		bads := []string{"/missing.json", "/malformed.json", "/badtype.json", "/badref.json", "/badfileref.json",
			"/baddefs.json", "/baddefs2.json", "/badprops.json", "/baditems.json"}
		names := []string{"missing-file", "unparsable-file", "unknown-type", "ref-to-missing-definition", "ref-to-missing-file",
			"wrongly-typed-keyword-in-definitions", "wrongly-typed-keyword-in-$defs", "wrongly-typed-keyword-in-a-property", "wrongly-typed-keyword-in-items"}
		k := zzvrt.Choice(len(bads))
		fault = names[k]
		// the bad file's $id: its own, the SAME as the good file's (two inputs may declare one
		// id: their declarations share an output), or none
		if k >= 2 {
			text := []string{"", "", zzBadType, zzBadRef, zzBadFileRef, zzBadDefs, zzBadDefs2, zzBadProps, zzBadItems}[k]
			switch zzvrt.Choice(3) {
			case 1:
				fault += "/same-id-as-the-good-file"
				zzvrt.VFileData(zzIn+bads[k], strings.Replace(text, "https://example.com/bad", "https://example.com/widget#", 1))
			case 2:
				fault += "/no-id"
				zzvrt.VFileData(zzIn+bads[k], strings.Replace(text, `"$id": "https://example.com/bad", `, "", 1))
			}
		}
		switch zzvrt.Choice(3) {
		case 0:
			args = []string{zzIn + bads[k]}
		case 1:
			fault += "/after-a-good-file"
			args = []string{good, zzIn + bads[k]}
		default:
			fault += "/before-a-good-file"
			args = []string{zzIn + bads[k], good}
		}
	}
	code := zzvrt.CatchExit(func() { rootCmd.Run(rootCmd, args) })
	zzvrt.Cover("cli-fault:" + fault)
	zzvrt.Note("fault=" + fault)
	stdout, stderr, files := zzvrt.Stdout(), zzvrt.Stderr(), zzvrt.WrittenFiles()
	zzvrt.Emit("outcome.txt", fmt.Sprintf("fault=%s args=%v exit=%d\n%s", fault, args, code, zzvrt.Outcome()))
	if fault == "none" {
		zzvrt.Check("C18.cli.success-is-complete", code == 0 && stderr == "" &&
			((toFile && stdout == "" && len(files) == 1 && strings.Contains(zzvrt.WrittenFile(files[0]), "package ")) ||
				(!toFile && len(files) == 0 && strings.Contains(stdout, "package gen"))))
		return
	}
	zzvrt.Check("C18.cli.failure-is-loud", code > 0 && strings.Contains(stderr, "Failed"))
	zzvrt.Check("C18.cli.failure-is-clean", stdout == "" && len(files) == 0)
}

// HarnessCLIFlagWiring (C16): every option reaches the generator configuration field it
// names and no other: the CLI's output equals what the library produces for the Config the
// flags denote.
func HarnessCLIFlagWiring() {
	zzResetFlags()
	zzFiles()
	defaultPackage = "gen"
	extraImports, onlyModels, structNameFromTitle, minSizedInts = zzvrt.Bool(), zzvrt.Bool(), zzvrt.Bool(), zzvrt.Bool()
	if zzvrt.Bool() {
		capitalizations = []string{"SIZE"}
	}
	if zzvrt.Bool() {
		tags = []string{"json"}
	}
	if zzvrt.Bool() {
		schemaRootTypes = []string{"https://example.com/widget#=Mapped"}
	}
	args := []string{zzIn + "/widget.json"}
	twoIDs := zzvrt.Choice(3)
	want := generator.Config{
		Warner: func(string) {}, ExtraImports: extraImports, Capitalizations: capitalizations,
		DefaultOutputName: "-", DefaultPackageName: "gen", SchemaMappings: []generator.SchemaMapping{},
		YAMLExtensions: []string{".yml", ".yaml"}, StructNameFromTitle: structNameFromTitle,
		Tags: tags, OnlyModels: onlyModels, MinSizedInts: minSizedInts,
	}
	switch twoIDs {
	case 1:
		// two schema ids with different sets of per-schema flags: what is given for one must
		// not reach the other (here the id that sorts first has the larger set)
		args = []string{zzIn + "/gadget.json"}
		schemaRootTypes = []string{"https://example.com/gadget=TheGadget"}
		schemaPackages = []string{"https://example.com/gadget=example.com/gadgets"}
		schemaOutputs = []string{"https://example.com/gadget=" + zzOut + "/g/gadget.go", "https://example.com/widget#=" + zzOut + "/w/widget.go"}
		want.SchemaMappings = []generator.SchemaMapping{
			{SchemaID: "https://example.com/gadget", PackageName: "example.com/gadgets", RootType: "TheGadget", OutputName: zzOut + "/g/gadget.go"},
			{SchemaID: "https://example.com/widget#", PackageName: "gen", OutputName: zzOut + "/w/widget.go"}}
	case 2:
		// ... and here the id that sorts last
		args = []string{zzIn + "/gadget.json"}
		schemaRootTypes = []string{"https://example.com/widget#=TheWidget"}
		schemaPackages = []string{"https://example.com/widget#=example.com/widgets"}
		schemaOutputs = []string{"https://example.com/gadget=" + zzOut + "/g/gadget.go", "https://example.com/widget#=" + zzOut + "/w/widget.go"}
		want.SchemaMappings = []generator.SchemaMapping{
			{SchemaID: "https://example.com/gadget", PackageName: "gen", OutputName: zzOut + "/g/gadget.go"},
			{SchemaID: "https://example.com/widget#", PackageName: "example.com/widgets", RootType: "TheWidget", OutputName: zzOut + "/w/widget.go"}}
	default:
		if schemaRootTypes != nil {
			want.SchemaMappings = append(want.SchemaMappings, generator.SchemaMapping{SchemaID: "https://example.com/widget#", PackageName: "gen", RootType: "Mapped"})
		}
	}
	code := zzvrt.CatchExit(func() { rootCmd.Run(rootCmd, args) })
	got := zzvrt.Stdout()
	zzvrt.Cover(fmt.Sprintf("cli-flags:e%v-m%v-t%v-s%v", extraImports, onlyModels, structNameFromTitle, minSizedInts))
	g, err := generator.New(want)
	if err != nil {
		zzvrt.Unreachable("New failed")
	}
	if err := g.DoFile(args[0]); err != nil {
		zzvrt.Note(err.Error())
		zzvrt.Check("C16.cli.flags-denote-the-same-configuration", code != 0)
		return
	}
	// every output of the library run is what the CLI wrote under that name, and nothing else
	srcs := g.Sources()
	same := code == 0 && len(zzvrt.WrittenFiles()) == len(srcs)-zzCount(srcs, "-")
	for _, name := range zzSortedNames(srcs) {
		text := zzvrt.WrittenFile(name)
		if name == "-" {
			text = got
		}
		zzvrt.Emit("cli_"+strings.ReplaceAll(name, "/", "_"), text)
		zzvrt.Emit("lib_"+strings.ReplaceAll(name, "/", "_"), string(srcs[name]))
		same = same && text == string(srcs[name])
	}
	if _, ok := srcs["-"]; !ok {
		same = same && got == ""
	}
	zzvrt.Check("C16.cli.flags-denote-the-same-configuration", same)
}

func zzCount(m map[string][]byte, name string) int {
	if _, ok := m[name]; ok {
		return 1
	}
	return 0
}

func zzSortedNames(m map[string][]byte) []string {
	var names []string
	for k := range m {
		names = append(names, k)
	}
	sort.Strings(names)
	return names
}

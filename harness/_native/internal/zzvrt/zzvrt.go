//go:build verif

// Package zzvrt, native edition: the same intrinsics with real bodies, fed from a recorded
// vector of draws.  Used to replay a solver model against the real code (DESIGN §6.4).
package zzvrt

import (
	"encoding/hex"
	"encoding/json"
	"fmt"
	"go/ast"
	"go/parser"
	"go/token"
	"math"
	"math/big"
	"os"
	"os/exec"
	"path/filepath"
	"runtime/debug"
	"sort"
	"strconv"
	"strings"
	"syscall"
	"time"
)

type draw struct {
	Kind string `json:"kind"`
	Bits string `json:"bits"` // value as unsigned decimal of the bit pattern
	N    int    `json:"n"`
	Val  int    `json:"val"`
	Str  string `json:"str"`
}

var (
	draws []draw
	pos   int
	out   = os.Stdout
)

type assumeFailed struct{}

func next(kind string) draw {
	if pos >= len(draws) {
		panic(fmt.Sprintf("zzvrt: draw vector exhausted at %d (%s)", pos, kind))
	}
	d := draws[pos]
	pos++
	if d.Kind != kind {
		panic(fmt.Sprintf("zzvrt: draw %d is %s, harness asked for %s", pos-1, d.Kind, kind))
	}
	return d
}

func bits(d draw) uint64 {
	u, _ := strconv.ParseUint(d.Bits, 10, 64)
	return u
}

func Bool() bool          { return next("bool").Val == 1 }
func Choice(n int) int    { return next("choice").Val }
func SymBool() bool       { return bits(next("sbool")) != 0 }
func Float64() float64    { return math.Float64frombits(bits(next("f64"))) }
func Int64() int64        { return int64(bits(next("i64"))) }
func Int() int            { return int(int64(bits(next("int")))) }
func Uint64() uint64      { return bits(next("u64")) }
func Rune() rune          { return rune(int32(uint32(bits(next("rune"))))) }
func Str() string         { return next("str").Str }
func And(a, b bool) bool  { return a && b }
func Or(a, b bool) bool   { return a || b }
func Not(a bool) bool     { return !a }
func Implies(a, b bool) bool { return !a || b }
func Iff(a, b bool) bool  { return a == b }
func IteF(c bool, a, b float64) float64 {
	if c {
		return a
	}
	return b
}
func IteI(c bool, a, b int64) int64 {
	if c {
		return a
	}
	return b
}
func IsIntegral(f float64) bool { return f == math.Trunc(f) }
func CeilI(f float64) int64     { return int64(math.Ceil(f)) }
func FloorI(f float64) int64    { return int64(math.Floor(f)) }

func cmpIF(x *big.Int, b float64) int {
	bf := new(big.Float).SetFloat64(b)
	xf := new(big.Float).SetPrec(200).SetInt(x)
	return xf.Cmp(bf)
}
func IntGeF(x int64, b float64) bool  { return cmpIF(big.NewInt(x), b) >= 0 }
func IntGtF(x int64, b float64) bool  { return cmpIF(big.NewInt(x), b) > 0 }
func IntLeF(x int64, b float64) bool  { return cmpIF(big.NewInt(x), b) <= 0 }
func IntLtF(x int64, b float64) bool  { return cmpIF(big.NewInt(x), b) < 0 }
func UintGeF(x uint64, b float64) bool { return cmpIF(new(big.Int).SetUint64(x), b) >= 0 }
func UintGtF(x uint64, b float64) bool { return cmpIF(new(big.Int).SetUint64(x), b) > 0 }
func UintLeF(x uint64, b float64) bool { return cmpIF(new(big.Int).SetUint64(x), b) <= 0 }
func UintLtF(x uint64, b float64) bool { return cmpIF(new(big.Int).SetUint64(x), b) < 0 }

func Assume(c bool) {
	if !c {
		panic(assumeFailed{})
	}
}

type Dev struct {
	Name string
	Cond bool
}

func Check(id string, cond bool, devs ...Dev) {
	var m []string
	for _, d := range devs {
		if d.Cond {
			m = append(m, d.Name)
		}
	}
	fmt.Fprintf(out, "ZZCHECK id=%s ok=%v devs=%s\n", id, cond, strings.Join(m, ","))
}

func SchedulesDone()    {}
func Cover(tag string) { fmt.Fprintf(out, "ZZCOVER %s\n", tag) }
func Note(s string)    { fmt.Fprintf(out, "ZZNOTE %s\n", s) }

func Emit(name, text string) {
	if dir := os.Getenv("ZZ_OUT"); dir != "" {
		_ = os.WriteFile(filepath.Join(dir, "emit_"+name+".txt"), []byte(text), 0o644)
	}
	fmt.Fprintf(out, "ZZEMIT name=%s bytes=%d\n", name, len(text))
}

func Param(name string, def int) int {
	if v := os.Getenv("ZZ_PARAM_" + name); v != "" {
		n, _ := strconv.Atoi(v)
		return n
	}
	return def
}

func Witness(name string, v any) {
	if dir := os.Getenv("ZZ_OUT"); dir != "" {
		b, err := json.MarshalIndent(v, "", "  ")
		if err == nil {
			_ = os.WriteFile(filepath.Join(dir, "witness_"+name+".json"), b, 0o644)
		}
	}
}

func Events() []string       { return nil }

// ---- stage 2 (native edition) ----
//
// Pass A: Stage2 writes the emitted source, Unmarshal writes a request; every accessor hands
// out the value recorded for the symbolic path (concretised from the solver model).
// Pass B (driver): the emitted source is compiled with the real libraries and the
// concrete documents are decoded; the observed outcomes come back through $ZZ_OBSERVED
// and override the recorded ones in a second run of the harness.

const (
	KAbsent = 0
	KNull   = 1
	KBool   = 2
	KNumber = 3
	KString = 4
	KArray  = 5
	KObject = 6
)

var (
	nS2, nDoc, nUnm int
	observed        struct {
		S2OK   map[string]bool   `json:"s2ok"`
		S2Err  map[string]string `json:"s2err"`
		Status map[string]int    `json:"status"`
		Msg    map[string]string `json:"msg"`
		MarshalBack map[string]bool `json:"marshalback"`
	}
)

func outFile(name string) string { return filepath.Join(os.Getenv("ZZ_OUT"), name) }

func Stage2(src string) int { return Stage2As(src, "") }

func Stage2As(src, importPath string) int {
	h := nS2
	nS2++
	_ = os.WriteFile(outFile(fmt.Sprintf("s2_%d.go.txt", h)), []byte(src), 0o644)
	_ = os.WriteFile(outFile(fmt.Sprintf("s2_%d.path", h)), []byte(importPath), 0o644)
	return h
}

func accBool(name string) bool     { return bits(next("acc:"+name)) != 0 }
func accInt(name string) int64     { return int64(bits(next("acc:" + name))) }
func accStr(name string) string    { return next("acc:" + name).Str }
func accF(name string) float64     { return math.Float64frombits(bits(next("acc:" + name))) }

func S2OK(h int) bool {
	rec := accBool("S2OK")
	if v, ok := observed.S2OK[strconv.Itoa(h)]; ok {
		return v
	}
	return rec
}
func S2Errors(h int) string {
	rec := accStr("S2Errors")
	if v, ok := observed.S2Err[strconv.Itoa(h)]; ok {
		return v
	}
	return rec
}
func S2FmtStable(h int) bool                 { return accBool("S2FmtStable") }
func S2Fits(h int) bool                      { return accBool("S2Fits") }
func S2HasType(h int, typ string) bool       { return accBool("S2HasType") }
func S2HasMethod(h int, typ, m string) bool  { return accBool("S2HasMethod") }
func RExtrasCollected(r int, goPath string, doc int, docPath string) bool {
	return accBool("RExtrasCollected")
}

func RMarshalBack(r, doc int) bool {
	rec := accBool("RMarshalBack")
	// observed natively by the stage-2 driver (real generated code, real encoding/json)
	if v, ok := observed.MarshalBack[strconv.Itoa(r)]; ok {
		return v
	}
	return rec
}
func NewDoc() int                            { d := nDoc; nDoc++; return d }

func Unmarshal(h int, typ, format string, doc int) int {
	k := nUnm
	nUnm++
	b, _ := json.Marshal(map[string]interface{}{"h": h, "typ": typ, "format": format, "doc": doc})
	_ = os.WriteFile(outFile(fmt.Sprintf("unm_%d.json", k)), b, 0o644)
	return k
}

func RStatus(r int) int {
	rec := int(accInt("RStatus"))
	if v, ok := observed.Status[strconv.Itoa(r)]; ok {
		return v
	}
	return rec
}
func RMsg(r int) string {
	rec := accStr("RMsg")
	if v, ok := observed.Msg[strconv.Itoa(r)]; ok {
		return v
	}
	return rec
}
func RUnchanged(r int) bool                       { return accBool("RUnchanged") }
func REqual(r1, r2 int) bool                      { return accBool("REqual") }
func DIs(doc int, path string, kind int) bool     { return accBool("DIs") }
func DBool(doc int, path string) bool             { return accBool("DBool") }
func DInt(doc int, path string) int64             { return accInt("DInt") }
func DIsInt(doc int, path string) bool            { return accBool("DIsInt") }
func DFloat(doc int, path string) float64         { return accF("DFloat") }
func DStr(doc int, path string) string            { return accStr("DStr") }
func DLen(doc int, path string) int               { return int(accInt("DLen")) }
func DMalformed(doc int) bool                     { return accBool("DMalformed") }
func RuneLen(s string) int                        { return int(accInt("RuneLen")) }
func Matches(s, pattern string) bool              { return accBool("Matches") }
func OGet(r int, path string) any                 { next("acc:OGet"); return nil }
func OIsNil(r int, path string) bool              { return accBool("OIsNil") }
func OInt(r int, path string) int64               { return accInt("OInt") }
func OFloat(r int, path string) float64           { return accF("OFloat") }
func OStr(r int, path string) string              { return accStr("OStr") }
func OBool(r int, path string) bool               { return accBool("OBool") }
func OLen(r int, path string) int                 { return int(accInt("OLen")) }
func CompareDecls(a, b, mode string) string {
	rec := accStr("CompareDecls")
	if r, ok := nativeCompareDecls(a, b, mode); ok {
		return r
	}
	return rec
}
func OKind(r int, path string) int                { return int(accInt("OKind")) }
func Unreachable(why string) { panic("zzvrt.Unreachable: " + why) }

// RunList executes the replays listed in $ZZ_LIST (lines: idx|Func|drawsfile|outdir).
func RunList(hs map[string]func()) {
	// unbounded recursion of the code under test must end the replay in seconds, not after the
	// runtime's default 1 GB of stack (minutes): "fatal error: stack overflow" is what the driver reads
	debug.SetMaxStack(64 << 20)
	b, err := os.ReadFile(os.Getenv("ZZ_LIST"))
	if err != nil {
		fmt.Fprintf(out, "ZZERROR %v\n", err)
		return
	}
	for _, line := range strings.Split(strings.TrimSpace(string(b)), "\n") {
		f := strings.Split(line, "|")
		if len(f) != 4 {
			continue
		}
		if c := os.Getenv("ZZ_CHILD"); c != "" && c != f[0] {
			continue // child process of CatchExit: only the replay that spawned it
		}
		curReplay = f[0]
		fmt.Fprintf(out, "ZZBEGIN %s\n", f[0])
		h := hs[f[1]]
		if h == nil {
			fmt.Fprintf(out, "ZZERROR no harness %s\n", f[1])
			continue
		}
		os.Setenv("ZZ_DRAWS", f[2])
		os.Setenv("ZZ_OUT", f[3])
		Run(h)
	}
}

// Run executes a harness under the draw vector in $ZZ_DRAWS.
func Run(h func()) {
	b, err := os.ReadFile(os.Getenv("ZZ_DRAWS"))
	if err != nil {
		fmt.Fprintf(out, "ZZERROR %v\n", err)
		return
	}
	if err := json.Unmarshal(b, &draws); err != nil {
		fmt.Fprintf(out, "ZZERROR %v\n", err)
		return
	}
	pos, nS2, nDoc, nUnm = 0, 0, 0, 0
	observed.S2OK, observed.S2Err, observed.Status, observed.Msg, observed.MarshalBack = nil, nil, nil, nil, nil
	if ob, err := os.ReadFile(filepath.Join(os.Getenv("ZZ_OUT"), "observed.json")); err == nil {
		_ = json.Unmarshal(ob, &observed)
	}
	defer func() {
		if p := recover(); p != nil {
			if _, ok := p.(assumeFailed); ok {
				fmt.Fprintf(out, "ZZASSUME-FAILED\n")
				return
			}
			fmt.Fprintf(out, "ZZPANIC %v\n", p)
			return
		}
		fmt.Fprintf(out, "ZZDONE draws=%d/%d\n", pos, len(draws))
	}()
	h()
}

// nativeCompareDecls: the comparison is re-done natively on the real outputs by the replay
// driver when available (files $ZZ_OUT/cmp_<n>_{a,b}.txt are written for inspection).
var nCmp int

func nativeCompareDecls(a, b, mode string) (string, bool) {
	_ = os.WriteFile(outFile(fmt.Sprintf("cmp_%d_a.txt", nCmp)), []byte(a), 0o644)
	_ = os.WriteFile(outFile(fmt.Sprintf("cmp_%d_b.txt", nCmp)), []byte(b), 0o644)
	_ = os.WriteFile(outFile(fmt.Sprintf("cmp_%d_mode.txt", nCmp)), []byte(mode), 0o644)
	nCmp++
	return compareDeclsNative(a, b, mode)
}

// text kernels (native edition)
func SymBytes(n int) []byte {
	b, _ := hex.DecodeString(next("bytes").Str)
	return b
}

func fields(kind string) []int {
	var out []int
	for _, f := range strings.Split(next(kind).Str, ",") {
		n, _ := strconv.Atoi(f)
		out = append(out, n)
	}
	return out
}

func SymDate() time.Time {
	f := fields("date")
	return time.Date(f[0], time.Month(f[1]), f[2], 0, 0, 0, 0, time.UTC)
}

func SymClock() time.Time {
	f := fields("clock")
	return time.Date(0, 1, 1, f[0], f[1], f[2], 0, time.UTC)
}

func SameInstant(a, b time.Time) bool { return a.Equal(b) }
func BytesEq(a, b []byte) bool       { return string(a) == string(b) }

// StringConsts: "Name|Type|Value" of every string constant declared in src (sorted).
func StringConsts(src string) []string {
	fset := token.NewFileSet()
	f, err := parser.ParseFile(fset, "src.go", src, parser.SkipObjectResolution)
	if err != nil {
		return nil
	}
	var out []string
	for _, d := range f.Decls {
		gd, ok := d.(*ast.GenDecl)
		if !ok || gd.Tok != token.CONST {
			continue
		}
		for _, sp := range gd.Specs {
			vs, ok := sp.(*ast.ValueSpec)
			if !ok || len(vs.Names) != 1 || len(vs.Values) != 1 {
				continue
			}
			typ := ""
			if id, ok := vs.Type.(*ast.Ident); ok {
				typ = id.Name
			}
			lit, ok := vs.Values[0].(*ast.BasicLit)
			if !ok || lit.Kind != token.STRING {
				continue
			}
			val, err := strconv.Unquote(lit.Value)
			if err != nil {
				continue
			}
			out = append(out, vs.Names[0].Name+"|"+typ+"|"+val)
		}
	}
	sort.Strings(out)
	return out
}

// MethodTypes: receiver type names of the declarations of method in src.
func MethodTypes(src, method string) []string {
	fset := token.NewFileSet()
	f, err := parser.ParseFile(fset, "src.go", src, parser.SkipObjectResolution)
	if err != nil {
		return nil
	}
	seen := map[string]bool{}
	var out []string
	for _, d := range f.Decls {
		fd, ok := d.(*ast.FuncDecl)
		if !ok || fd.Recv == nil || fd.Name.Name != method || len(fd.Recv.List) != 1 {
			continue
		}
		t := fd.Recv.List[0].Type
		if st, ok := t.(*ast.StarExpr); ok {
			t = st.X
		}
		if id, ok := t.(*ast.Ident); ok && !seen[id.Name] {
			seen[id.Name] = true
			out = append(out, id.Name)
		}
	}
	sort.Strings(out)
	return out
}

// ---- the CLI as a unit (native edition) ----
//
// The program under test really reads and writes files and really calls os.Exit, so the
// closure runs in a child process: the test binary re-executes itself with ZZ_CHILD=<replay
// index>; the child replays the same draws up to CatchExit, routes file descriptors 1 and 2
// to capture files and runs the closure.  The parent reads the status and the captures.

const OutRoot = "/tmp/zzvfs/out"

var (
	curReplay            string
	lastStdout, lastStderr []byte
)

func VFileData(path, content string) {
	if filepath.IsAbs(path) {
		_ = os.MkdirAll(filepath.Dir(path), 0o755)
		_ = os.WriteFile(path, []byte(content), 0o644)
	}
}

func CatchExit(f func()) int {
	dir := os.Getenv("ZZ_OUT")
	so, se := filepath.Join(dir, "child_stdout.txt"), filepath.Join(dir, "child_stderr.txt")
	if os.Getenv("ZZ_CHILD") != "" {
		fo, err1 := os.Create(so)
		fe, err2 := os.Create(se)
		if err1 != nil || err2 != nil {
			os.Exit(251)
		}
		if null, err := os.OpenFile(os.DevNull, os.O_WRONLY, 0); err == nil {
			out = null // protocol lines of the child are not the program's output
		}
		_ = syscall.Dup2(int(fo.Fd()), 1)
		_ = syscall.Dup2(int(fe.Fd()), 2)
		f()
		os.Exit(250)
	}
	_ = os.RemoveAll(OutRoot)
	var args []string
	for _, a := range os.Args[1:] {
		// the testing package turns os.Exit(0) into a panic under this flag
		if !strings.HasPrefix(a, "-test.paniconexit0") {
			args = append(args, a)
		}
	}
	cmd := exec.Command(os.Args[0], args...)
	cmd.Env = append(os.Environ(), "ZZ_CHILD="+curReplay)
	err := cmd.Run()
	code := 0
	if ee, ok := err.(*exec.ExitError); ok {
		code = ee.ExitCode()
	} else if err != nil {
		panic("zzvrt.CatchExit: cannot run the child process: " + err.Error())
	}
	lastStdout, _ = os.ReadFile(so)
	lastStderr, _ = os.ReadFile(se)
	if code == 250 {
		return -1
	}
	return code
}

func Stdout() string { return string(lastStdout) }
func Stderr() string { return string(lastStderr) }

func WrittenFiles() []string {
	var names []string
	_ = filepath.Walk(OutRoot, func(p string, info os.FileInfo, err error) error {
		if err == nil && !info.IsDir() {
			names = append(names, p)
		}
		return nil
	})
	sort.Strings(names)
	return names
}

func WrittenFile(path string) string {
	b, _ := os.ReadFile(path)
	return string(b)
}

func Outcome() string {
	var sb strings.Builder
	fmt.Fprintf(&sb, "stdout:\n%s\n--\nstderr:\n%s\n--\n", lastStdout, lastStderr)
	for _, n := range WrittenFiles() {
		fmt.Fprintf(&sb, "file %s:\n%s\n--\n", n, WrittenFile(n))
	}
	return sb.String()
}

// VFile (native): creates the file under the scratch root so that os.Stat succeeds.
func VFile(path string) {
	if filepath.IsAbs(path) {
		_ = os.MkdirAll(filepath.Dir(path), 0o755)
		_ = os.WriteFile(path, []byte("{}"), 0o644)
	}
}

func RuneString(n int) string    { return next("runestr").Str }
func RuneCount(s string) int     { return len([]rune(s)) }
func RuneAt(s string, i int) rune { return []rune(s)[i] }

func RuneSource(r rune) rune { return r }

// C13 intrinsics, native edition: documents are files doc_<n>.json rendered by the driver.
func DocBytes(doc int, path string) []byte {
	if path != "" {
		panic("zzvrt: native DocBytes supports the root only")
	}
	b, err := os.ReadFile(outFile(fmt.Sprintf("doc_%d.json", doc)))
	if err != nil {
		panic("zzvrt: " + err.Error())
	}
	return b
}
func DocAlias(doc int, pairs ...string) int { d := nDoc; nDoc++; return d }
func DocWrapArray(doc int, path string) int { d := nDoc; nDoc++; return d }
func SameParsed(a, b any, ignoreFields ...string) bool {
	rec := accBool("SameParsed")
	if r, ok := nativeSameParsed(a, b, ignoreFields); ok {
		return r
	}
	return rec
}

//go:build verif

package zzvrt

import (
	"os"
	"reflect"
	"strings"
)

var readSet map[string]bool

// nativeSameParsed: reflect-based structural equality ignoring named struct fields and
// unexported fields (nil and empty maps/slices are distinguished, like DeepEqual).
func nativeSameParsed(a, b any, ignore []string) (bool, bool) {
	ign := map[string]bool{}
	for _, f := range ignore {
		ign[f] = true
	}
	if ign["@generator-reads"] {
		b, err := os.ReadFile(outFile("fields_read.txt"))
		if err != nil {
			return false, false
		}
		readSet = map[string]bool{}
		for _, f := range strings.Split(strings.TrimSpace(string(b)), ",") {
			readSet[f] = true
		}
	} else {
		readSet = nil
	}
	return eqv(reflect.ValueOf(a), reflect.ValueOf(b), ign, map[[2]uintptr]bool{}), true
}

func eqv(a, b reflect.Value, ign map[string]bool, seen map[[2]uintptr]bool) bool {
	if !a.IsValid() || !b.IsValid() {
		return a.IsValid() == b.IsValid()
	}
	if a.Type() != b.Type() {
		return false
	}
	switch a.Kind() {
	case reflect.Ptr:
		if a.IsNil() || b.IsNil() {
			return a.IsNil() == b.IsNil()
		}
		k := [2]uintptr{a.Pointer(), b.Pointer()}
		if seen[k] {
			return true
		}
		seen[k] = true
		return eqv(a.Elem(), b.Elem(), ign, seen)
	case reflect.Interface:
		if a.IsNil() || b.IsNil() {
			return a.IsNil() == b.IsNil()
		}
		return eqv(a.Elem(), b.Elem(), ign, seen)
	case reflect.Struct:
		for i := 0; i < a.NumField(); i++ {
			f := a.Type().Field(i)
			if ign[f.Name] || f.PkgPath != "" {
				continue
			}
			if readSet != nil && strings.HasSuffix(a.Type().PkgPath(), "/pkg/schemas") && !readSet[f.Name] {
				continue
			}
			if !eqv(a.Field(i), b.Field(i), ign, seen) {
				return false
			}
		}
		return true
	case reflect.Slice:
		if a.IsNil() != b.IsNil() || a.Len() != b.Len() {
			return false
		}
		for i := 0; i < a.Len(); i++ {
			if !eqv(a.Index(i), b.Index(i), ign, seen) {
				return false
			}
		}
		return true
	case reflect.Map:
		if a.IsNil() != b.IsNil() || a.Len() != b.Len() {
			return false
		}
		for _, k := range a.MapKeys() {
			bv := b.MapIndex(k)
			if !bv.IsValid() || !eqv(a.MapIndex(k), bv, ign, seen) {
				return false
			}
		}
		return true
	default:
		return reflect.DeepEqual(a.Interface(), b.Interface())
	}
}
